import sympy as sp, tempfile, os, logging, pathlib
logging.disable(logging.CRITICAL)
from ampform.sympy import perform_cached_doit
from ampform.dynamics import EnergyDependentWidth
from ampform.dynamics.phasespace import PhaseSpaceFactorSWave, PhaseSpaceFactor
s,m0,w0,ma,mb,d=sp.symbols("s m0 w0 ma mb d", nonnegative=True)
d_=tempfile.mkdtemp()
a=EnergyDependentWidth(s,m0,w0,ma,mb,0,d,PhaseSpaceFactor); b=EnergyDependentWidth(s,m0,w0,ma,mb,0,d,PhaseSpaceFactorSWave)
ra=perform_cached_doit(a,d_); rb=perform_cached_doit(b,d_)
print("collision ok:", ra==a.doit(), rb==b.doit(), os.listdir(d_))
ra2=perform_cached_doit(a,d_); print("a again", ra2==a.doit())
# truncate
f=next(pathlib.Path(d_).glob("*.pkl")); data=f.read_bytes(); f.write_bytes(data[:len(data)//2])
try: print("truncated ok:", perform_cached_doit(a,d_)==a.doit())
except Exception as e: print("RAISED", type(e).__name__)
