import qrules, numpy as np, sympy as sp
import ampform
from ampform.helicity.align.axisangle import AxisAngleAlignment
r = qrules.generate_transitions(
    initial_state="J/psi(1S)",
    final_state=["gamma", "pi0", "pi0"],
    allowed_intermediate_particles=["f(0)(980)"],
    allowed_interaction_types=["strong","EM"],
    formalism="helicity",
)
print(len(r.transitions), {t.topology for t in r.transitions}.__len__())
b = ampform.get_builder(r)
b.config.spin_alignment = AxisAngleAlignment()
m = b.formulate()
wig = {k: v for k, v in m.kinematic_variables.items() if str(k).startswith(("alpha", "beta", "gamma"))}
print(list(wig))
# three-body phase space point: J/psi at rest
rng = np.random.default_rng(0)
M = 3.0969; mpi = 0.13498
# generate: simple, pick photon energy and angles then pi0s back-to-back in their rest frame
def boost(p, bx):
    b2 = bx @ bx; g = 1/np.sqrt(1-b2); bp = bx @ p[1:]
    out = np.empty(4); out[0] = g*(p[0]+bp); out[1:] = p[1:] + ((g-1)*bp/b2 + g*p[0])*bx
    return out
m12 = 1.2
Eg = (M**2 - m12**2)/(2*M)
n = rng.normal(size=3); n/=np.linalg.norm(n)
pg = np.array([Eg, *(Eg*n)])
P12 = np.array([M-Eg, *(-Eg*n)])
q = np.sqrt(m12**2/4 - mpi**2)
u = rng.normal(size=3); u/=np.linalg.norm(u)
p1 = boost(np.array([m12/2, *(q*u)]), P12[1:]/P12[0])
p2 = boost(np.array([m12/2, *(-q*u)]), P12[1:]/P12[0])
data = {"p0": np.array([pg]), "p1": np.array([p1]), "p2": np.array([p2])}
syms = sorted({s for v in wig.values() for s in v.free_symbols}, key=str)
print(syms)
import warnings
for k, v in wig.items():
    f = sp.lambdify(syms, v.doit(), "numpy")
    with warnings.catch_warnings():
        warnings.simplefilter("ignore")
        print(k, f(*[data[str(s)] for s in syms]))

full = m.expression.doit()
rng2 = np.random.default_rng(5)
pars = {k: (complex(rng2.normal(), rng2.normal()) if str(k).startswith("C_") else v) for k, v in sorted(m.parameter_defaults.items(), key=lambda kv: str(kv[0]))}
full = full.xreplace(pars)
kin_syms = sorted(full.free_symbols, key=str)
print("free:", kin_syms)
data["p1"] = np.array([p1])
vals = {}
import warnings
for ks in kin_syms:
    e = m.kinematic_variables[ks].doit()
    fs = sorted(e.free_symbols, key=str)
    with warnings.catch_warnings():
        warnings.simplefilter("ignore")
        vals[ks] = sp.lambdify(fs, e, "numpy")(*[data[str(x)] for x in fs])
f = sp.lambdify(kin_syms, full, "numpy")
with warnings.catch_warnings():
    warnings.simplefilter("ignore")
    print("aligned intensity:", f(*[vals[k] for k in kin_syms]))
b2 = ampform.get_builder(r)
m2 = b2.formulate()
full2 = m2.expression.doit().xreplace({k: pars.get(k, v) for k, v in m2.parameter_defaults.items()})
ks2 = sorted(full2.free_symbols, key=str)
v2 = {}
for ks in ks2:
    e = m2.kinematic_variables[ks].doit(); fs = sorted(e.free_symbols, key=str)
    v2[ks] = sp.lambdify(fs, e, "numpy")(*[data[str(x)] for x in fs])
print("unaligned intensity:", sp.lambdify(ks2, full2, "numpy")(*[v2[k] for k in ks2]))
