import sys, numpy as np, sympy as sp, qrules, ampform, logging
logging.disable(logging.WARNING)
PATCH = len(sys.argv)>1 and sys.argv[1]=="patch"
if PATCH:
    import ampform.kinematics.angles as A
    src = open(A.__file__).read()
    old = """                    phi, theta = get_helicity_angle_symbols(topology, state_id)
                    helicity_angles[phi] = Phi(four_momentum)
                    helicity_angles[theta] = Theta(four_momentum)

                    # call next recursion"""
    new = """                    phi, theta = get_helicity_angle_symbols(topology, state_id)
                    _ids = determine_attached_final_state(topology, state_id)
                    _p = ArraySum(*[four_momenta[i] for i in _ids]) if len(_ids)>1 else four_momenta[_ids[0]]
                    helicity_angles[phi] = Phi(_p)
                    helicity_angles[theta] = Theta(_p)

                    # call next recursion"""
    assert old in src
    exec(compile(src.replace(old,new), A.__file__, "exec"), A.__dict__)
    import ampform.kinematics as K
    K.compute_helicity_angles = A.compute_helicity_angles
reaction = qrules.generate_transitions(initial_state=("J/psi(1S)",[-1,0,1]), final_state=["pi0","pi+","pi-"], allowed_intermediate_particles=["rho(770)+","rho(770)0"], allowed_interaction_types=["strong","em"], formalism="helicity")
print(len(reaction.transitions), {t.topology for t in reaction.transitions}.__len__())
b = ampform.get_builder(reaction)
m = b.formulate()
expr = m.expression.doit()
rng=np.random.default_rng(1)
def gen():
    M=3.0969; ms=[0.135,0.1396,0.1396]
    while True:
        # simple accept: random momenta with p sum zero
        p1=rng.normal(size=3)*0.5; p2=rng.normal(size=3)*0.5; p3=-p1-p2
        E=[np.sqrt(mm**2+p@p) for mm,p in zip(ms,(p1,p2,p3))]
        # rescale to fix total energy via scaling momenta
        from scipy.optimize import brentq
        f=lambda a: sum(np.sqrt(mm**2+a*a*(p@p)) for mm,p in zip(ms,(p1,p2,p3)))-M
        a=brentq(f,0,100)
        ps=[a*p for p in (p1,p2,p3)]
        return [np.array([[np.sqrt(mm**2+p@p),*p]]) for mm,p in zip(ms,ps)]
def rot(ps,R):
    return [np.concatenate([p[:,:1], p[:,1:]@R.T],axis=1) for p in ps]
kv = m.kinematic_variables
psyms = sorted({s for e in kv.values() for s in e.free_symbols}, key=str)
kvf = {k: sp.lambdify(psyms, v.doit(), cse=True) for k,v in kv.items()}
pars = {k: v for k,v in m.parameter_defaults.items()}
rngc = np.random.default_rng(5)
pars = {k:(complex(rngc.normal(),rngc.normal()) if str(k).startswith("C_") else v) for k,v in pars.items()}
e2 = expr.xreplace(pars)
args = sorted(e2.free_symbols,key=str)
f = sp.lambdify(args, e2, cse=True)
def inten(ps):
    vals={k: kvf[k](*ps) for k in kv}
    return f(*[vals[a] for a in args])
from scipy.spatial.transform import Rotation
for i in range(3):
    ps=gen(); R=Rotation.random(random_state=i).as_matrix()
    print(inten(ps), inten(rot(ps,R)))
