import qrules, ampform, sympy as sp, logging
logging.disable(logging.WARNING)
r=qrules.generate_transitions("eta(c)(1S)", ["Lambda","Lambda~"], allowed_interaction_types=["strong"], formalism="helicity")
m=ampform.get_builder(r).formulate()
fs=m.expression.free_symbols
undefined=[s for s in fs if s not in m.parameter_defaults and s not in m.kinematic_variables]
print("amps",len(m.amplitudes),"undefined:",undefined, "Indexed left:", m.expression.atoms(sp.Indexed))
