import sympy as sp, numpy as np, itertools
from ampform.dynamics import kmatrix, phasespace
def run(L, phsp, pole_mass, n_channels=2, n_poles=1, s_val=4.4):
    kw = dict(n_channels=n_channels, n_poles=n_poles, angular_momentum=L)
    if phsp is not None: kw["phsp_factor"] = phsp
    T = kmatrix.RelativisticKMatrix.formulate(**kw).doit()
    syms = sorted(T.atoms(sp.Symbol, sp.Indexed) - {a for i in T.atoms(sp.Indexed) for a in [i.base.label]}, key=str)
    vals = {}
    for x in syms:
        n = x.name if hasattr(x, "name") else str(x)
        n = str(x)
        if n == "s": vals[x] = s_val
        elif n == "m_a[0]": vals[x] = 0.1
        elif n == "m_b[0]": vals[x] = 0.1
        elif n == "m_a[1]": vals[x] = 1.5
        elif n == "m_b[1]": vals[x] = 0.3
        elif n.startswith("m["): vals[x] = pole_mass
        elif n.startswith("Gamma["): vals[x] = 0.3
        elif n.startswith("gamma["): vals[x] = 0.6 if n.endswith("0]") else 0.8
        elif n.startswith("d"): vals[x] = 1.0
        else: raise SystemExit(f"unassigned {n}")
    M = np.array(sp.Matrix(T).xreplace(vals).evalf().tolist(), dtype=complex)
    S = np.eye(n_channels) + 2j*M
    return np.abs(S.conj().T @ S - np.eye(n_channels)).max(), np.abs(M-M.T).max(), {str(k):v for k,v in vals.items()}
for L in (0,1):
    for name, ph in (("default PhaseSpaceFactor", None), ("Abs", phasespace.PhaseSpaceFactorAbs), ("Complex", phasespace.PhaseSpaceFactorComplex)):
        for pm in (2.5, 1.5, 1.0):
            u, sy, vals = run(L, ph, pm)
            print(f"L={L} {name:26s} pole={pm}: |S+S-1|={u:.2e}  |T-T^T|={sy:.1e}")
print(vals)
