import sys, logging, hashlib, qrules, ampform, sympy as sp
logging.disable(logging.WARNING)
from ampform.helicity.align.dpd import DalitzPlotDecomposition, relabel_edge_ids
r=relabel_edge_ids(qrules.generate_transitions(initial_state=("J/psi(1S)",[-1,1]), final_state=["gamma","pi0","pi0"], allowed_intermediate_particles=["f(0)(980)"], allowed_interaction_types=["strong","em"], formalism="helicity"))
def dig(m): return hashlib.md5("|".join(sp.srepr(getattr(m,a)) if not hasattr(getattr(m,a),"items") else repr([(sp.srepr(k) if not isinstance(k,str) else k, sp.srepr(sp.sympify(v))) for k,v in getattr(m,a).items()]) for a in ("intensity","amplitudes","parameter_defaults","kinematic_variables","components")).encode()).hexdigest()[:10]
def build(stable):
    b=ampform.get_builder(r); b.config.spin_alignment=DalitzPlotDecomposition(3); b.config.stable_final_state_ids=stable
    return dig(b.formulate())
order=sys.argv[1]
if order=="A": print("A:", build(None), build([1,2,3]))
else: x=build([1,2,3]); y=build(None); print("B:", y, x)
