import qrules, ampform, sympy as sp
r = qrules.generate_transitions(initial_state=("J/psi(1S)", [+1]), final_state=["K0", "Sigma+", "p~"], allowed_intermediate_particles=["Sigma(1660)~-"], allowed_interaction_types=["strong"], formalism="canonical-helicity")
print(len(r.transitions))
for flag in (True, False):
  for child in (False, True):
    b = ampform.get_builder(r)
    b.naming.insert_ls_combinations = flag
    b.naming.insert_child_helicities = child
    m = b.formulate()
    print("insert_ls_combinations =", flag, "insert_child_helicities =", child, " n parameters:", len(m.parameter_defaults))
    for t in r.transitions[:16]:
        pf = [t.interactions[n].parity_prefactor for n in sorted(t.topology.nodes)]
        name = b.naming.generate_amplitude_name(t)
        v = m.components["A_{" + name + "}"]
        coeff = [a for a in v.args if a.is_number] if v.is_Mul else []
        hel = {i: t.states[i].spin_projection for i in sorted(t.states)}
        print("   hel", {k: str(x) for k, x in hel.items()}, "eta per node", pf, "numeric factor", coeff or [1], "coefficient", [str(a)[:60] for a in v.atoms(sp.Symbol) if str(a).startswith("C_")])
