import logging, itertools, qrules, ampform, sympy as sp
logging.disable(logging.WARNING)
from ampform.helicity.align.axisangle import AxisAngleAlignment
from ampform.helicity.align.dpd import DalitzPlotDecomposition, relabel_edge_ids
from ampform.helicity.align import NoAlignment
from ampform.dynamics.builder import create_relativistic_breit_wigner_with_ff
from ampform.sympy._array_expressions import ArraySymbol
def closure(m, tag):
    fs=m.expression.free_symbols
    pars=set(m.parameter_defaults); kv=set(m.kinematic_variables)
    und=[s for s in fs if s not in pars and s not in kv]
    both=pars&kv
    bad=[]
    for k,e in m.kinematic_variables.items():
        rest=[s for s in e.xreplace(dict(m.parameter_defaults)).free_symbols if not isinstance(s,ArraySymbol) and not str(s).startswith("p")]
        if rest: bad.append((k,rest))
    print(tag, "undefined", und[:4], "both", list(both)[:3], "kv-nonmomentum", bad[:2])
cases={
 "Jpsi->g pi0 pi0": dict(initial_state=("J/psi(1S)",[-1,1]), final_state=["gamma","pi0","pi0"], allowed_intermediate_particles=["f(0)(980)","f(2)(1270)"], allowed_interaction_types=["strong","em"]),
 "Lc->p K pi": dict(initial_state="Lambda(c)+", final_state=["p","K-","pi+"], allowed_intermediate_particles=["Lambda(1520)","K*(892)0","Delta(1232)++"]),
}
for name,kw in cases.items():
  for formalism in ("helicity","canonical-helicity"):
    r=qrules.generate_transitions(formalism=formalism, **kw)
    for align in ("none","axis","dpd1","dpd3"):
      for stable in (None,[0,1,2]):
        for scalar in (False,True):
          rr=r
          if align.startswith("dpd"): rr=relabel_edge_ids(r)
          b=ampform.get_builder(rr)
          b.config.spin_alignment={"none":NoAlignment(),"axis":AxisAngleAlignment(),"dpd1":DalitzPlotDecomposition(1),"dpd3":DalitzPlotDecomposition(3)}[align]
          b.config.stable_final_state_ids=[i+1 for i in stable] if (stable and align.startswith("dpd")) else stable
          b.config.scalar_initial_state_mass=scalar
          for n in ("f(0)(980)","Lambda(1520)","K*(892)0"): 
              b.dynamics.assign(n, create_relativistic_breit_wigner_with_ff)
          try:
              m=b.formulate()
              closure(m, f"{name}|{formalism}|{align}|stable={bool(stable)}|scalar={scalar}:")
          except Exception as ex:
              print(f"{name}|{formalism}|{align}|stable={bool(stable)}|scalar={scalar}: EXC", type(ex).__name__, str(ex)[:100])
