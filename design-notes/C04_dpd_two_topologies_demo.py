"""C04 demo A: two-topology model with axis-angle spin alignment.

B0 -> K+ omega pi- through K(1)(1270)+ -> K+ omega and K*(892)0 -> K+ pi- (decay
topologies (K+ omega) pi- and (K+ pi-) omega, which are added coherently), with all
spin projections of the omega included. With `AxisAngleAlignment` selected, the
intensity has to be the same for an event and for the same event after a global
rotation of all final-state momenta in the B0 rest frame, for any values of the
couplings.

(A final state with integer spin is used on purpose: for half-integer spin the Euler
angles of the Wigner rotation are only defined up to the sign of the SU(2) element.)

Exit status 0: invariant (property holds), 1: not invariant (property violated).
"""

from __future__ import annotations

import logging
import sys
import warnings

import numpy as np
import qrules
import sympy as sp

import ampform
from ampform.helicity.align.axisangle import AxisAngleAlignment
from ampform.helicity.align.dpd import DalitzPlotDecomposition, relabel_edge_ids

warnings.filterwarnings("ignore")
logging.disable(logging.CRITICAL)

TOLERANCE = 1e-9


def rotation_matrix(alpha: float, beta: float, gamma: float) -> np.ndarray:
    def rz(t):
        c, s = np.cos(t), np.sin(t)
        return np.array([[c, -s, 0], [s, c, 0], [0, 0, 1]])

    def ry(t):
        c, s = np.cos(t), np.sin(t)
        return np.array([[c, 0, s], [0, 1, 0], [-s, 0, c]])

    return rz(alpha) @ ry(beta) @ rz(gamma)


def boost_to_rest_frame(momenta: dict[int, np.ndarray]) -> dict[int, np.ndarray]:
    total = sum(momenta.values())
    beta = total[:, 1:] / total[:, :1]
    b2 = np.sum(beta**2, axis=1)
    gamma = 1 / np.sqrt(1 - b2)
    boosted = {}
    for i, p in momenta.items():
        bp = np.sum(beta * p[:, 1:], axis=1)
        energy = gamma * (p[:, 0] - bp)
        factor = (gamma - 1) * bp / b2 - gamma * p[:, 0]
        p3 = p[:, 1:] + factor[:, None] * beta
        boosted[i] = np.concatenate([energy[:, None], p3], axis=1)
    return boosted


def generate_events(masses: dict[int, float], n: int, rng) -> dict[int, np.ndarray]:
    momenta = {}
    for i, m in masses.items():
        p3 = rng.normal(0, 0.7, size=(n, 3))
        energy = np.sqrt(m**2 + np.sum(p3**2, axis=1))
        momenta[i] = np.concatenate([energy[:, None], p3], axis=1)
    return boost_to_rest_frame(momenta)


def rotate(momenta: dict[int, np.ndarray], rot: np.ndarray) -> dict[int, np.ndarray]:
    return {
        i: np.concatenate([p[:, :1], p[:, 1:] @ rot.T], axis=1)
        for i, p in momenta.items()
    }


class NumericalModel:
    def __init__(self, model: ampform.helicity.HelicityModel) -> None:
        kinematics = model.kinematic_variables
        self.momentum_symbols = sorted(
            {s for expr in kinematics.values() for s in expr.free_symbols}, key=str
        )
        self.kinematic_functions = {
            symbol.name: sp.lambdify(self.momentum_symbols, expr.doit(), "numpy")
            for symbol, expr in kinematics.items()
        }
        expression = model.expression.doit()
        self.arguments = sorted(expression.free_symbols, key=str)
        self.intensity = sp.lambdify(self.arguments, expression, "numpy", cse=True)

    def __call__(self, momenta: dict[int, np.ndarray], parameters: dict) -> np.ndarray:
        arrays = [momenta[int(s.name[1:])] for s in self.momentum_symbols]
        n_events = len(arrays[0])
        data = {
            name: np.broadcast_to(func(*arrays), (n_events,))
            for name, func in self.kinematic_functions.items()
        }
        values = [
            data[s.name] if s.name in data else parameters[s.name]
            for s in self.arguments
        ]
        return np.real(self.intensity(*values)) * np.ones(n_events)


def main() -> int:
    reaction = qrules.generate_transitions(
        initial_state="J/psi(1S)",
        final_state=["K0", "Sigma+", "p~"],
        allowed_intermediate_particles=["Sigma(1660)~-", "N(1650)+"],
        allowed_interaction_types=["strong"],
        formalism="helicity",
    )
    reaction = relabel_edge_ids(reaction)
    topologies = {t.topology for t in reaction.transitions}
    print('topologies', [str(t) for t in topologies][:3])
    assert len(topologies) == 2, "expected two decay topologies"
    builder = ampform.get_builder(reaction)
    builder.config.spin_alignment = DalitzPlotDecomposition(reference_subsystem=1)
    model = builder.formulate()
    func = NumericalModel(model)

    rng = np.random.default_rng(seed=2024)
    masses = {i: p.mass for i, p in reaction.final_state.items()}
    events = generate_events(masses, n=60, rng=rng)
    parameters = {}
    for symbol, value in model.parameter_defaults.items():
        if symbol.name.startswith("C_"):
            value = complex(rng.normal(), rng.normal())
        parameters[symbol.name] = value

    reference = func(events, parameters)
    if not np.all(np.isfinite(reference)) or not np.all(reference > 0):
        print("FAIL: intensities of the unrotated events are not finite and positive")
        print(reference)
        return 1
    worst = 0.0
    for angles in [(0.0, 1.1, 0.0), (0.7, 0.0, 0.0), (-2.1, 0.6, 1.3)]:
        rotated = func(rotate(events, rotation_matrix(*angles)), parameters)
        if not np.all(np.isfinite(rotated)):
            print(f"FAIL: non-finite intensities after rotation {angles}")
            return 1
        rel = np.abs(rotated - reference) / np.abs(reference)
        print("   events off by > 1e-6:", int(np.sum(rel > 1e-6)), "of", len(rel), " median of those:", float(np.median(rel[rel > 1e-6])) if np.any(rel > 1e-6) else 0)
        difference = np.max(rel)
        print(f"rotation (alpha, beta, gamma) = {angles}: max rel. diff {difference:.3g}")
        worst = max(worst, difference)
    if worst > TOLERANCE:
        print(
            "FAIL: intensity of B0 -> (K+ omega) pi- and (K+ pi-) omega with AxisAngleAlignment changes"
            f" under a global rotation of the event (max rel. difference {worst:.3g})"
        )
        return 1
    print(f"OK: intensity is rotation invariant (max rel. difference {worst:.3g})")
    return 0


if __name__ == "__main__":
    sys.exit(main())
