import qrules, ampform, sympy as sp, logging, hashlib
logging.disable(logging.WARNING)
r=qrules.generate_transitions("J/psi(1S)", ["p","p~"], allowed_interaction_types=["strong","em"], formalism="helicity")
m=ampform.get_builder(r).formulate()
print(m.intensity.indices, hashlib.md5(sp.srepr(m.intensity).encode()).hexdigest()[:8])
