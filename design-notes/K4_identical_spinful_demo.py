# K4 (C02 R-GROUPKEY state-identity): run with /venv/bin/python; prints I_a, I_b, I_a+I_b and the intensity of the model
# formulated on both helicity assignments together (0.3644 vs 0.2233 on the pinned tree + fixes).  Triage aid only, not part of any check.
import qrules, collections, random, sympy as sp
import ampform
from qrules.transition import ReactionInfo
r = qrules.generate_transitions(
    initial_state=("chi(c1)(1P)", [+1]),
    final_state=["omega(782)", "omega(782)", "eta"],
    allowed_intermediate_particles=["f(0)(980)", "f(2)(1270)"],
    allowed_interaction_types=["strong","EM"],
    formalism="helicity",
)
def outer(t): return tuple(t.states[i].spin_projection for i in sorted(t.topology.outgoing_edge_ids))
sel_a = [t for t in r.transitions if outer(t) == (0, 1, 0)]
sel_b = [t for t in r.transitions if outer(t) == (1, 0, 0)]
print(len(sel_a), len(sel_b))
def intensity(ts):
    ri = ReactionInfo(ts, formalism="helicity")
    m = ampform.get_builder(ri).formulate()
    return m
random.seed(1)
ma, mb, mab = intensity(sel_a), intensity(sel_b), intensity(sel_a + sel_b)
syms = set()
for m in (ma, mb, mab):
    syms |= m.expression.doit().free_symbols
vals = {}
for s in sorted(syms, key=str):
    if s.name.startswith("C_"):
        vals[s] = complex(random.uniform(-1,1), random.uniform(-1,1))
    else:
        vals[s] = random.uniform(0.3, 2.5)
ev = lambda m: complex(m.expression.doit().xreplace(vals).evalf())
ia, ib, iab = ev(ma), ev(mb), ev(mab)
print("I_a", ia, "I_b", ib, "I_a+I_b", ia+ib, "I_ab(code)", iab)
