import sys, re, numpy as np, sympy as sp, qrules, ampform, logging, collections
logging.disable(logging.WARNING)
kw=dict(initial_state=("J/psi(1S)",[-1,1]), final_state=["K0","Sigma+","p~"], allowed_intermediate_particles=["Sigma(1750)"], allowed_interaction_types=["strong"])
rh=qrules.generate_transitions(formalism="helicity",**kw)
rc=qrules.generate_transitions(formalism="canonical-helicity",**kw)
print(len(rh.transitions), len(rc.transitions))
mh=ampform.get_builder(rh).formulate(); mc=ampform.get_builder(rc).formulate()
rng=np.random.default_rng(0)
angles=sorted({s for e in mh.components.values() for s in e.free_symbols if s.name.startswith(("phi","theta"))},key=str)
pt={a:rng.uniform(0.3,1.2) for a in angles}
cvals={k:complex(rng.normal(),rng.normal()) for k in mc.parameter_defaults}
canon=collections.defaultdict(complex)
for name,expr in mc.components.items():
    if not name.startswith("A_"): continue
    key=re.sub(r" \\xrightarrow\[S=[^\]]*\]\{L=[^}]*\} ", r" \\to ", name)
    canon[key]+=complex(expr.doit().xreplace(cvals).xreplace(pt).evalf())
groups=collections.defaultdict(list)
for name,expr in mh.components.items():
    if not name.startswith("A_"): continue
    cs=[s for s in expr.free_symbols if s.name.startswith("C_")]
    assert len(cs)==1
    val=complex(expr.doit().xreplace({cs[0]:1}).xreplace(pt).evalf())
    groups[cs[0].name].append((name, canon[name]/val if abs(val)>1e-12 else None))
bad=0
for c,lst in groups.items():
    vals=[v for _,v in lst if v is not None]
    ok=all(abs(v-vals[0])<1e-9 for v in vals)
    if not ok:
        bad+=1
        print("INCONSISTENT", c)
        for n,v in lst: print("    ",n, None if v is None else np.round(v,6))
print("groups",len(groups),"inconsistent",bad)
