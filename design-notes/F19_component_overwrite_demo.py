import qrules, ampform, sympy as sp
r = qrules.generate_transitions(initial_state=("J/psi(1S)", [+1]), final_state=["gamma", "pi0", "pi0"], allowed_intermediate_particles=["omega(782)"], allowed_interaction_types=["strong","EM"], formalism="helicity")
m = ampform.get_builder(r).formulate()
A = {k: v for k, v in m.components.items() if k.startswith("A_")}
print(len(r.transitions), "transitions;", len(A), "A components")
tot_amp = {k: v for k, v in m.amplitudes.items() if v != 0}
for k, v in tot_amp.items():
    print(k, "terms:", len(v.args) if v.is_Add else 1)
s = sum(A.values())
t = sum(tot_amp.values())
print("sum of components == sum of amplitudes:", sp.simplify(s - t) == 0)
for k, v in list(A.items())[:2]:
    print(k, "->", v)
