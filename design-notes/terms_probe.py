"""Feasibility probe for engine E3 (term extraction + normal form). NOT a check.

Reads /repo sources with `ast` only (nothing from ampform or sympy is imported)
and decides a few of the R-TERM instances of DESIGN.md:

* Kallen symmetric / factorised, BreakupMomentumSquared * 4s == Kallen(s, m1^2, m2^2)
* Kibble == lambda(lambda(s1,m1^2,m0^2), lambda(s2,m2^2,m0^2), lambda(s3,m3^2,m0^2))
* the six literal cos(zeta) formulas == their geometric definition, modulo
  s1 + s2 + s3 = m0^2 + m1^2 + m2^2 + m3^2

Run: /venv/bin/python terms_probe.py   (prints verdicts and timings)
"""

from __future__ import annotations

import ast
import itertools
import time
from fractions import Fraction
from pathlib import Path

SRC = Path("/repo/src/ampform")

# --------------------------------------------------------------------------
# polynomials over atoms, Fraction coefficients; atoms are str or ("sqrt", key)


class Poly:
    __slots__ = ("t",)

    def __init__(self, terms=None):
        self.t = {m: c for m, c in (terms or {}).items() if c != 0}

    @staticmethod
    def const(c):
        return Poly({(): Fraction(c)})

    @staticmethod
    def atom(a):
        return Poly({((a, 1),): Fraction(1)})

    def __add__(self, o):
        r = dict(self.t)
        for m, c in o.t.items():
            r[m] = r.get(m, 0) + c
        return Poly(r)

    def __neg__(self):
        return Poly({m: -c for m, c in self.t.items()})

    def __sub__(self, o):
        return self + (-o)

    def __mul__(self, o):
        r = {}
        for m1, c1 in self.t.items():
            for m2, c2 in o.t.items():
                d = dict(m1)
                for a, e in m2:
                    d[a] = d.get(a, 0) + e
                m = tuple(sorted(d.items(), key=repr))
                r[m] = r.get(m, 0) + c1 * c2
        return Poly(r)

    def __pow__(self, n):
        r = Poly.const(1)
        for _ in range(n):
            r = r * self
        return r

    def key(self):
        return tuple(sorted(self.t.items(), key=repr))

    def is_zero(self):
        return not self.t

    def atoms(self):
        return {a for m in self.t for a, _ in m}

    def substitute(self, atom, power, repl: "Poly"):
        """Replace atom**power by repl (exponents must be multiples of power)."""
        out = Poly()
        for m, c in self.t.items():
            d = dict(m)
            e = d.pop(atom, 0)
            if e % power:
                raise ValueError(f"odd power of {atom}")
            rest = Poly({tuple(sorted(d.items(), key=repr)): c})
            out = out + rest * (repl ** (e // power))
        return out


RADICANDS: dict = {}  # sqrt-atom -> Poly


def reduce_sqrt(p: Poly) -> Poly:
    changed = True
    while changed:
        changed = False
        for a in list(p.atoms()):
            if isinstance(a, tuple) and a[0] == "sqrt":
                if any(e >= 2 for m in p.t for b, e in m if b == a):
                    out = Poly()
                    for m, c in p.t.items():
                        d = dict(m)
                        e = d.pop(a, 0)
                        rest = Poly({tuple(sorted(d.items(), key=repr)): c})
                        if e % 2:
                            rest = rest * Poly.atom(a)
                        out = out + rest * (RADICANDS[a] ** (e // 2))
                    p = out
                    changed = True
    return p


class RF:
    """Rational function num/den."""

    def __init__(self, n: Poly, d: Poly | None = None):
        self.n, self.d = n, d or Poly.const(1)

    def __add__(self, o):
        return RF(self.n * o.d + o.n * self.d, self.d * o.d)

    def __neg__(self):
        return RF(-self.n, self.d)

    def __sub__(self, o):
        return self + (-o)

    def __mul__(self, o):
        return RF(self.n * o.n, self.d * o.d)

    def __truediv__(self, o):
        return RF(self.n * o.d, self.d * o.n)

    def __pow__(self, e):
        if isinstance(e, int) and e >= 0:
            return RF(self.n**e, self.d**e)
        if isinstance(e, int):
            return RF(self.d ** (-e), self.n ** (-e))
        if e == Fraction(1, 2):
            return RF(sqrt_poly(self.n), sqrt_poly(self.d))
        raise ValueError(e)


RELATION = None  # (atom, power, Poly)


def apply_relation(p: Poly) -> Poly:
    if RELATION and RELATION[0] in p.atoms():
        p = p.substitute(*RELATION)
    return p


def sqrt_poly(p: Poly) -> Poly:
    p = apply_relation(p)
    if p.is_zero():
        return p
    # perfect-square monomial (e.g. 4*m**2)
    if len(p.t) == 1:
        (m, c), = p.t.items()
        r = _rational_sqrt(c)
        if r is not None and all(e % 2 == 0 for _, e in m):
            return Poly({tuple((a, e // 2) for a, e in m): r})
    # pull the rational content out of the radicand: sqrt(c * P) = sqrt(c) * sqrt(P)
    from math import gcd, lcm
    num = 0
    den = 1
    for c in p.t.values():
        num = gcd(num, abs(c.numerator))
        den = lcm(den, c.denominator)
    content = Fraction(num, den)
    root = _rational_sqrt(content)
    if root is None:
        content, root = Fraction(1), Fraction(1)
    # pull out the monomial content as well: sqrt(mu**2 * P) = mu * sqrt(P)
    common = None
    for m in p.t:
        d = dict(m)
        common = d if common is None else {a: min(e, d.get(a, 0)) for a, e in common.items() if a in d}
    common = {a: e - e % 2 for a, e in (common or {}).items() if e >= 2}
    def strip(m):
        d = dict(m)
        for a, e in common.items():
            d[a] -= e
        return tuple(sorted(((a, e) for a, e in d.items() if e), key=repr))
    prim = Poly({strip(m): c / content for m, c in p.t.items()})
    a = ("sqrt", prim.key())
    RADICANDS[a] = prim
    outer = tuple(sorted(((b, e // 2) for b, e in common.items()), key=repr))
    return Poly({tuple(sorted(dict(outer + ((a, 1),)).items(), key=repr)): root})


def _rational_sqrt(c: Fraction):
    from math import isqrt
    if c <= 0:
        return None
    n, d = isqrt(c.numerator), isqrt(c.denominator)
    return Fraction(n, d) if n * n == c.numerator and d * d == c.denominator else None


def equal(a: RF, b: RF) -> bool:
    diff = a.n * b.d - b.n * a.d
    diff = reduce_sqrt(apply_relation(diff))
    diff = reduce_sqrt(apply_relation(diff))
    return diff.is_zero()


# --------------------------------------------------------------------------
# ast -> RF


def parse(rel):
    return ast.parse((SRC / rel).read_text())


def find(tree, *path):
    node = tree
    for name in path:
        node = next(
            n for n in ast.walk(node)
            if isinstance(n, (ast.FunctionDef, ast.ClassDef)) and n.name == name and n is not node
        )
    return node


PHSP = parse("kinematics/phasespace.py")
ANG = parse("kinematics/angles.py")
DYN = parse("dynamics/phasespace.py")


def class_fields(cls):
    return [s.target.id for s in cls.body if isinstance(s, ast.AnnAssign) and not s.target.id.startswith("_")
            and s.value is None]


def unfold(cls_node, args):
    ev_fn = find(cls_node, "evaluate")
    env = {}
    for st in ev_fn.body:
        if isinstance(st, ast.Assign) and isinstance(st.value, ast.Attribute) and st.value.attr == "args":
            for t, a in zip(st.targets[0].elts, args):
                env[t.id] = a
        elif isinstance(st, ast.Return):
            return ev(st.value, env)
        elif isinstance(st, ast.Assign):
            env[st.targets[0].id] = ev(st.value, env)
    raise ValueError("no return")


def ev(node, env):
    if isinstance(node, ast.Constant):
        return RF(Poly.const(node.value))
    if isinstance(node, ast.Name):
        return env[node.id]
    if isinstance(node, ast.UnaryOp) and isinstance(node.op, ast.USub):
        return -ev(node.operand, env)
    if isinstance(node, ast.BinOp):
        l = ev(node.left, env)
        if isinstance(node.op, ast.Pow):
            assert isinstance(node.right, ast.Constant)
            return l ** node.right.value
        r = ev(node.right, env)
        return {ast.Add: l.__add__, ast.Sub: l.__sub__, ast.Mult: l.__mul__, ast.Div: l.__truediv__}[type(node.op)](r)
    if isinstance(node, ast.Call):
        f = node.func
        name = f.attr if isinstance(f, ast.Attribute) else f.id
        if name == "sqrt":
            return ev(node.args[0], env) ** Fraction(1, 2)
        if name == "Symbol":
            return RF(Poly.atom(node.args[0].value))
        if name == "acos":
            return ev(node.args[0], env)  # compare arguments of acos
        if name == "Kallen":
            return unfold(find(PHSP, "Kallen"), [ev(a, env) for a in node.args])
        raise ValueError(f"outside grammar: call {name}")
    raise ValueError(f"outside grammar: {ast.dump(node)[:60]}")


def A(name):
    return RF(Poly.atom(name))


def lam(x, y, z):
    return x**2 + y**2 + z**2 - RF(Poly.const(2)) * (x * y + y * z + z * x)


# --------------------------------------------------------------------------

t0 = time.time()
x, y, z, u, v = map(A, "xyzuv")
K = unfold(find(PHSP, "Kallen"), [x, y, z])
print("Kallen symmetric:", all(equal(K, unfold(find(PHSP, "Kallen"), list(p))) for p in itertools.permutations([x, y, z])))
two = RF(Poly.const(2))
print("Kallen factorised:", equal(unfold(find(PHSP, "Kallen"), [x, u**2, v**2]), (x - (u + v) ** 2) * (x - (u - v) ** 2)))
s, m1, m2 = A("s"), A("m1"), A("m2")
q2 = unfold(find(DYN, "BreakupMomentumSquared"), [s, m1, m2])
print("q2*4s == Kallen(s,m1^2,m2^2):", equal(q2 * RF(Poly.const(4)) * s, unfold(find(PHSP, "Kallen"), [s, m1**2, m2**2])))
print("q2 vanishes at (m1+m2)^2:", equal(unfold(find(DYN, "BreakupMomentumSquared"), [(m1 + m2) ** 2, m1, m2]), RF(Poly())))
S = {i: A(f"sigma{i}") for i in (1, 2, 3)}
M = {i: A(f"M{i}") for i in range(4)}
kib = unfold(find(PHSP, "Kibble"), [S[1], S[2], S[3], M[0], M[1], M[2], M[3]])
ref = lam(lam(S[1], M[1] ** 2, M[0] ** 2), lam(S[2], M[2] ** 2, M[0] ** 2), lam(S[3], M[3] ** 2, M[0] ** 2))
bad = lam(lam(S[1], M[1] ** 2, M[0] ** 2), lam(S[2], M[3] ** 2, M[0] ** 2), lam(S[3], M[2] ** 2, M[0] ** 2))
print("Kibble == reference:", equal(kib, ref), "| mis-paired reference differs:", not equal(kib, bad), f"({len(kib.n.t)} monomials)")
print(f"  polynomial part: {time.time() - t0:.2f} s")

# ---- zeta: six literal branches of formulate_zeta_angle vs geometric definition
t0 = time.time()
fz = find(ANG, "formulate_zeta_angle")
m = {i: A(f"m_{i}") for i in range(4)}
mass_sq = {1: A("m_23") ** 2, 2: A("m_13") ** 2, 3: A("m_12") ** 2}
total = m[0] ** 2 + m[1] ** 2 + m[2] ** 2 + m[3] ** 2
RELATION = ("m_12", 2, (total - mass_sq[1] - mass_sq[2]).n)
prelude = {"m0": m[0], "m1": m[1], "m2": m[2], "m3": m[3], "s1": mass_sq[1], "s2": mass_sq[2], "s3": mass_sq[3]}
# (the real engine derives `prelude` from the sp.symbols / sp.Symbol assignments)


def dot(a, b):
    r = RF(Poly())
    for i in a:
        for j in b:
            if i == j:
                r = r + m[i] ** 2
            else:
                k = ({1, 2, 3} - {i, j}).pop()
                r = r + (mass_sq[k] - m[i] ** 2 - m[j] ** 2) / two
    return r


def direction(i, chain):
    return (1, 2, 3) if chain == i else tuple(sorted({1, 2, 3} - {chain}))


def spec(i, j, k):
    a, b, pi = direction(i, j), direction(i, k), (i,)
    ea, eb = dot(a, pi) / m[i], dot(b, pi) / m[i]
    pa = (ea**2 - dot(a, a)) ** Fraction(1, 2)
    pb = (eb**2 - dot(b, b)) ** Fraction(1, 2)
    return (ea * eb - dot(a, b)) / (pa * pb)


for st in fz.body:
    if isinstance(st, ast.If) and isinstance(st.test, ast.Compare) and isinstance(st.test.comparators[0], ast.Tuple) \
            and isinstance(st.test.ops[0], ast.Eq):
        triple = tuple(e.value for e in st.test.comparators[0].elts)
        expr = next(s.value for s in st.body if isinstance(s, ast.Assign))
        code = ev(expr, dict(prelude))
        ok = equal(code, spec(*triple))
        # mutant: swap m1 <-> m2 in the code term must be detected
        mutated = ev(expr, {**prelude, "m1": prelude["m2"], "m2": prelude["m1"]})
        print("zeta", triple, "== geometric spec:", ok, "| index-swapped mutant differs:", not equal(mutated, spec(*triple)))
print(f"  zeta part: {time.time() - t0:.2f} s")

# ---- debugging aid
if __name__ == "__main__":
    import sys
    if "--debug" in sys.argv:
        st = next(s for s in fz.body if isinstance(s, ast.If) and isinstance(s.test, ast.Compare) and isinstance(s.test.comparators[0], ast.Tuple))
        expr = next(s.value for s in st.body if isinstance(s, ast.Assign))
        RADICANDS.clear()
        code = ev(expr, dict(prelude)); sp_ = spec(1, 1, 3)
        def show(p):
            return {tuple((a if isinstance(a,str) else "SQRT#%d" % (list(RADICANDS).index(a)), e) for a, e in m): str(c) for m, c in list(p.t.items())[:6]}
        print("code den", show(code.d)); print("spec den", show(sp_.d))
        for i, (a, r) in enumerate(RADICANDS.items()):
            print(i, len(r.t), sorted(map(str, r.atoms())))
        diff = reduce_sqrt(apply_relation(code.n * sp_.d - sp_.n * code.d))
        print("diff terms", len(diff.t), show(diff))
