import inspect, importlib, pkgutil, dataclasses, pickle, sympy as sp, ampform, logging
logging.disable(logging.WARNING)
from ampform.sympy._array_expressions import ArraySymbol
classes=[]
for mi in pkgutil.walk_packages(ampform.__path__, "ampform."):
    mod=importlib.import_module(mi.name)
    for n,c in vars(mod).items():
        if inspect.isclass(c) and c.__module__==mod.__name__ and dataclasses.is_dataclass(c) and issubclass(c, sp.Expr): classes.append(c)
print(len(classes))
a,b,x,y=sp.symbols("a b x y", positive=True)
from ampform.dynamics.phasespace import BreakupMomentumSquared, PhaseSpaceFactorSWave
from ampform.kinematics.phasespace import Kallen
issues=[]
for c in classes:
    fs=dataclasses.fields(c)
    nested=Kallen(a,b,x)
    args=[]
    for i,f in enumerate(fs):
        if f.metadata.get("sympify"): args.append([nested, a+b, b, x, a*x, 2*a, b+1, a, b, x, a, b][i % 12])
        elif f.name=="phsp_factor": args.append(PhaseSpaceFactorSWave)
        else: args.append("nm")
    try:
        e=c(*args)
    except Exception as ex:
        issues.append((c.__name__,"construct",repr(ex)[:80])); continue
    rule={a:y}
    try:
        e1=e.xreplace(rule); e2=e.subs(a,y)
        if e1!=e2: issues.append((c.__name__,"subs!=xreplace"))
        if type(e1) is not c: issues.append((c.__name__,"type changed"))
        for f in fs:
            if not f.metadata.get("sympify") and getattr(e1,f.name)!=getattr(e,f.name): issues.append((c.__name__,"attr lost",f.name))
        if pickle.loads(pickle.dumps(e))!=e: issues.append((c.__name__,"pickle"))
        if e.func(*e.args)!=e and all(f.metadata.get("sympify") for f in fs): issues.append((c.__name__,"func(*args)"))
        if hasattr(c,"evaluate") and c.__name__ not in ("SphericalHankel1","BlattWeisskopfSquared","FormFactor","EnergyDependentWidth"):
            l=e.xreplace(rule).doit(); r=e.doit().xreplace(rule)
            if l!=r: issues.append((c.__name__,"commute",str(l)[:60],str(r)[:60]))
    except Exception as ex:
        issues.append((c.__name__,"exc",repr(ex)[:100]))
for i in issues: print(i)
print("issues",len(issues))
