"""Feasibility probe: reaching-definition provenance for key/value stores."""
import ast, sys, itertools
src=open(sys.argv[1]).read(); tree=ast.parse(src)
KEYCTORS={"get_helicity_angle_symbols":1,"get_invariant_mass_symbol":1}

class RD:
    def __init__(s): s.defs={}; s.n=0; s.findings=[]
    def newdef(s,name,node,deps):
        s.n+=1; d=(name,s.n,getattr(node,"lineno",0)); s.defs[d]=deps; return d
    def uses(s,expr,env):
        out=set()
        for n in ast.walk(expr):
            if isinstance(n,ast.Name) and isinstance(n.ctx,ast.Load) and n.id in env: out|=env[n.id]
        return out
    def closure(s,ds):
        seen=set(); st=list(ds)
        while st:
            d=st.pop()
            if d in seen: continue
            seen.add(d); st+=list(s.defs.get(d,()))
        return seen
    def assign(s,target,deps,env,node):
        if isinstance(target,ast.Name): env[target.id]={s.newdef(target.id,node,deps)}
        elif isinstance(target,(ast.Tuple,ast.List)):
            for t in target.elts: s.assign(t,deps,env,node)
    def block(s,stmts,env):
        for st in stmts: s.stmt(st,env)
    def stmt(s,st,env):
        if isinstance(st,ast.Assign):
            deps=s.uses(st.value,env)
            for t in st.targets:
                if isinstance(t,ast.Subscript): s.store(t,st.value,env,st)
                else:
                    # remember key-constructor calls
                    if isinstance(st.value,ast.Call):
                        f=st.value.func; nm=f.id if isinstance(f,ast.Name) else getattr(f,"attr",None)
                        if nm in KEYCTORS:
                            idarg=st.value.args[KEYCTORS[nm]]
                            s.assign(t,deps,env,st)
                            for n in (t.elts if isinstance(t,ast.Tuple) else [t]):
                                s.keyid[next(iter(env[n.id]))]=s.uses(idarg,env)
                            continue
                    s.assign(t,deps,env,st)
        elif isinstance(st,ast.AnnAssign) and st.value is not None:
            s.assign(st.target,s.uses(st.value,env),env,st)
        elif isinstance(st,ast.If):
            e1={k:set(v) for k,v in env.items()}; e2={k:set(v) for k,v in env.items()}
            s.block(st.body,e1); s.block(st.orelse,e2)
            for k in set(e1)|set(e2): env[k]=e1.get(k,set())|e2.get(k,set())
        elif isinstance(st,ast.For):
            for _ in range(2):
                s.assign(st.target,s.uses(st.iter,env),env,st)
                e1={k:set(v) for k,v in env.items()}; s.block(st.body,e1)
                for k in e1: env[k]=env.get(k,set())|e1[k]
        elif isinstance(st,ast.FunctionDef):
            e1={k:set(v) for k,v in env.items()}
            for a in st.args.args: e1[a.arg]={s.newdef(a.arg,st,set())}
            s.block(st.body,e1)
        elif isinstance(st,(ast.Expr,ast.Return)): pass
    keyid={}
    def store(s,t,value,env,node):
        kd=s.uses(t.slice,env)
        for d in kd:
            if d in s.keyid:
                kid=s.keyid[d]                       # defs of identity var at key construction
                vdefs=s.closure(s.uses(value,env))   # all defs the value derives from
                idname={x[0] for x in kid}
                v_id={x for x in vdefs if x[0] in idname}
                # same identity variable must reach value with the same def-set
                extra={x for x in kid if x not in vdefs}
                if extra: s.findings.append((node.lineno, ast.unparse(node), sorted(kid), sorted(v_id)))
r=RD()
for fn in ast.walk(tree):
    if isinstance(fn,ast.FunctionDef) and fn.name in ("compute_helicity_angles","compute_invariant_masses"):
        env={a.arg:{r.newdef(a.arg,fn,set())} for a in fn.args.args}
        r.block(fn.body,env)
seen=set()
for f in r.findings:
    if f[0] in seen: continue
    seen.add(f[0]); print("PROV-MISMATCH line",f[0],f[1],"\n   key identity defs:",f[2],"\n   value identity defs:",f[3])
print("done", len(seen))
