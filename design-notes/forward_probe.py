import ast, pathlib
P={"phsp_factor","angular_momentum","meson_radius"}
root=pathlib.Path("/repo/src/ampform/dynamics")
sigs={}
mods={p:ast.parse(p.read_text()) for p in list(root.glob("*.py"))}
for p,t in mods.items():
    for n in ast.walk(t):
        if isinstance(n,ast.ClassDef):
            fields=[s.target.id for s in n.body if isinstance(s,ast.AnnAssign) and isinstance(s.target,ast.Name)]
            if fields: sigs[n.name]=fields
            for m in n.body:
                if isinstance(m,ast.FunctionDef): sigs[f"{n.name}.{m.name}"]=[a.arg for a in m.args.args+m.args.kwonlyargs]
        elif isinstance(n,ast.FunctionDef): sigs.setdefault(n.name,[a.arg for a in n.args.args+n.args.kwonlyargs])
tri=[]
for p,t in mods.items():
    for cls in [n for n in ast.walk(t) if isinstance(n,(ast.ClassDef,ast.Module))]:
        cfields=set(sigs.get(getattr(cls,"name",""),[]))
        for fn in [m for m in cls.body if isinstance(m,ast.FunctionDef)]:
            have=({a.arg for a in fn.args.args+fn.args.kwonlyargs}|cfields)&P
            if not have: continue
            for c in ast.walk(fn):
                if isinstance(c,ast.Call):
                    f=c.func
                    nm=f.id if isinstance(f,ast.Name) else (f"{f.value.id}.{f.attr}" if isinstance(f,ast.Attribute) and isinstance(f.value,ast.Name) else None)
                    if nm is None: continue
                    if nm.startswith(("cls.","self.")): nm=f"{getattr(cls,'name','')}.{nm.split('.')[1]}"
                    cal=sigs.get(nm)
                    if not cal: continue
                    for q in have&set(cal):
                        kws={k.arg for k in c.keywords}
                        pos=len(c.args)
                        idx=cal.index(q)-(1 if cal and cal[0] in("self","cls") else 0)
                        ok=q in kws or pos>idx
                        tri.append((p.name,getattr(cls,"name","<mod>")+"."+fn.name,nm,q,c.lineno,ok))
for t in tri: print(t)
print(len(tri), sum(1 for t in tri if not t[-1]))
