#!/bin/sh
# round 4 of neutral refactorings: /tmp/neutral4/Cxx/_neutral/N{1,2,3} -> /verif/neutral/Cxx-V{1,2,3}
for d in /tmp/neutral4/C*/_neutral/N[123]; do
  pid=$(echo $d | cut -d/ -f4); n=$(basename $d); name="$pid-V${n#N}"
  [ -f $d/patch.diff ] && [ -f $d/notes.md ] && [ -f $d/equal.py ] || continue
  [ -d /verif/neutral/$name ] && continue
  mkdir -p /verif/neutral/$name; cp $d/patch.diff $d/notes.md $d/equal.py /verif/neutral/$name/
  /venv/bin/python - "$name" <<'PY'
import json, re, pathlib, sys
d = pathlib.Path("/verif/neutral")/sys.argv[1]
notes = (d/"notes.md").read_text().splitlines()
title = next((l.strip("# ").strip() for l in notes if l.strip()), d.name)
files = re.findall(r"^diff --git a/(\S+)", (d/"patch.diff").read_text(), re.M)
meta = {"name": d.name, "written_for_property": d.name[:3], "round": 4, "title": title, "files": files,
        "how_confirmed": "by its author in a scratch worktree: equal.py prints the same digest on the clean and on the refactored tree; the full pinned suite gives the same result with the patch (see notes.md)",
        "expected": "silent (all 20 checks)", "undecided": {}}
(d/"meta.json").write_text(json.dumps(meta, indent=1)+"\n")
PY
  echo imported $name
done
