#!/venv/bin/python
"""Developer tool: run all 20 checks (quick, in memory, /repo untouched) on a patch and print which react.

usage: tools/peek_all.py <patch.diff> [<patch.diff> ...]
"""
import sys
from concurrent.futures import ProcessPoolExecutor
from pathlib import Path

sys.path.insert(0, str(Path(__file__).resolve().parent.parent))
PIDS = [f"C{i:02d}" for i in range(1, 21)]


def one(args):
    path, pid = args
    from sa import selftest
    from sa.cli import run_property
    from sa.loader import REPO, Tree, read_sources

    base = read_sources(REPO)
    patched = selftest.apply_unified_diff(base, Path(path).read_text())
    if patched is None:
        return path, pid, "patch does not apply"
    bcode, bctx = run_property(pid, "quick", 0, Tree(base, root="<base>"), quiet=True, write=False)
    known = {(i.rule, i.key) for i in bctx.instances if i.verdict in {"violation", "known"}}
    code, ctx = run_property(pid, "quick", 0, Tree(patched, root="<patched>"), quiet=True, write=False)
    new = sorted({f"{i.rule} {i.key[-90:]}" for i in ctx.instances if i.verdict == "violation" and (i.rule, i.key) not in known})
    if new:
        return path, pid, "VIOLATION " + "; ".join(new)[:400]
    if code == 2:
        return path, pid, "exit 2: " + str(getattr(ctx, "analysis_error", ""))[:300]
    return path, pid, None


if __name__ == "__main__":
    jobs = [(p, pid) for p in sys.argv[1:] for pid in PIDS]
    with ProcessPoolExecutor(max_workers=12) as ex:
        res = list(ex.map(one, jobs))
    for p in sys.argv[1:]:
        hits = [(pid, r) for q, pid, r in res if q == p and r]
        print(f"== {p}: " + ("all 20 silent (MISSED)" if not hits else ""))
        for pid, r in hits:
            print(f"   {pid}: {r}")
