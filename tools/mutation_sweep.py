#!/venv/bin/python
"""Generic AST mutation sweep (developer tool, not registered): where are the checks blind?

Generates first-order mutants of the anchored source files (operator / comparison swaps,
constants +-1, dropped unary minus, swapped positional arguments, dropped keyword arguments,
deleted statements), runs the checks whose anchors contain the file on each mutant *in memory*
and lists the survivors per function.  Survivors are not failures (many are equivalent or outside
every property); they are the reading list for strengthening rules.

usage: mutation_sweep.py [--files substr,...] [--props C07,C10] [--jobs 16] [--out file]
"""
from __future__ import annotations

import ast
import copy
import json
import sys
from concurrent.futures import ProcessPoolExecutor
from pathlib import Path

VERIF = Path(__file__).resolve().parent.parent
sys.path.insert(0, str(VERIF))
from sa.cli import run_property  # noqa: E402
from sa.loader import REPO, Tree, read_sources  # noqa: E402

SWAP_BIN = {ast.Add: ast.Sub, ast.Sub: ast.Add, ast.Mult: ast.Div, ast.Div: ast.Mult}
SWAP_CMP = {ast.Lt: ast.LtE, ast.LtE: ast.Lt, ast.Gt: ast.GtE, ast.GtE: ast.Gt, ast.Eq: ast.NotEq, ast.NotEq: ast.Eq, ast.In: ast.NotIn, ast.NotIn: ast.In, ast.Is: ast.IsNot, ast.IsNot: ast.Is}


def anchors() -> dict[str, set[str]]:
    out: dict[str, set[str]] = {}
    for line in (VERIF / "properties.jsonl").read_text().splitlines():
        p = json.loads(line)
        for f in p["anchors"]["files"]:
            out.setdefault(f, set()).add(p["id"])
    return out


def sites(tree: ast.Module):
    """(path of child indices from the module, kind, description)"""
    docstrings = set()
    for n in ast.walk(tree):
        if isinstance(n, (ast.FunctionDef, ast.ClassDef, ast.Module)) and n.body and isinstance(n.body[0], ast.Expr) and isinstance(n.body[0].value, ast.Constant) and isinstance(n.body[0].value.value, str):
            docstrings.add(id(n.body[0]))
    out = []

    def visit(node, path, fn):
        if id(node) in docstrings:
            return
        if isinstance(node, (ast.FunctionDef, ast.AsyncFunctionDef)):
            fn = f"{fn}.{node.name}" if fn else node.name
        elif isinstance(node, ast.ClassDef):
            fn = f"{fn}.{node.name}" if fn else node.name
        if fn and not isinstance(node, (ast.ClassDef,)):
            if isinstance(node, ast.BinOp) and type(node.op) in SWAP_BIN:
                out.append((path, "binop", fn, node.lineno))
            if isinstance(node, ast.BinOp) and isinstance(node.op, ast.Pow) and isinstance(node.right, ast.Constant) and node.right.value == 2:
                out.append((path, "pow2", fn, node.lineno))
            if isinstance(node, ast.Compare) and len(node.ops) == 1 and type(node.ops[0]) in SWAP_CMP:
                out.append((path, "cmp", fn, node.lineno))
            if isinstance(node, ast.UnaryOp) and isinstance(node.op, ast.USub) and not isinstance(node.operand, ast.Constant):
                out.append((path, "usub", fn, node.lineno))
            if isinstance(node, ast.UnaryOp) and isinstance(node.op, ast.Not):
                out.append((path, "not", fn, node.lineno))
            if isinstance(node, ast.Constant) and isinstance(node.value, bool):
                out.append((path, "bool", fn, node.lineno))
            elif isinstance(node, ast.Constant) and isinstance(node.value, int) and not isinstance(node.value, bool):
                out.append((path, "int", fn, node.lineno))
            if isinstance(node, ast.Call):
                if len(node.args) >= 2 and not any(isinstance(a, ast.Starred) for a in node.args[:2]):
                    out.append((path, "swapargs", fn, node.lineno))
                for k, kw in enumerate(node.keywords):
                    if kw.arg:
                        out.append((path, f"dropkw:{k}", fn, node.lineno))
            if isinstance(node, (ast.AugAssign, ast.Expr)) and not (isinstance(node, ast.Expr) and isinstance(node.value, ast.Constant)):
                out.append((path, "delstmt", fn, node.lineno))
            if isinstance(node, ast.Assign) and isinstance(node.targets[0], (ast.Subscript, ast.Attribute)):
                out.append((path, "delstmt", fn, node.lineno))
            if isinstance(node, ast.BoolOp):
                out.append((path, "boolop", fn, node.lineno))
        for field, value in ast.iter_fields(node):
            if isinstance(value, list):
                for i, item in enumerate(value):
                    if isinstance(item, ast.AST):
                        visit(item, path + ((field, i),), fn)
            elif isinstance(value, ast.AST):
                if field in {"returns", "annotation"}:
                    continue
                visit(value, path + ((field, None),), fn)

    visit(tree, (), "")
    return [o for o in out if not any(f in {"defaults", "kw_defaults", "decorator_list"} for f, _ in o[0])]


def get(node, path):
    for field, i in path:
        node = getattr(node, field)
        if i is not None:
            node = node[i]
    return node


def set_(root, path, new):
    parent = get(root, path[:-1])
    field, i = path[-1]
    if i is None:
        setattr(parent, field, new)
    else:
        getattr(parent, field)[i] = new


def mutate(tree: ast.Module, path, kind) -> str | None:
    t = copy.deepcopy(tree)
    node = get(t, path)
    if kind == "binop":
        node.op = SWAP_BIN[type(node.op)]()
    elif kind == "pow2":
        node.right = ast.Constant(3)
    elif kind == "cmp":
        node.ops = [SWAP_CMP[type(node.ops[0])]()]
    elif kind == "usub":
        set_(t, path, node.operand)
    elif kind == "not":
        set_(t, path, node.operand)
    elif kind == "bool":
        node.value = not node.value
    elif kind == "int":
        node.value = node.value + 1
    elif kind == "swapargs":
        node.args[0], node.args[1] = node.args[1], node.args[0]
    elif kind.startswith("dropkw:"):
        del node.keywords[int(kind.split(":")[1])]
    elif kind == "delstmt":
        set_(t, path, ast.Pass())
    elif kind == "boolop":
        node.op = ast.Or() if isinstance(node.op, ast.And) else ast.And()
    ast.fix_missing_locations(t)
    try:
        return ast.unparse(t)
    except Exception:
        return None


_SRC = None
_BASE = {}


def _init():
    global _SRC
    _SRC = read_sources(REPO)


def run_one(job):
    file, path, kind, fn, line, pids = job
    global _SRC
    if _SRC is None:
        _init()
    tree = ast.parse(_SRC[file])
    new = mutate(tree, path, kind)
    if new is None:
        return None
    try:
        ast.parse(new)
    except SyntaxError:
        return None
    sources = dict(_SRC)
    sources[file] = new
    try:
        mt = Tree(sources, root="<mutant>")
    except Exception as exc:  # noqa: BLE001
        return {"file": file, "fn": fn, "line": line, "kind": kind, "result": {"*": f"tree-error {exc}"}}
    res = {}
    for pid in pids:
        if pid not in _BASE:
            _, bctx = run_property(pid, "quick", 0, Tree(_SRC, root="<base>"), quiet=True, write=False)
            _BASE[pid] = {(i.rule, i.key) for i in bctx.instances if i.verdict in {"violation", "known"}}
        code, ctx = run_property(pid, "quick", 0, mt, quiet=True, write=False)
        new_v = sorted({i.rule for i in ctx.instances if i.verdict == "violation" and (i.rule, i.key) not in _BASE[pid]})
        res[pid] = "V:" + ",".join(new_v) if new_v else ("E" if code == 2 else "-")
    return {"file": file, "fn": fn, "line": line, "kind": kind, "result": res, "text": _line_of(new, _SRC[file], line)}


def _line_of(new: str, old: str, line: int) -> str:
    import difflib

    a, b = ast.unparse(ast.parse(old)).splitlines(), new.splitlines()
    for tag, i1, i2, j1, j2 in difflib.SequenceMatcher(None, a, b, autojunk=False).get_opcodes():
        if tag != "equal":
            return (" | ".join(x.strip() for x in a[i1:i2])[:110] + "  =>  " + " | ".join(x.strip() for x in b[j1:j2])[:110])
    return ""


def main() -> int:
    argv = sys.argv[1:]
    opt = {}
    i = 0
    while i < len(argv):
        if argv[i].startswith("--"):
            if i + 1 < len(argv) and not argv[i + 1].startswith("--"):
                opt[argv[i]] = argv[i + 1]
                i += 2
            else:
                opt[argv[i]] = "1"
                i += 1
        else:
            i += 1
    files_filter = opt.get("--files", "").split(",") if opt.get("--files") else None
    props_filter = set(opt.get("--props", "").split(",")) if opt.get("--props") else None
    jobs_n = int(opt.get("--jobs", "16"))
    out_path = opt.get("--out", "/tmp/mutation_sweep.json")
    src = read_sources(REPO)
    anc = anchors()
    jobs = []
    for file, pids in sorted(anc.items()):
        if file not in src:
            continue
        if files_filter and not any(f in file for f in files_filter):
            continue
        pids = sorted(pids & props_filter) if props_filter else sorted(pids)
        if opt.get("--all-props"):
            pids = [f"C{i:02d}" for i in range(1, 21)]
        if not pids:
            continue
        tree = ast.parse(src[file])
        for path, kind, fn, line in sites(tree):
            jobs.append((file, path, kind, fn, line, pids))
    print(f"{len(jobs)} mutants over {len({j[0] for j in jobs})} files", flush=True)
    with ProcessPoolExecutor(max_workers=jobs_n, initializer=_init) as pool:
        results = [r for r in pool.map(run_one, jobs, chunksize=8) if r is not None]
    Path(out_path).write_text(json.dumps(results, indent=1))
    killed = [r for r in results if any(v.startswith("V") for v in r["result"].values())]
    errs = [r for r in results if not any(v.startswith("V") for v in r["result"].values()) and any(v == "E" for v in r["result"].values())]
    surv = [r for r in results if all(v == "-" for v in r["result"].values())]
    print(f"killed {len(killed)}  analysis-error {len(errs)}  survived {len(surv)}  of {len(results)}")
    by_fn: dict[tuple, list] = {}
    for r in surv:
        by_fn.setdefault((r["file"], r["fn"]), []).append(r)
    for (file, fn), rs in sorted(by_fn.items()):
        print(f"\n## {file} :: {fn}  ({len(rs)} survivors)")
        for r in rs[:40]:
            print(f"   L{r['line']:<4} {r['kind']:10s} {r['text']}")
    return 0


if __name__ == "__main__":
    sys.exit(main())
