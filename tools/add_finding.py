#!/venv/bin/python
"""Append an entry to known_findings.json (developer tool; never called by a check).

usage: add_finding.py fixed|known PROPERTY RULE KEY COMMIT-or-'-' WHAT...
"""
import json, sys
from pathlib import Path
p = Path(__file__).resolve().parent.parent / "known_findings.json"
status, prop, rule, key, commit, *what = sys.argv[1:]
what = " ".join(what)
data = json.loads(p.read_text())
entry = {"status": status, "property": prop, "rule": rule, "key": key, "what": what}
if status == "fixed":
    entry["commit"] = commit
    entry["line"] = f"fixed: property={prop} {commit} {what}"
else:
    entry["line"] = f"known: property={prop} {what}"
data["findings"] = [e for e in data["findings"] if not (e["property"] == prop and e["rule"] == rule and e["key"] == key)] + [entry]
p.write_text(json.dumps(data, indent=1, ensure_ascii=False) + "\n")
print("recorded", entry["line"])
