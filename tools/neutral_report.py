#!/venv/bin/python
"""Run all 20 checks against behaviour-preserving refactorings (in memory, /repo untouched).

Every check must stay silent (exit 0, no new violation) on each of them; a violation is a FALSE
ALARM of the checker, an exit 2 a failure to decide a harmless variant.  Developer tool; never
called by a registered check.

usage: neutral_report.py [dir with */patch.diff ...]   (default: /verif/neutral)
"""
from __future__ import annotations

import sys
from concurrent.futures import ProcessPoolExecutor
from pathlib import Path

VERIF = Path(__file__).resolve().parent.parent
sys.path.insert(0, str(VERIF))
from sa.cli import run_property  # noqa: E402
from sa.loader import REPO, Tree, read_sources  # noqa: E402
from sa.selftest import apply_unified_diff  # noqa: E402

PIDS = [f"C{i:02d}" for i in range(1, 21)]


def react(path: str):
    sources = read_sources(REPO)
    patched = apply_unified_diff(sources, Path(path).read_text())
    if patched is None:
        return path, None
    base_tree = Tree(sources, root="<base>")
    try:
        tree = Tree(patched, root="<neutral>")
    except Exception as exc:  # noqa: BLE001
        return path, {"*": f"tree: {exc}"}
    out = {}
    for pid in PIDS:
        bcode, bctx = run_property(pid, "quick", 0, base_tree, quiet=True, write=False)
        base = {(i.rule, i.key) for i in bctx.instances if i.verdict in {"violation", "known"}}
        code, ctx = run_property(pid, "quick", 0, tree, quiet=True, write=False)
        new = sorted({f"{i.rule} {i.key[-70:]}" for i in ctx.instances if i.verdict == "violation" and (i.rule, i.key) not in base})
        if new:
            out[pid] = "FALSE ALARM: " + "; ".join(new)[:300]
        elif code == 2 and bcode != 2:
            out[pid] = "exit 2: " + (getattr(ctx, "analysis_error", None) or "; ".join(ctx.soft_errors))[:300]
    return path, out


def main() -> int:
    roots = [Path(a) for a in sys.argv[1:]] or [VERIF / "neutral"]
    patches = sorted(str(p) for r in roots for p in r.rglob("patch.diff"))
    with ProcessPoolExecutor(max_workers=12) as pool:
        results = list(pool.map(react, patches))
    bad = 0
    for path, res in results:
        if res is None:
            print(f"{path}: patch does not apply")
            bad += 1
        elif res:
            bad += 1
            for pid, what in sorted(res.items()):
                print(f"{path}: {pid} {what}")
        else:
            print(f"{path}: all 20 checks silent")
    print(f"{len(results)} refactorings, {bad} with a reaction")
    return 1 if bad else 0


if __name__ == "__main__":
    sys.exit(main())
