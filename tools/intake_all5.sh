#!/bin/sh
# round 5: /tmp/seed5/Cxx/_seed/I is stored as Cxx-I (one id given as $1, or all)
mkdir -p /tmp/intake_logs
for d in /tmp/seed5/${1:-C*}/_seed/[I] /tmp/seed6/${1:-C*}/_seed/[J]; do
  pid=$(echo $d | cut -d/ -f4); x=$(basename $d)
  name="$pid-$x"
  [ -f $d/notes.md ] && [ -f $d/patch.diff ] && [ -f $d/demo.py ] || continue
  [ -d /verif/seeded/$name ] && continue
  [ -f /tmp/intake_logs/$name.rejected ] && continue
  echo "=== intake $name"
  if /venv/bin/python /verif/tools/intake_seed.py $d $name $pid > /tmp/intake_logs/$name.log 2>&1; then tail -1 /tmp/intake_logs/$name.log; else tail -3 /tmp/intake_logs/$name.log; touch /tmp/intake_logs/$name.rejected; fi
done
