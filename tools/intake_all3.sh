#!/bin/sh
# round 2: /tmp/seed3/Cxx/_seed/{A,B} are stored as Cxx-C / Cxx-D
mkdir -p /tmp/intake_logs
for d in /tmp/seed3/C*/_seed/[AB]; do
  pid=$(echo $d | cut -d/ -f4); x=$(basename $d)
  case $x in A) y=E;; B) y=F;; esac
  name="$pid-$y"
  [ -f $d/notes.md ] && [ -f $d/patch.diff ] && [ -f $d/demo.py ] || continue
  [ -d /verif/seeded/$name ] && continue
  [ -f /tmp/intake_logs/$name.rejected ] && continue
  echo "=== intake $name"
  if /venv/bin/python /verif/tools/intake_seed.py $d $name $pid > /tmp/intake_logs/$name.log 2>&1; then tail -1 /tmp/intake_logs/$name.log; else tail -3 /tmp/intake_logs/$name.log; touch /tmp/intake_logs/$name.rejected; fi
done
