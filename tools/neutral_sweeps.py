#!/venv/bin/python
"""Whole-repository behaviour-preserving rewrites run through every check (developer tool).

  roundtrip  - ast.unparse(ast.parse(src)): formatting, comments and line numbers change
  rename     - alpha-renaming of every local variable (not parameters) of every function

Every check must exit as on the unmodified tree, with the same number of instances.
"""
from __future__ import annotations

import ast
import sys
from pathlib import Path

sys.path.insert(0, str(Path(__file__).resolve().parent.parent))
from sa.cli import run_property  # noqa: E402
from sa.loader import REPO, Tree, read_sources  # noqa: E402


from sa.selftest import rename_locals  # noqa: E402


def main() -> int:
    src = read_sources(REPO)
    from sa.selftest import neutral_variants

    variants = neutral_variants(src)  # roundtrip, rename, flip-if-else, return-through-temporary, swap-equality-operands
    which = sys.argv[1:] or list(variants)
    rc = 0
    base_tree = Tree(src, root="<base>")
    base = {}
    for i in range(1, 21):
        pid = f"C{i:02d}"
        code, ctx = run_property(pid, "quick", 0, base_tree, quiet=True, write=False)
        base[pid] = (code, len(ctx.obligations()))
    for name in which:
        tree = Tree(variants[name], root=f"<{name}>")
        for i in range(1, 21):
            pid = f"C{i:02d}"
            code, ctx = run_property(pid, "quick", 0, tree, quiet=True, write=False)
            n = len(ctx.obligations())
            flag = "" if (code, n) == base[pid] else "   <-- DIFFERS"
            if flag:
                rc = 1
            err = ""
            if code == 2:
                err = " " + str([i.what for i in ctx.instances][-1:])
            print(f"{name:10s} {pid} exit {code} instances {n} (base: exit {base[pid][0]}, {base[pid][1]}){flag}")
            for v in ctx.violations[:3]:
                print(f"      [{v.rule}] {v.what[:160]} :: {str(v.detail)[:160]}")
    return rc


if __name__ == "__main__":
    sys.exit(main())
