#!/bin/sh
# usage: peek_patch.sh <patch.diff> <Cxx> [more ids]   - apply to a scratch copy of /repo/src and run checks on it
p=$1; shift
d=$(mktemp -d /tmp/peek.XXXXXX)
mkdir -p $d && cp -r /repo/src $d/src && (cd $d && patch -s -p1 < "$p") || { echo "patch failed"; rm -rf $d; exit 2; }
for id in "$@"; do
  VERIF_REPO=$d /verif/check $id --no-write 2>&1 | grep -a -E "^\S+:[0-9]+: \[|ANALYSIS-ERROR|^C[0-9][0-9] \[" | cut -c1-260
done
rm -rf $d
