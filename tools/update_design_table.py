#!/venv/bin/python
"""Replace the seeded-changes table of DESIGN.md (section 9.7) by the output of tools/seed_report.py.

usage: seed_report.py > table.md ; update_design_table.py table.md
"""
import re
import sys
from pathlib import Path

design = Path(__file__).resolve().parent.parent / "DESIGN.md"
table = [l for l in Path(sys.argv[1]).read_text().splitlines() if l.startswith("|") or re.match(r"^\d+/\d+ caught", l)]
text = design.read_text().splitlines()
start = next(i for i, l in enumerate(text) if l.startswith("| change | property | what it does |"))
end = next(i for i, l in enumerate(text) if i > start and re.match(r"^\d+/\d+ caught", l))
text[start:end + 1] = table
design.write_text("\n".join(text) + "\n")
print(f"replaced {end - start + 1} lines by {len(table)}")
