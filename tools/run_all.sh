#!/bin/sh
# Run every implemented check (quick or the tier given as $1) and print one line each.
cd "$(dirname "$0")/.." || exit 2
tier=${1:-quick}
rc=0
for f in sa/props/c[0-9][0-9].py; do
  id=$(basename "$f" .py | tr c C)
  out=$(./check "$id" --tier "$tier" 2>&1); code=$?
  echo "$out" | tail -1 | sed "s/^/[exit $code] /"
  [ $code -ne 0 ] && rc=1 && echo "$out" | grep -E "VIOLATION|ANALYSIS-ERROR" | head -3
done
exit $rc
