#!/venv/bin/python
"""Developer tool: run one check on /repo's sources with a patch applied IN MEMORY (/repo is not touched) and print
every instance that is not ok; optionally print a function of the patched tree after the load-time normal form.

usage: tools/run_on_patch.py <patch.diff | neutral/<name> | seeded/<name>> <Cxx> [<qualified function to print>]
"""
import ast
import sys
from pathlib import Path

sys.path.insert(0, str(Path(__file__).resolve().parent.parent))
from sa import selftest  # noqa: E402
from sa.cli import run_property  # noqa: E402
from sa.loader import REPO, Tree, read_sources  # noqa: E402

target, pid = sys.argv[1], sys.argv[2]
path = Path(target)
if path.is_dir():
    path = path / "patch.diff"
sources = selftest.apply_unified_diff(read_sources(REPO), path.read_text())
if sources is None:
    sys.exit(f"{path} does not apply to the current tree")
tree = Tree(sources, root="<patched>")
if len(sys.argv) > 3:
    print(ast.unparse(tree.func(sys.argv[3]).node))
code, ctx = run_property(pid, "quick", 0, tree, quiet=True, write=False)
print("exit", code, getattr(ctx, "analysis_error", None) or "")
for i in ctx.instances:
    if i.verdict != "ok":
        print(i.verdict, i.rule, i.key, "|", i.what[:300])
