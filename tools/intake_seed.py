#!/venv/bin/python
"""Confirm a seeded change produced by a sub-agent and store it under /verif/seeded/.

usage: intake_seed.py <source dir with patch.diff demo.py notes.md> <name> <property id>

Confirms, in a fresh scratch worktree of /repo (outside /repo and /verif, removed afterwards):
  * demo.py exits 0 on the clean tree,
  * the patch applies, the package still imports, demo.py exits 1 with it,
  * the pinned baseline (every test in BASELINE.json stable_pass) still passes with it.
Only then is the change kept as /verif/seeded/<name>/ (patch.diff, demo.py, notes.md, meta.json).
"""

from __future__ import annotations

import json
import os
import shutil
import subprocess
import sys
import xml.etree.ElementTree as ET
from pathlib import Path

VERIF = Path(__file__).resolve().parent.parent
PY = "/venv/bin/python"


def sh(cmd, cwd=None, env=None, timeout=1800):
    return subprocess.run(cmd, cwd=cwd, env=env, capture_output=True, text=True, timeout=timeout)


def main() -> int:
    src, name, pid = Path(sys.argv[1]), sys.argv[2], sys.argv[3]
    jobs = os.environ.get("INTAKE_JOBS", "6")
    wt = Path(f"/tmp/intake/{name}")
    if wt.exists():
        sh(["git", "-C", "/repo", "worktree", "remove", "--force", str(wt)])
    wt.parent.mkdir(parents=True, exist_ok=True)
    r = sh(["git", "-C", "/repo", "worktree", "add", "--detach", str(wt), "HEAD"])
    if r.returncode:
        print("worktree failed", r.stderr)
        return 2
    env = {**os.environ, "PYTHONPATH": str(wt / "src"), "PYTHONDONTWRITEBYTECODE": "1"}
    ran = []
    ok = False
    try:
        demo = (src / "demo.py").read_text().replace(f"/tmp/seed6/{pid}", str(wt)).replace(f"/tmp/seed5/{pid}", str(wt)).replace(f"/tmp/seed4/{pid}", str(wt)).replace(f"/tmp/seed3/{pid}", str(wt)).replace(f"/tmp/seed2/{pid}", str(wt)).replace(f"/tmp/seed/{pid}", str(wt))
        (wt / "demo.py").write_text(demo)
        clean = sh([PY, "demo.py"], cwd=wt, env=env, timeout=600)
        ran.append(f"clean tree: demo exit {clean.returncode}")
        if clean.returncode != 0:
            print(f"{name}: demo does not pass on the clean tree (exit {clean.returncode})\n{clean.stdout[-500:]}{clean.stderr[-500:]}")
            return 1
        ap = sh(["git", "-C", str(wt), "apply", str(src / "patch.diff")])
        if ap.returncode:
            print(f"{name}: patch does not apply: {ap.stderr[:300]}")
            return 1
        imp = sh([PY, "-c", "import ampform, ampform.helicity, ampform.dynamics.kmatrix, ampform.kinematics, ampform.helicity.align.dpd, ampform.helicity.align.axisangle"], cwd=wt, env=env)
        if imp.returncode:
            print(f"{name}: package does not import with the patch: {imp.stderr[-300:]}")
            return 1
        broken = sh([PY, "demo.py"], cwd=wt, env=env, timeout=600)
        ran.append(f"patched tree: demo exit {broken.returncode}")
        if broken.returncode == 0:
            print(f"{name}: demo still passes WITH the patch - not a demonstration")
            return 1
        junit = wt / "_junit.xml"
        t = sh([PY, "-m", "pytest", "-q", "-p", "no:cacheprovider", "--timeout=900", "--continue-on-collection-errors", "-n", jobs, f"--junitxml={junit}"], cwd=wt, env=env, timeout=3000)
        base = json.load(open("/root/.vp/BASELINE.json"))
        stable = set(base["stable_pass"])
        passed = set()
        for tc in ET.parse(junit).iter("testcase"):
            nm = f"{tc.get('classname')}::{tc.get('name')}"
            if not any(c.tag in ("failure", "error", "skipped") for c in tc):
                passed.add(nm)
        missing = sorted(stable - passed)
        ran.append(f"baseline with patch: {len(stable) - len(missing)}/{len(stable)} stable tests pass")
        if missing:
            print(f"{name}: the patch breaks {len(missing)} baseline tests, e.g. {missing[:4]}")
            return 1
        ok = True
        dst = VERIF / "seeded" / name
        dst.mkdir(parents=True, exist_ok=True)
        shutil.copy(src / "patch.diff", dst / "patch.diff")
        (dst / "demo.py").write_text((src / "demo.py").read_text())
        if (src / "notes.md").exists():
            shutil.copy(src / "notes.md", dst / "notes.md")
        if (src / "patch_original.diff").exists():
            shutil.copy(src / "patch_original.diff", dst / "patch_original.diff")
        files = sorted({l[6:] for l in (src / "patch.diff").read_text().splitlines() if l.startswith("+++ b/")})
        meta = {
            "name": name,
            "property": pid,
            "files": files,
            "needs_to_manifest": "see notes.md",
            "confirmed": ran,
            "how_confirmed": "tools/intake_seed.py in a fresh scratch worktree of /repo HEAD (removed afterwards): demo.py exit 0 clean / exit 1 patched; full pinned baseline (302 stable tests) passes with the patch",
            "demo_usage": "PYTHONPATH=<tree>/src /venv/bin/python demo.py  (paths inside demo.py refer to the author's scratch worktree; replace with the tree under test)",
            "repo_head": sh(["git", "-C", "/repo", "rev-parse", "--short", "HEAD"]).stdout.strip(),
        }
        (dst / "meta.json").write_text(json.dumps(meta, indent=1) + "\n")
        print(f"{name}: confirmed and stored ({'; '.join(ran)})")
        return 0
    finally:
        sh(["git", "-C", "/repo", "worktree", "remove", "--force", str(wt)])
        if not ok:
            pass


if __name__ == "__main__":
    sys.exit(main())
