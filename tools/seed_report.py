#!/venv/bin/python
"""Run all 20 checks against every stored seeded change (in memory, /repo untouched), record
in seeded/<name>/meta.json how each check reacts (`expected`, `caught_by`) and print the
markdown table used in DESIGN.md.  Developer tool; never called by a registered check.

usage: seed_report.py [--write] [name ...]
"""
from __future__ import annotations

import json
import sys
from concurrent.futures import ProcessPoolExecutor
from pathlib import Path

VERIF = Path(__file__).resolve().parent.parent
sys.path.insert(0, str(VERIF))
from sa.cli import run_property  # noqa: E402
from sa.loader import REPO, Tree, read_sources  # noqa: E402
from sa.selftest import apply_unified_diff  # noqa: E402

PIDS = [f"C{i:02d}" for i in range(1, 21)]


def react(args):
    name, own = args
    d = VERIF / "seeded" / name
    sources = read_sources(REPO)
    patched = apply_unified_diff(sources, (d / "patch.diff").read_text())
    if patched is None:
        return name, None
    base_tree = Tree(sources, root="<base>")
    tree = Tree(patched, root=f"<seeded {name}>")
    out = {}
    for pid in PIDS:
        _, bctx = run_property(pid, "quick", 0, base_tree, quiet=True, write=False)
        base = {(i.rule, i.key) for i in bctx.instances if i.verdict in {"violation", "known"}}
        code, ctx = run_property(pid, "quick", 0, tree, quiet=True, write=False)
        new = sorted({i.rule for i in ctx.instances if i.verdict == "violation" and (i.rule, i.key) not in base})
        if new:
            out[pid] = {"got": "violation", "rules": new}
        elif code == 2:
            out[pid] = {"got": "analysis-error", "rules": [], "error": "; ".join(ctx.soft_errors)[:200]}
    return name, out


def _section(lines: list[str], words: tuple[str, ...]) -> str:
    """Text below the first heading that mentions one of ``words`` (from the author's notes)."""
    out: list[str] = []
    on = False
    for line in lines:
        if line.startswith("#") and not line.startswith("#  "):
            if on:
                break
            on = any(w in line.lower() for w in words)
            continue
        if on:
            out.append(line.strip())
    text = " ".join(x for x in out if x)
    return text[:900]


def main() -> int:
    write = "--write" in sys.argv
    names = [a for a in sys.argv[1:] if not a.startswith("--")] or sorted(p.name for p in (VERIF / "seeded").iterdir() if (p / "patch.diff").exists())
    jobs = [(n, json.loads((VERIF / "seeded" / n / "meta.json").read_text()).get("property", n[:3])) for n in names]
    with ProcessPoolExecutor(max_workers=16) as pool:
        results = dict(pool.map(react, jobs))
    rows = []
    for name, own in jobs:
        d = VERIF / "seeded" / name
        meta = json.loads((d / "meta.json").read_text())
        res = results[name]
        notes = (d / "notes.md").read_text().strip().splitlines()
        title = notes[0].lstrip("# ").strip() if notes else ""
        if res is None:
            rows.append((name, own, title, "patch does not apply", ""))
            continue
        own_got = res.get(own, {"got": "missed", "rules": []})
        others = {p: r for p, r in res.items() if p != own and r["got"] == "violation"}
        meta["title"] = title
        needs = _section(notes, ("manifest", "needed", "trigger"))
        if needs:
            meta["needs_to_manifest"] = needs
        meta["expected"] = {own: own_got["got"], **{p: "violation" for p in others}}
        meta["caught_by"] = {p: r["rules"] for p, r in res.items() if r["got"] == "violation"}
        meta["also_caught_by"] = {p: r["rules"] for p, r in others.items()}
        if write:
            (d / "meta.json").write_text(json.dumps(meta, indent=1) + "\n")
        verdict = {"violation": "caught: " + ", ".join(own_got["rules"]), "analysis-error": "ANALYSIS-ERROR (exit 2): " + own_got.get("error", "")[:90], "missed": "**missed**"}[own_got["got"]]
        rows.append((name, own, title, verdict, "; ".join(f"{p} {', '.join(r['rules'])}" for p, r in sorted(others.items()))))
    print("| change | property | what it does | check of its property | other checks that fire |")
    print("|---|---|---|---|---|")
    for r in rows:
        print("| " + " | ".join(x.replace("|", "/") for x in r) + " |")
    caught = sum(1 for r in rows if r[3].startswith("caught"))
    print(f"\n{caught}/{len(rows)} caught by the check of their own property")
    return 0


if __name__ == "__main__":
    sys.exit(main())
