#!/venv/bin/python
"""Regenerate MANIFEST.json from sa/props/meta.py (which properties have a checker)."""

from __future__ import annotations

import json
import sys
from pathlib import Path

VERIF = Path(__file__).resolve().parent.parent
sys.path.insert(0, str(VERIF))

from sa.props.meta import META, NOT_APPLICABLE  # noqa: E402

BASELINE_CMD = (
    "cd /repo && /venv/bin/python -m pytest -ra -q -p no:cacheprovider --timeout=900"
    " --continue-on-collection-errors"
)


def main() -> None:
    checks = []
    not_applicable = []
    for pid in [f"C{i:02d}" for i in range(1, 21)]:
        meta = META.get(pid)
        implemented = (VERIF / "sa" / "props" / f"{pid.lower()}.py").exists()
        if meta is None or not implemented:
            reason = NOT_APPLICABLE.get(pid, "checker not implemented yet (work in progress); nothing is claimed")
            not_applicable.append({"property_id": pid, "reason": reason})
            continue
        checks.append({
            "property_id": pid,
            "quick_cmd": f"./check {pid} --tier quick",
            "thorough_cmd": f"./check {pid} --tier thorough",
            "evidence_file": f"/verif/evidence/{pid}.json",
            "replay_cmd_template": f"./check {pid} --replay {{path}}",
            "engine": "sa",
            "level_claimed": {
                "category": "other",
                "text": meta["level"],
                "design_ref": f"DESIGN.md section 3, {pid}",
            },
            "level_note": meta["note"],
            "technique": meta["technique"],
        })
    manifest = {
        "version": 1,
        "setup_cmd": "/venv/bin/python -m compileall -q sa >/dev/null 2>&1 || true",
        "hooks": {
            "guard": "AMPFORM_VERIF",
            "enable": "none needed: the checks parse /repo/src with ast and never import or run it; no instrumentation exists in /repo",
            "baseline_off_cmd": BASELINE_CMD,
            "source_commits": [],
            "add_only": True,
        },
        "engines": [
            {
                "name": "sa",
                "path": "/verif/sa",
                "serves_properties": [c["property_id"] for c in checks],
                "kind_free_text": "repository-specific static analysis over the Python AST of /repo/src/ampform: "
                "index + resolver/call graph, reaching-definition provenance, term extraction with polynomial/rational "
                "normal forms, structured path walker, model of the @unevaluated expression classes; load-time normal form of the AST; abstract interpretation of selected functions into structural / matrix terms and over model objects (kinds, never SymPy values; finite domains enumerated exhaustively; nothing of /repo is imported or executed); every rule is three-valued (holds / violated with positive evidence / cannot decide = exit 2)",
            }
        ],
        "checks": checks,
        "not_applicable": not_applicable,
        "notes": "All checks are static (ast of /repo's working tree, re-parsed on every run, nothing executed). "
        "Exit 0 = structural clauses hold (KNOWN-FINDING lines allowed), 1 = VIOLATION, 2 = ANALYSIS-ERROR. "
        "Known findings: /verif/known_findings.json. See DESIGN.md.",
    }
    (VERIF / "MANIFEST.json").write_text(json.dumps(manifest, indent=1) + "\n")
    print(f"MANIFEST.json: {len(checks)} checks, {len(not_applicable)} not_applicable")


if __name__ == "__main__":
    main()
