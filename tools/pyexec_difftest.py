#!/venv/bin/python
"""Differential test of the model interpreter (sa/pyexec.py): small pure-Python functions are run by CPython and by
``PyExec`` and must give the same result / raise the same exception class.  Developer tool (the functions below are
test inputs of THIS framework, nothing of /repo is executed); never called by a registered check.

usage: tools/pyexec_difftest.py [function-name]
"""
import sys
import types

SOURCE = r'''
from __future__ import annotations
import functools
import itertools
import operator
import re
from collections import OrderedDict
from typing import NamedTuple


class Pair(NamedTuple):
    left: int
    right: str = "r"


class Box:
    count = 0

    def __init__(self, items):
        self.items = list(items)

    @property
    def size(self):
        return len(self.items)

    @staticmethod
    def make(n):
        return Box(range(n))

    @classmethod
    def empty(cls):
        return cls([])

    def __iter__(self):
        return iter(self.items)

    def __len__(self):
        return len(self.items)

    def __contains__(self, x):
        return x in self.items

    def gen(self):
        for i in self.items:
            if i % 2:
                continue
            yield i * 10
        yield -1


def t_keys_views(d, e):
    return sorted(d.keys() - e.keys()), sorted(d.keys() & e.keys()), sorted(d.items() - e.items()), len(d.values())


def t_try_else_finally(x):
    log = []
    try:
        log.append("try")
        v = {"a": 1}[x]
    except KeyError as exc:
        log.append(type(exc).__name__)
        v = -1
    else:
        log.append("else")
    finally:
        log.append("finally")
    return v, log


def t_nested_exceptions(x):
    try:
        try:
            return int(x)
        except ValueError:
            raise KeyError(x) from None
        finally:
            x = "changed"
    except LookupError:
        return "lookup"


def t_reraise(x):
    try:
        try:
            [][x]
        except IndexError:
            raise
    except Exception as e:
        return type(e).__name__
    return "none"


def t_generators(n):
    b = Box.make(n)
    g = b.gen()
    first = next(g)
    rest = list(g)
    return first, rest, sum(x for x in b if x > 1), [*b.gen()]


def t_gen_send_free(n):
    def countdown(k):
        while k > 0:
            yield k
            k -= 1
        return "done"

    def outer():
        r = yield from countdown(n)
        yield r

    return list(outer())


def t_closures(n):
    acc = []

    def add(x, *, scale=2):
        acc.append(x * scale)
        return len(acc)

    f = functools.partial(add, scale=3)
    return [add(1), f(2), list(map(add, range(n)))], acc


def t_namedtuple(a):
    p = Pair(a)
    l, r = p
    q = p._replace(right="z")
    return p.left, p[1], l, r, q, q == ("x", "z"), len(p), tuple(p)


def t_class_things(n):
    b = Box.make(n)
    e = Box.empty()
    return b.size, len(e), 2 in b, 7 in b, bool(e.items), [i for i in b], isinstance(b, Box), type(b).__name__ if hasattr(type(b), "__name__") else None


def t_itertools(a, b):
    return (list(itertools.product(a, b)), list(itertools.chain(a, b)), list(itertools.chain.from_iterable([a, b])), list(itertools.zip_longest(a, b, fillvalue=0)),
            list(itertools.starmap(operator.add, zip(a, a))), list(itertools.accumulate(a)), functools.reduce(operator.mul, a, 1), list(itertools.islice(a, 1, None)),
            list(itertools.combinations(a, 2)), list(itertools.permutations(b, 2))[:3])


def t_operator(d):
    get = operator.itemgetter("x", "y")
    return get(d), operator.itemgetter("x")(d), sorted(d.items(), key=operator.itemgetter(1)), operator.contains(d, "x"), operator.not_(d)


def t_strings(s, n):
    return (s.upper(), s.split("_"), "-".join(map(str, range(n))), f"{s!r}:{n:03d}:{n + 0.5:.2f}", "%s=%d" % (s, n), s.startswith(("a", "m")), s[::-1], s.replace("_", ""),
            re.sub(r"\d+", "#", s + "12"), "{}-{name}".format(n, name=s), s.partition("_"), len(s), s * 2, s + "x", "m" in s, sorted(s))


def t_walrus_and_comprehensions(xs):
    out = [y for x in xs if (y := x * 2) > 2]
    d = {k: v for k, v in zip("abc", xs)}
    s = {x % 2 for x in xs}
    nested = [[i * j for j in range(2)] for i in xs[:2]]
    return out, d, sorted(s), nested, y


def t_unpacking(xs):
    a, *b = xs
    *c, d = xs
    (e, f), g = (1, 2), 3
    first, second, *_ = [*xs, 0, 0]
    merged = {**{"a": 1}, "b": 2, **{"a": 3}}
    return a, b, c, d, e, f, g, first, second, merged, [*xs, *xs][1:3]


def t_while_break_else(n):
    i = 0
    found = None
    while i < n:
        if i * i > 10:
            found = i
            break
        i += 1
    else:
        found = "none"
    for k in range(3):
        if k == 5:
            break
    else:
        found = (found, "forelse")
    return found


def t_dict_methods():
    d = OrderedDict()
    d["b"] = 1
    d.setdefault("a", []).append(2)
    d.update(c=3)
    e = dict.fromkeys("xy", 0)
    popped = d.pop("zz", None)
    d2 = d.copy()
    d2["b"] += 10
    del d2["c"]
    return list(d.items()), e, popped, d2, d.get("q", "dflt"), list(reversed(list(d))), "a" in d, len(d)


def t_sets(a, b):
    s = set(a)
    s |= set(b)
    t = s - {1}
    t.discard(99)
    u = frozenset(a) & frozenset(b)
    return sorted(s), sorted(t), sorted(u), s.issuperset(t), sorted(set(a).symmetric_difference(b)), sorted(s.union(b, [100]))


def t_sorting(xs):
    ys = list(xs)
    ys.sort(key=lambda x: -x)
    return sorted(xs, reverse=True), ys, min(xs), max(xs, key=lambda x: x % 3), sorted(["b10", "a2"], key=len), sum(xs, 10), any(x > 2 for x in xs), all(xs)


def t_conditional_chain(x):
    r = "neg" if x < 0 else "zero" if x == 0 else "pos"
    return r, 0 < x <= 5, not x, x and "t", x or "f", (x is None), x in (1, 2, 3)


def t_recursion(n):
    def fact(k):
        return 1 if k <= 1 else k * fact(k - 1)

    return fact(n)


@functools.lru_cache(maxsize=None)
def _cached_list(n):
    return [n]


def t_memo(n):
    a = _cached_list(n)
    a.append(1)
    return _cached_list(n), _cached_list(n) is a


@functools.singledispatch
def _describe(x):
    return "other"


@_describe.register(int)
def _(x):
    return "int"


@_describe.register(str)
def _(x):
    return "str"


def t_singledispatch():
    return _describe(1), _describe("a"), _describe(1.5), _describe([])


def t_with_suppress(x):
    import contextlib

    out = []
    with contextlib.suppress(KeyError, ZeroDivisionError):
        out.append(1 / x)
        out.append({}["k"])
        out.append("unreached")
    return out


def t_augassign_alias():
    a = [1]
    b = a
    b += [2]
    s = {1}
    t = s
    t |= {2}
    d = {"k": 1}
    e = d
    e |= {"j": 2}
    n = 1
    m = n
    m += 1
    return a, s == {1, 2}, d, n, m


def t_slices(xs):
    return xs[1:], xs[:-1], xs[::2], xs[-1], xs[1:3], tuple(xs)[0:2], "abcdef"[2:4]


def t_lambda_defaults():
    fs = [lambda x, i=i: x + i for i in range(3)]
    return [f(10) for f in fs]


def t_isinstance_chain(v):
    if isinstance(v, bool):
        return "bool"
    if isinstance(v, (int, float)):
        return "number"
    if isinstance(v, str):
        return "str"
    if isinstance(v, (list, tuple)):
        return "seq"
    if isinstance(v, dict):
        return "map"
    return "other"


def t_enumerate_zip(xs):
    return list(enumerate(xs, 1)), list(zip(xs, xs[1:])), dict(enumerate(xs)), list(zip(*[(1, 2), (3, 4)])), list(map(lambda a, b: a + b, xs, xs))


def t_global_const():
    return _TABLE["k"], _PATTERN.split("a1b22c"), _PATTERN.pattern


_TABLE = {"k": (1, 2)}
_PATTERN = re.compile(r"\d+")

import contextlib
import dataclasses
from functools import cached_property


class Base:
    kind = "base"

    def __init__(self, n):
        self.n = n
        self.log = []

    def describe(self):
        return f"{self.label()}:{self.n}"

    def label(self):
        return "B"

    @cached_property
    def expensive(self):
        self.log.append("computed")
        return [self.n]


class Child(Base):
    def __init__(self, n, extra=0):
        super().__init__(n + extra)
        self.extra = extra

    def label(self):
        return "C" + super().label()


@dataclasses.dataclass
class Record:
    name: str
    values: list = dataclasses.field(default_factory=list)
    weight: float = 1.0

    def total(self):
        return sum(self.values) * self.weight


def t_inheritance(n):
    c = Child(n, extra=2)
    first = c.expensive
    first.append(99)
    return c.describe(), Base(n).describe(), c.expensive, c.log, isinstance(c, Base), c.extra


def t_dataclass(n):
    r = Record("a")
    r.values.append(n)
    q = Record("b", [1, 2], weight=2.0)
    return r.total(), q.total(), r.values is not Record("c").values, q.name


@contextlib.contextmanager
def _managed(log, fail=False):
    log.append("enter")
    try:
        yield len(log)
    except KeyError:
        log.append("handled")
    finally:
        log.append("exit")


def t_contextmanager(x):
    log = []
    with _managed(log) as depth:
        log.append(("body", depth))
    with _managed(log):
        {}[x]
    try:
        with _managed(log):
            raise ValueError(x)
    except ValueError:
        log.append("escaped")
    return log


def t_exitstack():
    log = []
    with contextlib.ExitStack() as stack:
        a = stack.enter_context(_managed(log))
        stack.callback(log.append, "callback")
        log.append(a)
    return log


def t_gen_finally(n):
    log = []

    def gen():
        try:
            for i in range(n):
                yield i
        finally:
            log.append("closed")

    return list(gen()), log, [x for x in gen() if x]


def t_kwargs(*args, **kwargs):
    def inner(a, b=2, *rest, c, d=4, **more):
        return a, b, rest, c, d, sorted(more.items())

    shared = {"c": 3}
    return inner(1, c=0), inner(1, 2, 3, 4, **shared, z=9), inner(*args, **{**shared, **kwargs}), inner(b=5, a=6, **shared)


def t_sentinel(d):
    missing = object()
    out = []
    for k in ("a", "zz"):
        v = d.get(k, missing)
        out.append("absent" if v is missing else v)
    return out


def t_numeric(x):
    return x // 2, x % 3, x ** 2, -x, abs(-x), divmod(x, 4), round(x / 3, 2), int("12") + float("1.5"), max(1, x, 3), 7 / 2, 1 < x < 100, x == 5.0, bool(x), x | 1, x & 3, x ^ 1, x << 1, x >> 1


def t_str_building(parts):
    a = "".join(parts)
    b = "_".join(p.upper() for p in parts)
    c = "%s-%s" % tuple(parts[:2])
    d = "{0}{1}".format(*parts)
    e = parts[0] + "+" + parts[1]
    f = f"{parts[0]:>4}|{parts[1]!s}|{len(parts)}"
    return a, b, c, d, e, f, a.removeprefix(parts[0]), a.encode().decode(), a.isdigit(), a.find("z"), a.count(parts[0])


def t_assert_and_raise(x):
    try:
        assert x > 0, "neg"
    except AssertionError:
        return "assert"
    try:
        if x > 5:
            raise ValueError
        elif x > 3:
            raise KeyError("k")
    except (ValueError, KeyError) as exc:
        return type(exc).__name__
    return "fine"


def t_nested_functions_and_map_filter(xs):
    def make(k):
        def mul(v):
            return v * k
        return mul

    return list(map(make(3), filter(None, xs))), list(filter(lambda v: v % 2, xs)), [f(2) for f in map(make, xs)]


def t_del_and_in(d):
    d = dict(d)
    del d["a"]
    xs = [1, 2, 3]
    del xs[0]
    return d, xs, "a" not in d, 2 in xs, None is None


def t_zip_dict_roundtrip(keys, values):
    d = dict(zip(keys, values))
    inv = {v: k for k, v in d.items()}
    ks, vs = zip(*d.items())
    return d, inv, ks, vs, list(d), list(d.values()), sorted(inv)


def t_itertools_predicates(a):
    odd = lambda x: x % 2 == 1
    return (list(itertools.filterfalse(odd, a)), list(itertools.filterfalse(None, a)), list(itertools.takewhile(odd, a)), list(itertools.dropwhile(odd, a)),
            list(itertools.takewhile(odd, [])), list(itertools.dropwhile(odd, [1, 3])))

'''

from pathlib import Path

sys.path.insert(0, str(Path(__file__).resolve().parent.parent))
from sa.loader import REPO, Tree, read_sources
from sa.pyexec import PyExec, ModelError, ModelRaise, Instance, MObj
src = SOURCE
sources = read_sources(REPO)
sources["src/ampform/zz_difftest.py"] = src
tree = Tree(sources, root="<difftest>")
mod = types.ModuleType("zz_difftest"); sys.modules["zz_difftest"] = mod
exec(compile(src, "zz_difftest", "exec"), mod.__dict__)
CASES = {
 "t_keys_views": [({"a":1,"b":2},{"b":2,"c":3})], "t_try_else_finally": [("a",),("z",)], "t_nested_exceptions": [("5",),("x",)], "t_reraise": [(3,)],
 "t_generators": [(5,)], "t_gen_send_free": [(3,)], "t_closures": [(3,)], "t_namedtuple": [("x",)], "t_class_things": [(4,)], "t_itertools": [([1,2,3],[4,5])],
 "t_operator": [({"x":2,"y":1},)], "t_strings": [("m_12", 7)], "t_walrus_and_comprehensions": [([1,2,3],)], "t_unpacking": [([1,2,3,4],)], "t_while_break_else": [(3,),(9,)],
 "t_dict_methods": [()], "t_sets": [([1,2,3],[3,4])], "t_sorting": [([3,1,2],)], "t_conditional_chain": [(0,),(3,),(-2,)], "t_recursion": [(5,)], "t_memo": [(2,)],
 "t_singledispatch": [()], "t_with_suppress": [(0,),(2,)], "t_augassign_alias": [()], "t_slices": [([1,2,3,4,5],)], "t_lambda_defaults": [()],
 "t_isinstance_chain": [(True,),(1.5,),("s",),([1],),({},),(None,)], "t_enumerate_zip": [([1,2,3],)], "t_global_const": [()],
}

CASES.update({
 "t_inheritance": [(1,)], "t_dataclass": [(4,)], "t_contextmanager": [("k",)], "t_exitstack": [()], "t_gen_finally": [(3,)], "t_kwargs": [((7, 8), {"c": 1}), ((1,), {})],
 "t_sentinel": [({"a": 1},)], "t_numeric": [(5,), (12,)], "t_str_building": [(["ab", "cd", "ef"],)], "t_assert_and_raise": [(-1,), (9,), (4,), (1,)],
 "t_nested_functions_and_map_filter": [([0, 1, 2, 3],)], "t_itertools_predicates": [([1, 3, 0, 2, 5],), ([2, 1],)], "t_del_and_in": [({"a": 1, "b": 2},)], "t_zip_dict_roundtrip": [(["x", "y"], [1, 2])],
})


def norm(v):
    if isinstance(v, Instance) and v.cls is not None and "__iter__" in v.attrs: return ("nt", tuple(norm(x) for x in v.attrs["__iter__"]([], {})))
    if isinstance(v, tuple) and hasattr(v, "_fields"): return ("nt", tuple(norm(x) for x in v))
    if isinstance(v, (list, tuple)): return (type(v).__name__ if type(v) in (list, tuple) else "list", tuple(norm(x) for x in v))
    if isinstance(v, dict): return ("dict", tuple((norm(k), norm(x)) for k, x in v.items()))
    if isinstance(v, (set, frozenset)): return ("set", tuple(sorted(map(repr, v))))
    return v
bad = 0
for name, argsets in CASES.items():
    fn = tree.func(f"ampform.zz_difftest::{name}")
    for args in argsets:
        import copy
        try: want = ("ok", norm(getattr(mod, name)(*copy.deepcopy(args))))
        except Exception as e: want = ("raise", type(e).__name__)
        try: got = ("ok", norm(PyExec(tree).run(fn, list(copy.deepcopy(args)))))
        except ModelRaise as e: got = ("raise", e.kind)
        except ModelError as e: got = ("model-error", str(e)[:150])
        if got != want:
            bad += 1
            print(f"MISMATCH {name}{args}:\n   want {want}\n   got  {got}")
print("cases:", sum(len(v) for v in CASES.values()), "mismatches:", bad)
if len(sys.argv) > 1:
    import traceback
    fn = tree.func(f"ampform.zz_difftest::{sys.argv[1]}")
    try:
        print(PyExec(tree).run(fn, list(CASES[sys.argv[1]][0])))
    except Exception:
        traceback.print_exc()
