#!/venv/bin/python
"""Run the registered checks against every seeded change under /verif/seeded/<name>/.

For each seeded change: `git -C /repo apply patch.diff`, run the quick check of the
property it breaks (and optionally all checks), `git -C /repo checkout -- .` straight
afterwards (also on errors).  Prints which checks raised a VIOLATION that the clean tree
does not have.  Developer tool; not registered in MANIFEST.json.

usage: run_seeded.py [--all-checks] [name ...]
"""

from __future__ import annotations

import json
import subprocess
import sys
from pathlib import Path

VERIF = Path(__file__).resolve().parent.parent
SEEDED = VERIF / "seeded"
REPO = "/repo"


def run_check(pid: str) -> tuple[int, list[str]]:
    p = subprocess.run([str(VERIF / "check"), pid, "--tier", "quick", "--no-write"], capture_output=True, text=True, cwd=VERIF)
    lines = [l for l in p.stdout.splitlines() if l.startswith(("VIOLATION", "ANALYSIS-ERROR")) or "]: [" in l or ": [R-" in l or ": [M-" in l]
    heads = [l for l in p.stdout.splitlines() if ": [" in l and not l.startswith(("ADVISORY", "KNOWN"))]
    return p.returncode, heads + [l for l in p.stdout.splitlines() if l.startswith("ANALYSIS-ERROR")]


def main() -> int:
    args = [a for a in sys.argv[1:] if not a.startswith("--")]
    all_checks = "--all-checks" in sys.argv
    names = args or sorted(p.name for p in SEEDED.iterdir() if (p / "patch.diff").exists())
    status = subprocess.run(["git", "-C", REPO, "status", "--porcelain", "--untracked-files=no"], capture_output=True, text=True).stdout.strip()
    if status:
        print("refusing to run: /repo has uncommitted changes\n" + status)
        return 2
    summary = []
    for name in names:
        d = SEEDED / name
        meta = json.loads((d / "meta.json").read_text()) if (d / "meta.json").exists() else {}
        pid = meta.get("property", name[:3])
        pids = [f"C{i:02d}" for i in range(1, 21)] if all_checks else [pid]
        try:
            ap = subprocess.run(["git", "-C", REPO, "apply", str(d / "patch.diff")], capture_output=True, text=True)
            if ap.returncode != 0:
                print(f"{name}: patch does not apply: {ap.stderr.strip()[:200]}")
                summary.append((name, pid, "PATCH-FAILED", []))
                continue
            detected = []
            for p in pids:
                code, heads = run_check(p)
                if code != 0:
                    detected.append((p, code, heads[:3]))
        finally:
            subprocess.run(["git", "-C", REPO, "checkout", "--", "."], check=True)
        own = [x for x in detected if x[0] == pid]
        verdict = "CAUGHT" if any(c == 1 for _, c, _ in own) else "ANALYSIS-ERROR" if own else "MISSED"
        summary.append((name, pid, verdict, detected))
        print(f"{name:28s} property={pid} -> {verdict}")
        for p, code, heads in detected:
            for h in heads[:2]:
                print(f"      [{p} exit {code}] {h[:220]}")
    missed = [s for s in summary if s[2] != "CAUGHT"]
    print(f"\n{len(summary) - len(missed)}/{len(summary)} seeded changes caught by the check of their property")
    return 0 if not missed else 1


if __name__ == "__main__":
    sys.exit(main())
