#!/bin/sh
# round 4: /tmp/seed4/Cxx/_seed/{G,H} are stored as Cxx-G / Cxx-H
mkdir -p /tmp/intake_logs
for d in /tmp/seed4/C*/_seed/[GH]; do
  pid=$(echo $d | cut -d/ -f4); x=$(basename $d)
  name="$pid-$x"
  [ -f $d/notes.md ] && [ -f $d/patch.diff ] && [ -f $d/demo.py ] || continue
  [ -d /verif/seeded/$name ] && continue
  [ -f /tmp/intake_logs/$name.rejected ] && continue
  echo "=== intake $name"
  if /venv/bin/python /verif/tools/intake_seed.py $d $name $pid > /tmp/intake_logs/$name.log 2>&1; then tail -1 /tmp/intake_logs/$name.log; else tail -3 /tmp/intake_logs/$name.log; touch /tmp/intake_logs/$name.rejected; fi
done
