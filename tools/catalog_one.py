#!/venv/bin/python
"""Developer tool: run selected entries of the self-test catalogue of one property (in memory, /repo untouched).

usage: tools/catalog_one.py <Cxx> [<substring of an entry name> ...]
"""
import sys
from pathlib import Path

sys.path.insert(0, str(Path(__file__).resolve().parent.parent))
from sa import selftest  # noqa: E402
from sa.catalog import CATALOG  # noqa: E402

pid, names = sys.argv[1], sys.argv[2:]
entries = [m for m in CATALOG[pid] if not names or any(n in m.name for n in names)]
for r in selftest.run_catalog(pid, entries, jobs=8):
    print({k: r.get(k) for k in ("name", "expect", "code", "status", "verdict")}, [v[:2] for v in r.get("new_violations", [])][:3])
