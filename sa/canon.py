"""Canonical text of AST fragments, insensitive to the names of local variables.

``canon(node, fn)`` unparses ``node`` after renaming every name that is local to the
function ``fn`` (assigned, loop / comprehension / with / except targets - not parameters,
not globals, not imported names) to ``_0, _1, ...`` in order of first occurrence.  Two
fragments that differ only by alpha-renaming of locals get the same text.
"""

from __future__ import annotations

import ast
import copy

from .loader import walk_function


def local_names(fn: ast.AST) -> set[str]:
    """Names bound inside ``fn`` (any nesting depth) other than parameters."""
    params: set[str] = set()
    declared: set[str] = set()
    stores: set[str] = set()
    for n in ast.walk(fn):
        if isinstance(n, (ast.FunctionDef, ast.AsyncFunctionDef, ast.Lambda)):
            a = n.args
            params |= {x.arg for x in [*a.posonlyargs, *a.args, *a.kwonlyargs]}
            if a.vararg:
                params.add(a.vararg.arg)
            if a.kwarg:
                params.add(a.kwarg.arg)
            if not isinstance(n, ast.Lambda) and n is not fn:
                declared.add(n.name)
        elif isinstance(n, (ast.Global, ast.Nonlocal)):
            declared |= set(n.names)
        elif isinstance(n, (ast.Import, ast.ImportFrom)):
            declared |= {(al.asname or al.name).split(".")[0] for al in n.names}
        elif isinstance(n, ast.ClassDef):
            declared.add(n.name)
        elif isinstance(n, ast.Name) and isinstance(n.ctx, ast.Store):
            stores.add(n.id)
        elif isinstance(n, ast.ExceptHandler) and n.name:
            stores.add(n.name)
    return stores - params - declared


def top_function(node: ast.AST) -> ast.AST | None:
    """Outermost function definition enclosing ``node``."""
    from .loader import ancestors

    top = node if isinstance(node, (ast.FunctionDef, ast.AsyncFunctionDef)) else None
    for a in ancestors(node):
        if isinstance(a, (ast.FunctionDef, ast.AsyncFunctionDef)):
            top = a
    return top


def clone(node):
    """Deep copy of an AST fragment that does not follow the loader's parent/module links."""
    if isinstance(node, ast.AST):
        new = type(node)()
        for fld, value in ast.iter_fields(node):
            setattr(new, fld, clone(value))
        for attr in ("lineno", "col_offset", "end_lineno", "end_col_offset"):
            if hasattr(node, attr):
                setattr(new, attr, getattr(node, attr))
        return new
    if isinstance(node, list):
        return [clone(x) for x in node]
    return node


class _Canon(ast.NodeTransformer):
    def __init__(self, names: set[str], mapping: dict[str, str] | None = None):
        self.names = names
        self.mapping: dict[str, str] = mapping if mapping is not None else {}

    def _new(self, name: str) -> str:
        if name not in self.mapping:
            self.mapping[name] = f"_{len(self.mapping)}"
        return self.mapping[name]

    def visit_Name(self, node: ast.Name):
        if node.id in self.names:
            return ast.copy_location(ast.Name(id=self._new(node.id), ctx=node.ctx), node)
        return node


def canon(node: ast.AST, fn: ast.AST | set[str] | None = None, mapping: dict[str, str] | None = None) -> str:
    """Unparse with locals renamed canonically.  ``fn`` is the enclosing function node (its
    locals are computed), an explicit set of local names, or None (locals of the outermost
    enclosing function of ``node``)."""
    if isinstance(fn, set):
        names = fn
    else:
        top = fn if fn is not None else top_function(node)
        names = local_names(top) if top is not None else set()
    tree = _Canon(names, mapping).visit(clone(node))
    try:
        return ast.unparse(tree)
    except Exception:  # noqa: BLE001
        return f"<{type(node).__name__}>"


def nospace(text: str) -> str:
    return text.replace(" ", "").replace("\n", "")


def normal_test(test: ast.AST, outcome: bool) -> tuple[ast.AST, bool]:
    """A branch condition and its outcome in positive normal form: leading ``not`` is stripped and
    ``!=`` / ``not in`` / ``is not`` become ``==`` / ``in`` / ``is`` with the outcome flipped, so that
    ``if not c: B else: A`` and ``if c: A else: B`` give the same (test, outcome) pairs on every path."""
    while isinstance(test, ast.UnaryOp) and isinstance(test.op, ast.Not):
        test, outcome = test.operand, not outcome
    if isinstance(test, ast.Compare) and len(test.ops) == 1:
        flip = {ast.NotEq: ast.Eq, ast.NotIn: ast.In, ast.IsNot: ast.Is}
        for neg, pos in flip.items():
            if isinstance(test.ops[0], neg):
                test = ast.Compare(left=test.left, ops=[pos()], comparators=test.comparators)
                outcome = not outcome
                break
    return test, outcome


def emptiness_fact(test: ast.AST, outcome: bool, is_subject) -> str | None:
    """What a branch condition with this outcome says about the size of a container: "empty",
    "nonempty" or None (nothing).  ``is_subject(expr)`` recognises the container.  Understands the
    truth value (``if xs`` / ``if not xs`` / ``if len(xs)``), ``len(xs) == 0`` / ``!= 0`` / ``< 1`` / ``<= 0`` /
    ``> 0`` / ``>= 1`` (also with the literal on the left) and comparison with an empty display
    (``xs == []``, ``{}``, ``()``, ``set()``, ``dict()``, ``list()``, ``tuple()``)."""
    test, outcome = normal_test(test, outcome)

    def is_len(e):
        return isinstance(e, ast.Call) and isinstance(e.func, ast.Name) and e.func.id == "len" and len(e.args) == 1 and not e.keywords and is_subject(e.args[0])

    def is_empty_display(e):
        if isinstance(e, (ast.List, ast.Tuple, ast.Set)) and not e.elts:
            return True
        if isinstance(e, ast.Dict) and not e.keys:
            return True
        return isinstance(e, ast.Call) and isinstance(e.func, ast.Name) and e.func.id in {"set", "dict", "list", "tuple", "frozenset"} and not e.args and not e.keywords

    says = lambda empty_when_true: ("empty" if outcome else "nonempty") if empty_when_true else ("nonempty" if outcome else "empty")  # noqa: E731
    if is_subject(test) or is_len(test):
        return says(False)
    if isinstance(test, ast.Compare) and len(test.ops) == 1:
        a, op, b = test.left, test.ops[0], test.comparators[0]
        if isinstance(op, ast.Eq) and ((is_subject(a) and is_empty_display(b)) or (is_subject(b) and is_empty_display(a))):
            return says(True)
        mirror = {ast.Lt: ast.Gt, ast.Gt: ast.Lt, ast.LtE: ast.GtE, ast.GtE: ast.LtE, ast.Eq: ast.Eq}
        if is_len(b) and isinstance(a, ast.Constant) and type(op) in mirror:
            a, op, b = b, mirror[type(op)](), a
        if is_len(a) and isinstance(b, ast.Constant) and isinstance(b.value, int) and not isinstance(b.value, bool):
            k = b.value
            if (isinstance(op, ast.Eq) and k == 0) or (isinstance(op, ast.Lt) and k == 1) or (isinstance(op, ast.LtE) and k == 0):
                return says(True)
            if (isinstance(op, ast.Gt) and k == 0) or (isinstance(op, ast.GtE) and k == 1):
                return says(False)
    return None
