"""Canonical text of AST fragments, insensitive to the names of local variables.

``canon(node, fn)`` unparses ``node`` after renaming every name that is local to the
function ``fn`` (assigned, loop / comprehension / with / except targets - not parameters,
not globals, not imported names) to ``_0, _1, ...`` in order of first occurrence.  Two
fragments that differ only by alpha-renaming of locals get the same text.
"""

from __future__ import annotations

import ast
import copy

from .loader import walk_function


def local_names(fn: ast.AST) -> set[str]:
    """Names bound inside ``fn`` (any nesting depth) other than parameters."""
    params: set[str] = set()
    declared: set[str] = set()
    stores: set[str] = set()
    for n in ast.walk(fn):
        if isinstance(n, (ast.FunctionDef, ast.AsyncFunctionDef, ast.Lambda)):
            a = n.args
            params |= {x.arg for x in [*a.posonlyargs, *a.args, *a.kwonlyargs]}
            if a.vararg:
                params.add(a.vararg.arg)
            if a.kwarg:
                params.add(a.kwarg.arg)
            if not isinstance(n, ast.Lambda) and n is not fn:
                declared.add(n.name)
        elif isinstance(n, (ast.Global, ast.Nonlocal)):
            declared |= set(n.names)
        elif isinstance(n, (ast.Import, ast.ImportFrom)):
            declared |= {(al.asname or al.name).split(".")[0] for al in n.names}
        elif isinstance(n, ast.ClassDef):
            declared.add(n.name)
        elif isinstance(n, ast.Name) and isinstance(n.ctx, ast.Store):
            stores.add(n.id)
        elif isinstance(n, ast.ExceptHandler) and n.name:
            stores.add(n.name)
    return stores - params - declared


def top_function(node: ast.AST) -> ast.AST | None:
    """Outermost function definition enclosing ``node``."""
    from .loader import ancestors

    top = node if isinstance(node, (ast.FunctionDef, ast.AsyncFunctionDef)) else None
    for a in ancestors(node):
        if isinstance(a, (ast.FunctionDef, ast.AsyncFunctionDef)):
            top = a
    return top


def clone(node):
    """Deep copy of an AST fragment that does not follow the loader's parent/module links."""
    if isinstance(node, ast.AST):
        new = type(node)()
        for fld, value in ast.iter_fields(node):
            setattr(new, fld, clone(value))
        for attr in ("lineno", "col_offset", "end_lineno", "end_col_offset"):
            if hasattr(node, attr):
                setattr(new, attr, getattr(node, attr))
        return new
    if isinstance(node, list):
        return [clone(x) for x in node]
    return node


class _Canon(ast.NodeTransformer):
    def __init__(self, names: set[str], mapping: dict[str, str] | None = None):
        self.names = names
        self.mapping: dict[str, str] = mapping if mapping is not None else {}

    def _new(self, name: str) -> str:
        if name not in self.mapping:
            self.mapping[name] = f"_{len(self.mapping)}"
        return self.mapping[name]

    def visit_Name(self, node: ast.Name):
        if node.id in self.names:
            return ast.copy_location(ast.Name(id=self._new(node.id), ctx=node.ctx), node)
        return node


def canon(node: ast.AST, fn: ast.AST | set[str] | None = None, mapping: dict[str, str] | None = None) -> str:
    """Unparse with locals renamed canonically.  ``fn`` is the enclosing function node (its
    locals are computed), an explicit set of local names, or None (locals of the outermost
    enclosing function of ``node``)."""
    if isinstance(fn, set):
        names = fn
    else:
        top = fn if fn is not None else top_function(node)
        names = local_names(top) if top is not None else set()
    tree = _Canon(names, mapping).visit(clone(node))
    try:
        return ast.unparse(tree)
    except Exception:  # noqa: BLE001
        return f"<{type(node).__name__}>"


def nospace(text: str) -> str:
    return text.replace(" ", "").replace("\n", "")


def normal_test(test: ast.AST, outcome: bool) -> tuple[ast.AST, bool]:
    """A branch condition and its outcome in positive normal form: leading ``not`` is stripped and
    ``!=`` / ``not in`` / ``is not`` become ``==`` / ``in`` / ``is`` with the outcome flipped, so that
    ``if not c: B else: A`` and ``if c: A else: B`` give the same (test, outcome) pairs on every path."""
    while isinstance(test, ast.UnaryOp) and isinstance(test.op, ast.Not):
        test, outcome = test.operand, not outcome
    if isinstance(test, ast.Compare) and len(test.ops) == 1:
        flip = {ast.NotEq: ast.Eq, ast.NotIn: ast.In, ast.IsNot: ast.Is}
        for neg, pos in flip.items():
            if isinstance(test.ops[0], neg):
                test = ast.Compare(left=test.left, ops=[pos()], comparators=test.comparators)
                outcome = not outcome
                break
    return test, outcome
