"""Forward substitution of single-assignment locals (part of E3).

``Inliner(fn).expr(node)`` returns a copy of ``node`` in which every local name that has
exactly one reaching definition of a simple kind is replaced by (the inlined form of)
the defining expression.  Tuple unpackings from a display are followed element-wise;
unpackings from any other value become ``value[<index>]``.  Parameters, loop variables
and names with several reaching definitions stay as they are.
"""

from __future__ import annotations

import ast
import copy

from .dataflow import RD, Def


class Inliner:
    def __init__(self, fn: ast.FunctionDef, rd: RD | None = None, max_depth: int = 25) -> None:
        self.rd = rd or RD(fn)
        self.max_depth = max_depth

    def expr(self, node: ast.AST, depth: int = 0, stop: set[str] | None = None) -> ast.AST:
        stop = stop or set()
        return self._sub(node, depth, stop)

    def text(self, node: ast.AST, stop: set[str] | None = None) -> str:
        return ast.unparse(self.expr(node, stop=stop))

    def single_def(self, name: ast.Name) -> Def | None:
        defs = self.rd.reaching(name)
        if len(defs) != 1:
            return None
        return next(iter(defs))

    def _sub(self, node: ast.AST, depth: int, stop: set[str]) -> ast.AST:
        if isinstance(node, ast.Name) and isinstance(node.ctx, ast.Load):
            if node.id in stop or depth > self.max_depth:
                return copy.copy(node)
            d = self.single_def(node)
            if d is None or d.kind != "assign" or d.value is None:
                return copy.copy(node)
            if isinstance(d.node, ast.AugAssign):
                return copy.copy(node)
            val = self._sub(d.value, depth + 1, stop)
            if d.index is not None:
                if isinstance(val, (ast.Tuple, ast.List)) and not any(isinstance(e, ast.Starred) for e in val.elts) and d.index < len(val.elts):
                    return val.elts[d.index]
                return ast.Subscript(value=val, slice=ast.Constant(d.index), ctx=ast.Load())
            return val
        if isinstance(node, (ast.ListComp, ast.SetComp, ast.GeneratorExp, ast.DictComp, ast.Lambda)):
            # do not substitute names bound by the comprehension itself
            bound = set(stop)
            if isinstance(node, ast.Lambda):
                bound |= {a.arg for a in node.args.args}
            else:
                for gen in node.generators:
                    bound |= {n.id for n in ast.walk(gen.target) if isinstance(n, ast.Name)}
            new = copy.copy(node)
            for fld, value in ast.iter_fields(node):
                setattr(new, fld, self._sub_field(value, depth, bound))
            return new
        new = copy.copy(node)
        for fld, value in ast.iter_fields(node):
            setattr(new, fld, self._sub_field(value, depth, stop))
        return new

    def _sub_field(self, value, depth, stop):
        if isinstance(value, ast.AST):
            return self._sub(value, depth, stop)
        if isinstance(value, list):
            return [self._sub_field(v, depth, stop) for v in value]
        return value
