"""Forward substitution of single-assignment locals (part of E3).

``Inliner(fn).expr(node)`` returns a copy of ``node`` in which every local name that has
exactly one reaching definition of a simple kind is replaced by (the inlined form of)
the defining expression.  Tuple unpackings from a display are followed element-wise;
unpackings from any other value become ``value[<index>]``.  Parameters, loop variables
and names with several reaching definitions stay as they are.
"""

from __future__ import annotations

import ast
import copy

from .dataflow import RD, Def


class Inliner:
    def __init__(self, fn: ast.FunctionDef, rd: RD | None = None, max_depth: int = 25) -> None:
        self.rd = rd or RD(fn)
        self.max_depth = max_depth

    def expr(self, node: ast.AST, depth: int = 0, stop: set[str] | None = None) -> ast.AST:
        stop = stop or set()
        return self._sub(node, depth, stop)

    def text(self, node: ast.AST, stop: set[str] | None = None) -> str:
        return ast.unparse(self.expr(node, stop=stop))

    def single_def(self, name: ast.Name) -> Def | None:
        defs = self.rd.reaching(name)
        if len(defs) != 1:
            return None
        return next(iter(defs))

    def _sub(self, node: ast.AST, depth: int, stop: set[str]) -> ast.AST:
        if isinstance(node, ast.Name) and isinstance(node.ctx, ast.Load):
            if node.id in stop or depth > self.max_depth:
                return copy.copy(node)
            d = self.single_def(node)
            if d is None or d.kind != "assign" or d.value is None:
                return copy.copy(node)
            if isinstance(d.node, ast.AugAssign):
                return copy.copy(node)
            val = self._sub(d.value, depth + 1, stop)
            if d.index is not None:
                if isinstance(val, (ast.Tuple, ast.List)) and not any(isinstance(e, ast.Starred) for e in val.elts) and d.index < len(val.elts):
                    return val.elts[d.index]
                return ast.Subscript(value=val, slice=ast.Constant(d.index), ctx=ast.Load())
            return val
        if isinstance(node, (ast.ListComp, ast.SetComp, ast.GeneratorExp, ast.DictComp, ast.Lambda)):
            # do not substitute names bound by the comprehension itself
            bound = set(stop)
            if isinstance(node, ast.Lambda):
                bound |= {a.arg for a in node.args.args}
            else:
                for gen in node.generators:
                    bound |= {n.id for n in ast.walk(gen.target) if isinstance(n, ast.Name)}
            new = copy.copy(node)
            for fld, value in ast.iter_fields(node):
                setattr(new, fld, self._sub_field(value, depth, bound))
            return new
        new = copy.copy(node)
        for fld, value in ast.iter_fields(node):
            setattr(new, fld, self._sub_field(value, depth, stop))
        return new

    def _sub_field(self, value, depth, stop):
        if isinstance(value, ast.AST):
            return self._sub(value, depth, stop)
        if isinstance(value, list):
            return [self._sub_field(v, depth, stop) for v in value]
        return value


# --------------------------------------------------------------------------- E3b: helper inlining
"""(E3b) The *effective* body of a function.

``flatten(tree, fn)`` returns a synthetic ``FuncInfo`` (same qualname, a fresh AST; the loaded tree is not
touched) in which

* H-PROC  a statement ``self.__helper(a, b)`` / ``_helper(a, b)`` whose value is discarded is replaced by the
  body of the helper - a private method of the same class (never an overridable one) or a private function of
  the same module.  Parameters that the helper never rebinds and that are bound to a plain name become that
  name; every other parameter is bound by an assignment ``p = <argument>`` in front of the body.  Locals of the
  helper that collide with a name of the caller are renamed (``x`` -> ``x_1``).  Guard clauses
  ``if c: return`` become ``if c: pass / else: <rest>``.  Helpers with a shape that cannot be spliced
  (``return`` inside a loop, a returned value, try/with, nested functions, generators, ``*args``, decorators
  other than ``staticmethod``, recursion, depth > 3) stay calls.
* H-EXPR  a call of such a helper whose body is a single ``return E`` is replaced by ``E`` with the arguments
  substituted (refused if a name would be captured or shadowed).
* H-FUNC  a statement whose value IS a call of such a helper (``t = self.__helper(a)``, ``t: T = ...``,
  ``x[k] = _helper(a)``, ``return self.__helper(a)``) and whose helper is straight-line statements followed by ONE
  final ``return E`` (no other ``return``) is replaced by the helper's statements (bound / renamed as for H-PROC)
  followed by the statement with ``E`` in place of the call: a phase of a function that was moved into a private
  helper which hands its result back is part of the function again.
* H-ALIAS a local that is bound exactly once, to an attribute path rooted at ``self``
  (``defaults = self.__ingredients.parameter_defaults``), is replaced by that path at every use - unless the
  function assigns to a prefix of the path, or calls a method of an inner prefix (``self.__ingredients.reset()``)
  after / in a common loop with the binding (the alias could then be stale: it is left alone).

All three are behaviour preserving (attribute reads of the package are side-effect free), so a rule that reads
the flattened function decides the same program; a helper that was extracted from an anchored function is
part of it again.  Source positions of the spliced statements are those of the helper.
"""


class _Refuse(Exception):
    pass


_UNSPLICEABLE = (ast.FunctionDef, ast.AsyncFunctionDef, ast.ClassDef, ast.Global, ast.Nonlocal, ast.Yield, ast.YieldFrom,
                 ast.Await, ast.NamedExpr, ast.Try, ast.With, ast.AsyncWith, ast.AsyncFor, ast.Match)


def _clone(node):
    from .canon import clone

    return clone(node)


def _self_chain(e: ast.AST) -> list[str] | None:
    parts = []
    while isinstance(e, ast.Attribute):
        parts.append(e.attr)
        e = e.value
    if isinstance(e, ast.Name) and e.id == "self" and parts:
        return ["self", *reversed(parts)]
    return None


def _stored(nodes) -> set[str]:
    out: set[str] = set()
    for root in nodes:
        for n in ast.walk(root):
            if isinstance(n, ast.Name) and isinstance(n.ctx, (ast.Store, ast.Del)):
                out.add(n.id)
    return out


def _loads(nodes) -> set[str]:
    return {n.id for root in nodes for n in ast.walk(root) if isinstance(n, ast.Name) and isinstance(n.ctx, ast.Load)}


class _Rename(ast.NodeTransformer):
    """Name -> Name (any context) or, for loads, Name -> expression."""

    def __init__(self, names: dict[str, str], exprs: dict[str, ast.AST] | None = None) -> None:
        self.names = names
        self.exprs = exprs or {}

    def visit_Name(self, node: ast.Name):
        if node.id in self.exprs and isinstance(node.ctx, ast.Load):
            return ast.copy_location(_clone(self.exprs[node.id]), node)
        if node.id in self.names:
            return ast.copy_location(ast.Name(id=self.names[node.id], ctx=node.ctx), node)
        return node


def _body_without_docstring(fn: ast.FunctionDef) -> list[ast.stmt]:
    body = list(fn.body)
    if body and isinstance(body[0], ast.Expr) and isinstance(body[0].value, ast.Constant) and isinstance(body[0].value.value, str):
        body = body[1:]
    return body


def _has_return(st: ast.AST) -> bool:
    return any(isinstance(n, ast.Return) for n in ast.walk(st))


_FLIP = {ast.Is: ast.IsNot, ast.IsNot: ast.Is, ast.Eq: ast.NotEq, ast.NotEq: ast.Eq, ast.In: ast.NotIn, ast.NotIn: ast.In}


def _negated(test: ast.expr) -> ast.expr:
    if isinstance(test, ast.UnaryOp) and isinstance(test.op, ast.Not):
        return test.operand
    if isinstance(test, ast.Compare) and len(test.ops) == 1 and type(test.ops[0]) in _FLIP:
        return ast.copy_location(ast.Compare(left=test.left, ops=[_FLIP[type(test.ops[0])]()], comparators=test.comparators), test)
    return ast.copy_location(ast.UnaryOp(op=ast.Not(), operand=test), test)


def _elim_returns(stmts: list[ast.stmt]) -> list[ast.stmt]:
    """Value-less returns (only below ``if``) -> structured if/else."""
    out: list[ast.stmt] = []
    for i, st in enumerate(stmts):
        if isinstance(st, ast.Return):
            return out
        if isinstance(st, ast.If) and _has_return(st):
            rest = stmts[i + 1:]
            body = _elim_returns([*st.body, *[_clone(r) for r in rest]])
            orelse = _elim_returns([*st.orelse, *rest])
            test = st.test
            if not body and orelse:  # `if c: return` + rest  ->  `if not c: rest`
                test, body, orelse = _negated(test), orelse, []
            if not body:
                body = [ast.copy_location(ast.Pass(), st)]
            out.append(ast.copy_location(ast.If(test=test, body=body, orelse=orelse), st))
            return out
        out.append(st)
    return out


class Flattener:
    def __init__(self, tree, max_depth: int = 3) -> None:
        self.tree = tree
        self.max_depth = max_depth

    # ------------------------------------------------------------------ public
    def flatten(self, fn, inline: bool = True, aliases: bool = True):
        from .loader import FuncInfo, _set_parents

        node = _clone(fn.node)
        self._mark(node, fn.module)
        self.used = {n.id for n in ast.walk(node) if isinstance(n, ast.Name)} | {a.arg for a in ast.walk(node) if isinstance(a, ast.arg)}
        self.locals = _stored([node]) | {a.arg for a in ast.walk(node) if isinstance(a, ast.arg)}
        self.spliced: list[str] = []
        if inline:
            node.body = self._block(node.body, fn, 0, (fn.qual,))
        if aliases:
            expand_self_aliases(node)
        self._mark(node, fn.module)
        _set_parents(node)
        node._parent = getattr(fn.node, "_parent", None)  # type: ignore[attr-defined]
        info = FuncInfo(fn.qual, node, fn.module, fn.cls, fn.outer)
        info.spliced = list(self.spliced)  # type: ignore[attr-defined]
        return info

    @staticmethod
    def _mark(node: ast.AST, module) -> None:
        for n in ast.walk(node):
            n._module = module  # type: ignore[attr-defined]

    # --------------------------------------------------------------- statements
    def _block(self, stmts: list[ast.stmt], scope, depth: int, stack: tuple) -> list[ast.stmt]:
        out: list[ast.stmt] = []
        for st in stmts:
            if not isinstance(st, (ast.FunctionDef, ast.AsyncFunctionDef, ast.ClassDef)):
                for fld in ("body", "orelse", "finalbody"):
                    blk = getattr(st, fld, None)
                    if isinstance(blk, list) and blk and isinstance(blk[0], ast.stmt):
                        setattr(st, fld, self._block(blk, scope, depth, stack))
                for h in getattr(st, "handlers", None) or []:
                    h.body = self._block(h.body, scope, depth, stack)
                self._exprs(st, scope, depth, stack)
            if isinstance(st, ast.Expr) and isinstance(st.value, ast.Call):
                try:
                    out.extend(self._procedure(st.value, scope, depth, stack))
                    continue
                except _Refuse:
                    pass
            if isinstance(st, (ast.Assign, ast.AnnAssign, ast.Return)) and isinstance(st.value, ast.Call):
                try:  # H-FUNC
                    stmts, value = self._procedure(st.value, scope, depth, stack, want_value=True)
                    st.value = value
                    out.extend(stmts)
                except _Refuse:
                    pass
            out.append(st)
        return out

    def _exprs(self, st: ast.stmt, scope, depth: int, stack: tuple) -> None:
        me = self

        class T(ast.NodeTransformer):
            def visit_Lambda(self, node):  # own scope: left alone
                return node

            def visit_Call(self, node: ast.Call):
                self.generic_visit(node)
                try:
                    return me._expression(node, scope, depth, stack)
                except _Refuse:
                    return node

        for fld, value in ast.iter_fields(st):
            if isinstance(value, ast.expr):
                setattr(st, fld, T().visit(value))
            elif isinstance(value, list) and value and all(isinstance(v, ast.expr) for v in value):
                setattr(st, fld, [T().visit(v) for v in value])
            elif isinstance(value, list) and value and all(isinstance(v, ast.withitem) for v in value):
                for item in value:
                    item.context_expr = T().visit(item.context_expr)

    # ------------------------------------------------------------------ helpers
    def _helper(self, call: ast.Call, scope, depth: int, stack: tuple):
        if depth >= self.max_depth:
            raise _Refuse
        q = self.tree.callee(call, scope)
        g = self.tree.funcs.get(q) if q else None
        if g is None or g.outer is not None or g.qual in stack:
            raise _Refuse
        name = g.name
        f0 = call.func
        owned = (g.cls is not None and scope.cls is not None and g.cls != scope.cls and isinstance(f0, ast.Attribute) and isinstance(f0.value, ast.Attribute)
                 and isinstance(f0.value.value, ast.Name) and f0.value.value.id == "self" and self.tree._method_of_owned(scope, f0.value.attr, f0.attr) == g.qual)
        if owned:
            # H-OWNED: a method of an object the instance owns (`self.<attr>` is only ever bound to `Cls(...)` of one class of
            # the tree, so the callee is known exactly): spliced like a private helper, with `self` of the method bound to
            # `self.<attr>`
            if name.startswith("__") and name.endswith("__"):
                raise _Refuse
            if g.module is not scope.module:
                raise _Refuse
            decos_ = [ast.unparse(d) for d in g.node.decorator_list]
            a_ = g.node.args
            params_ = [x.arg for x in [*a_.posonlyargs, *a_.args]]
            if decos_ or a_.vararg or a_.kwarg or not params_ or params_[0] != "self":
                raise _Refuse
            self._receivers = getattr(self, "_receivers", {})
            self._receivers[id(call)] = f0.value
            return g, params_[1:]
        if not name.startswith("_") or (name.startswith("__") and name.endswith("__")):
            raise _Refuse
        if g.module is not scope.module:
            raise _Refuse
        decos = [ast.unparse(d) for d in g.node.decorator_list]
        a = g.node.args
        if a.vararg or a.kwarg:
            raise _Refuse
        params = [x.arg for x in [*a.posonlyargs, *a.args]]
        if g.cls is None:
            if decos or not isinstance(call.func, ast.Name):
                raise _Refuse
        else:
            f = call.func
            if scope.cls is None or g.cls != scope.cls or not (isinstance(f, ast.Attribute) and isinstance(f.value, ast.Name) and f.value.id == "self"):
                raise _Refuse
            if any(d != "staticmethod" for d in decos):
                raise _Refuse
            if not name.startswith("__") and any(name in sub.methods for sub in self.tree.subclasses(g.cls)):
                raise _Refuse  # overridable: the callee is not known statically
            if "staticmethod" not in decos:
                if not params or params[0] != "self":
                    raise _Refuse
                params = params[1:]
        return g, params

    def _bind(self, call: ast.Call, g, params: list[str]) -> dict[str, ast.AST]:
        a = g.node.args
        kwonly = [x.arg for x in a.kwonlyargs]
        if any(isinstance(x, ast.Starred) for x in call.args) or any(k.arg is None for k in call.keywords) or len(call.args) > len(params):
            raise _Refuse
        bound: dict[str, ast.AST] = dict(zip(params, call.args))
        receiver = getattr(self, "_receivers", {}).get(id(call))
        for k in call.keywords:
            if k.arg in bound or k.arg not in [*params, *kwonly]:
                raise _Refuse
            bound[k.arg] = k.value
        positional = [x.arg for x in [*a.posonlyargs, *a.args]]
        defaults = dict(zip(positional[len(positional) - len(a.defaults):], a.defaults))
        defaults.update({k: d for k, d in zip(kwonly, a.kw_defaults) if d is not None})
        for p in [*params, *kwonly]:
            if p not in bound:
                d = defaults.get(p)
                if not isinstance(d, ast.Constant):
                    raise _Refuse
                bound[p] = d
        out = {p: bound[p] for p in [*params, *kwonly]}
        if receiver is not None:
            out = {"self": receiver, **out}  # the method's `self` is the owned object
        return out

    def _check_scopes(self, body: list[ast.AST], g, bound: dict[str, ast.AST], own: set[str]) -> None:
        """No capture / shadowing when ``body`` (of helper ``g``) is moved into the flattened function."""
        for root in body:
            for n in ast.walk(root):
                if isinstance(n, ast.Lambda):
                    largs = {x.arg for x in ast.walk(n.args) if isinstance(x, ast.arg)}
                    if largs & (own | set(bound)):
                        raise _Refuse
        free = _loads(body) - own - set(bound) - ({"self"} if g.cls is not None else set())
        if free & self.locals:
            raise _Refuse  # a global of the helper would be shadowed by a local of the caller

    # --------------------------------------------------------------- H-EXPR
    def _expression(self, call: ast.Call, scope, depth: int, stack: tuple) -> ast.AST:
        g, params = self._helper(call, scope, depth, stack)
        body = _body_without_docstring(g.node)
        if len(body) != 1 or not isinstance(body[0], ast.Return) or body[0].value is None:
            raise _Refuse
        bound = self._bind(call, g, params)
        e = _clone(body[0].value)
        self._mark(e, g.module)
        if any(isinstance(n, (*_UNSPLICEABLE, ast.Lambda)) for n in ast.walk(e)):
            raise _Refuse
        own = _stored([e])  # comprehension variables
        if own & set(bound):
            raise _Refuse
        self._check_scopes([e], g, bound, own)
        if own & _loads(list(bound.values())):
            raise _Refuse  # an argument would be captured by a comprehension variable
        for p, arg in bound.items():
            n_uses = sum(1 for n in ast.walk(e) if isinstance(n, ast.Name) and n.id == p)
            simple = isinstance(arg, (ast.Name, ast.Constant)) or _self_chain(arg) is not None
            if n_uses > 1 and not simple:
                raise _Refuse
        holder = ast.Expr(value=e)
        self._exprs(holder, g, depth + 1, (*stack, g.qual))
        e = _Rename({}, dict(bound)).visit(holder.value)
        self.spliced.append(g.qual)
        return e

    # --------------------------------------------------------------- H-PROC
    def _procedure(self, call: ast.Call, scope, depth: int, stack: tuple, want_value: bool = False):
        g, params = self._helper(call, scope, depth, stack)
        bound = self._bind(call, g, params)
        body = [_clone(s) for s in _body_without_docstring(g.node)]
        for s in body:
            self._mark(s, g.module)
        if want_value:  # H-FUNC: statements + one final `return E`
            if len(body) < 2 or not isinstance(body[-1], ast.Return) or body[-1].value is None:
                raise _Refuse
            if any(isinstance(n, ast.Return) for s in body[:-1] for n in ast.walk(s)):
                raise _Refuse
            if any(isinstance(n, ast.Lambda) for n in ast.walk(body[-1].value)):
                raise _Refuse
        else:
            self._check_returns(body, in_loop=False)
        if any(isinstance(n, _UNSPLICEABLE) for s in body for n in ast.walk(s)):
            raise _Refuse
        own = _stored(body)
        self._check_scopes(body, g, bound, own)
        names: dict[str, str] = {}
        assigns: list[tuple[str, ast.AST]] = []
        for p, arg in bound.items():
            if p not in own and isinstance(arg, ast.Name):
                names[p] = arg.id
            else:
                own = own | {p}
                assigns.append((p, arg))
        for n in sorted(own):
            if n in self.used:
                names[n] = self._fresh(n)
            self.used.add(names.get(n, n))
            self.locals.add(names.get(n, n))
        self.used |= set(bound) | own
        body = self._block(body, g, depth + 1, (*stack, g.qual))
        ret = None
        if want_value:
            ret = body.pop()  # still the final `return E` (statements spliced in front of it stay in the body)
            if not isinstance(ret, ast.Return) or ret.value is None:
                raise _Refuse
        body = _elim_returns(body)
        ren = _Rename(names)
        body = [ren.visit(s) for s in body]
        head = []
        for p, arg in assigns:
            tgt = ast.Name(id=names.get(p, p), ctx=ast.Store())
            head.append(ast.copy_location(ast.Assign(targets=[ast.copy_location(tgt, call)], value=_clone(arg), lineno=call.lineno), call))
        out = [*head, *body] or [ast.copy_location(ast.Pass(), call)]
        self.spliced.append(g.qual)
        if want_value:
            return [*head, *body], ren.visit(ret).value
        return out

    def _fresh(self, name: str) -> str:
        k = 1
        while f"{name}_{k}" in self.used:
            k += 1
        return f"{name}_{k}"

    def _check_returns(self, stmts: list[ast.stmt], in_loop: bool) -> None:
        for st in stmts:
            if isinstance(st, ast.Return):
                if in_loop or not (st.value is None or (isinstance(st.value, ast.Constant) and st.value.value is None)):
                    raise _Refuse
            elif isinstance(st, ast.If):
                self._check_returns(st.body, in_loop)
                self._check_returns(st.orelse, in_loop)
            elif isinstance(st, (ast.For, ast.While)):
                self._check_returns(st.body, True)
                self._check_returns(st.orelse, True)
            elif _has_return(st):
                raise _Refuse


def expand_self_aliases(fn: ast.FunctionDef) -> list[str]:
    """H-ALIAS on the function node ``fn`` (in place; meant for the clone made by ``Flattener``).
    Returns the names that were expanded."""
    done: list[str] = []
    for _ in range(10):
        order: dict[int, int] = {}
        loops: dict[int, tuple] = {}

        def index(stmts, enclosing):
            for st in stmts:
                order[id(st)] = len(order)
                loops[id(st)] = enclosing
                inner = (*enclosing, id(st)) if isinstance(st, (ast.For, ast.While, ast.AsyncFor)) else enclosing
                for fld in ("body", "orelse", "finalbody"):
                    blk = getattr(st, fld, None)
                    if isinstance(blk, list) and blk and isinstance(blk[0], ast.stmt):
                        index(blk, inner)
                for h in getattr(st, "handlers", None) or []:
                    index(h.body, inner)

        index(fn.body, ())
        stmt_of: dict[int, ast.stmt] = {}
        for st in [n for n in ast.walk(fn) if isinstance(n, ast.stmt) and id(n) in order]:
            for fld, value in ast.iter_fields(st):
                vals = value if isinstance(value, list) else [value]
                for v in vals:
                    if isinstance(v, (ast.expr, ast.withitem, ast.keyword)):
                        for n in ast.walk(v):
                            stmt_of[id(n)] = st
        n_stores: dict[str, int] = {}
        other: set[str] = set()
        for n in ast.walk(fn):
            if isinstance(n, ast.Name) and isinstance(n.ctx, (ast.Store, ast.Del)):
                n_stores[n.id] = n_stores.get(n.id, 0) + 1
            elif isinstance(n, ast.arg):
                other.add(n.arg)
            elif isinstance(n, (ast.Global, ast.Nonlocal)):
                other |= set(n.names)
            elif isinstance(n, ast.ExceptHandler) and n.name:
                other.add(n.name)
            elif isinstance(n, (ast.FunctionDef, ast.AsyncFunctionDef, ast.ClassDef)) and n is not fn:
                other.add(n.name)
        changed = False
        # shorter paths first: `obj = self.a` must be expanded before `d = self.a.b` is judged, or a re-binding spelled
        # `obj.b = ...` (e.g. the spliced body of a method of the owned object) would not be seen as one of `self.a.b`
        for st in sorted([n for n in ast.walk(fn) if isinstance(n, ast.Assign) and id(n) in order], key=lambda s: (len(_self_chain(s.value) or ()) or 99, order[id(s)])):
            if len(st.targets) != 1 or not isinstance(st.targets[0], ast.Name):
                continue
            a = st.targets[0].id
            chain = _self_chain(st.value)
            if chain is None or n_stores.get(a) != 1 or a in other or a in done:
                continue
            if not any(isinstance(n, ast.Name) and n.id == a and isinstance(n.ctx, ast.Load) for n in ast.walk(fn)):
                continue
            if _alias_may_be_stale(fn, st, chain, order, loops, stmt_of):
                continue
            _Rename({}, {a: st.value}).visit(fn)
            done.append(a)
            changed = True
            break  # indices are stale: start over
        if not changed:
            break
    return done


def _alias_may_be_stale(fn, st, chain, order, loops, stmt_of) -> bool:
    for n in ast.walk(fn):
        if isinstance(n, ast.Attribute) and isinstance(n.ctx, (ast.Store, ast.Del)):
            c = _self_chain(n)
            if c is not None and c == chain[: len(c)]:
                # a re-binding of the path (or of a prefix): stale only if it can happen AFTER the alias was bound - later
                # in statement order, or in a loop that also contains the alias binding
                at = stmt_of.get(id(n))
                if at is None or order[id(at)] > order[id(st)] or set(loops[id(at)]) & set(loops[id(st)]):
                    return True
        if isinstance(n, ast.Call) and isinstance(n.func, ast.Attribute):
            c = _self_chain(n.func.value)
            if c is not None and 2 <= len(c) < len(chain) and c == chain[: len(c)]:
                at = stmt_of.get(id(n))
                if at is None:
                    return True
                if order[id(at)] > order[id(st)] or set(loops[id(at)]) & set(loops[id(st)]):
                    return True
    return False


def flatten(tree, fn, inline: bool = True, aliases: bool = True):
    """The effective function (see the E3b notes above); cached per tree."""
    cache = tree.__dict__.setdefault("_flatten_cache", {})
    key = (fn.qual, inline, aliases)
    if key not in cache:
        cache[key] = Flattener(tree).flatten(fn, inline=inline, aliases=aliases)
    return cache[key]


# --------------------------------------------------------------------------- E3c: the value of a helper call
class CallInliner(Inliner):
    """``Inliner`` that also replaces a CALL of a function of the analysed tree by the value the call returns.

    ``CallInliner(tree, fn).expr(node)`` substitutes locals like ``Inliner`` and, wherever the (inlined) expression
    calls a module-level function, a nested closure or a method through ``self`` whose callee is known statically,
    puts the callee's *value expression* there: the expression of its ``return`` with the callee's own
    single-definition locals inlined and its parameters replaced by the (inlined) arguments.  Helpers with
    several returns below ``if`` give a conditional expression ``A if c else B`` (a branch that raises has no
    value and drops out); a ``return`` inside a loop / try / with, generators, ``*args``, decorators other than
    staticmethod/override/cache, recursion, overridden methods, non-constant defaults and any local of the
    callee that cannot be expressed through its parameters (several reaching definitions, mutated containers)
    are refused - the call then stays a call.  Free variables of a closure stay names of the enclosing function.
    Comprehension variables of the callee that collide with a name of an argument are renamed.

    The copies keep the ``_module`` / ``_parent`` links of the nodes they were copied from, so
    ``tree.callee(call)`` still resolves a call inside the result in the scope it was written in.
    Analysis only: evaluation order and multiplicity of the arguments are not preserved.
    """

    TRANSPARENT = {"staticmethod", "override", "typing.override", "typing_extensions.override", "functools.lru_cache",
                   "lru_cache", "functools.cache", "cache"}

    def __init__(self, tree, fn, rd: RD | None = None, max_depth: int = 25, max_call_depth: int = 4, _stack: tuple = (), _shared: dict | None = None) -> None:
        super().__init__(fn.node, rd, max_depth)
        self.tree = tree
        self.fn = fn
        self.max_call_depth = max_call_depth
        self._stack = (*_stack, fn.qual)
        self._shared = _shared if _shared is not None else {"n": 0, "followed": []}

    @property
    def followed(self) -> list[str]:
        """Qualnames of the helpers whose value was put in place of a call (in order)."""
        return self._shared["followed"]

    # ------------------------------------------------------------------ substitution
    def _sub(self, node: ast.AST, depth: int, stop: set[str]) -> ast.AST:
        new = super()._sub(node, depth, stop)
        if isinstance(node, ast.Name) and isinstance(new, ast.Name):
            if not hasattr(new, "_origin"):  # (a substituted alias already carries the origin of its value)
                new._origin = node  # type: ignore[attr-defined]
        elif isinstance(node, ast.Call) and isinstance(new, ast.Call):
            val = self._call_value(node, new)
            if val is not None:
                return val
        return new

    def _call_value(self, orig: ast.Call, new: ast.Call) -> ast.AST | None:
        if len(self._stack) > self.max_call_depth or getattr(orig, "_module", None) is None:
            return None
        scope = self.tree.func_of(orig) or self.fn
        q = self.tree.callee(orig, scope)
        h = self.tree.funcs.get(q) if q else None
        if h is None or h.qual in self._stack or not isinstance(h.node, ast.FunctionDef):
            return None
        decos = {ast.unparse(d.func if isinstance(d, ast.Call) else d) for d in h.node.decorator_list}
        if not decos <= self.TRANSPARENT:
            return None
        bound = self._bind_args(orig, new, h, decos, scope)
        if bound is None:
            return None
        sub = CallInliner(self.tree, h, max_depth=self.max_depth, max_call_depth=self.max_call_depth, _stack=self._stack, _shared=self._shared)
        got = sub.value_expr()
        if got is None:
            return None
        e, param_nodes = got
        # comprehension / lambda variables of the callee that would capture a name of an argument
        arg_names = {n.id for a in bound.values() for n in ast.walk(a) if isinstance(n, ast.Name)}
        binders = _bound_names(e)
        clash = binders & arg_names
        if clash:
            free_ids = {n.id for n in _free_name_nodes(e)}
            if clash & free_ids:
                return None
            ren = {}
            for name in sorted(clash):
                self._shared["n"] += 1
                ren[name] = f"{name}__{self._shared['n']}"
            for n in ast.walk(e):
                if isinstance(n, ast.Name) and n.id in ren:
                    n.id = ren[n.id]
                elif isinstance(n, ast.arg) and n.arg in ren:
                    n.arg = ren[n.arg]
        if any(p.id not in bound for p in param_nodes):
            return None
        ids = {id(p): p for p in param_nodes}

        class _Put(ast.NodeTransformer):
            def visit_Name(self, n: ast.Name):  # noqa: N802
                if id(n) in ids:
                    return _clone_keep(bound[n.id])
                return n

        holder = ast.Expr(value=e)
        _Put().visit(holder)
        self._shared["followed"].append(h.qual)
        return holder.value

    def _bind_args(self, orig: ast.Call, new: ast.Call, h, decos: set[str], scope) -> dict[str, ast.AST] | None:
        a = h.node.args
        if a.vararg or a.kwarg:
            return None
        if any(isinstance(x, ast.Starred) for x in new.args) or any(k.arg is None for k in new.keywords):
            return None
        pos = [x.arg for x in [*a.posonlyargs, *a.args]]
        all_pos = list(pos)
        bound: dict[str, ast.AST] = {}
        if h.cls is not None and h.outer is None and "staticmethod" not in decos:
            f = orig.func
            if not pos or not isinstance(f, ast.Attribute):
                return None
            recv = f.value
            if isinstance(recv, ast.Call) or self.tree.resolve(orig._module, recv, scope) in self.tree.classes:  # super().m() / Class.m(obj)
                return None
            if not h.name.startswith("__") and any(h.name in sub.methods for sub in self.tree.subclasses(h.cls)):
                return None  # overridden somewhere: the callee is not known statically
            bound[pos[0]] = new.func.value  # type: ignore[union-attr]
            pos = pos[1:]
        if len(new.args) > len(pos):
            return None
        bound.update(zip(pos, new.args))
        kwonly = [x.arg for x in a.kwonlyargs]
        for k in new.keywords:
            if k.arg in bound or k.arg not in [*pos, *kwonly]:
                return None
            bound[k.arg] = k.value
        defaults = dict(zip(all_pos[len(all_pos) - len(a.defaults):], a.defaults)) if a.defaults else {}
        defaults.update({k: d for k, d in zip(kwonly, a.kw_defaults) if d is not None})
        for p in [*pos, *kwonly]:
            if p not in bound:
                d = defaults.get(p)
                if not isinstance(d, ast.Constant):
                    return None
                bound[p] = d
        return bound

    # ------------------------------------------------------------------ value of this function
    def value_expr(self) -> tuple[ast.AST, list[ast.Name]] | None:
        """(value expression, the Name nodes in it that stand for parameters) or None if the function's
        result cannot be written as one expression over its parameters."""
        from .loader import walk_function

        if any(isinstance(n, (ast.Yield, ast.YieldFrom, ast.Await)) for n in walk_function(self.fn.node, nested=False)):
            return None
        body = list(self.fn.node.body)
        if body and isinstance(body[0], ast.Expr) and isinstance(body[0].value, ast.Constant) and isinstance(body[0].value.value, str):
            body = body[1:]
        self._budget = 64
        e = self._block_value(body)
        if e is None or e is _RAISES:
            return None
        params: list[ast.Name] = []
        for n in _free_name_nodes(e):
            origin = getattr(n, "_origin", None)
            if origin is None:
                return None
            defs = self.rd.reaching(origin)
            if not defs:
                continue  # global / builtin / variable of an enclosing function
            if all(d.kind == "param" for d in defs):
                params.append(n)
                continue
            return None  # a local that has no single defining expression
        return e, params

    def _block_value(self, stmts: list[ast.stmt]):
        from .loader import walk_function

        self._budget -= 1
        if self._budget < 0:
            return None
        for i, st in enumerate(stmts):
            if isinstance(st, ast.Return):
                if st.value is None:
                    return ast.copy_location(ast.Constant(value=None), st)
                return self.expr(st.value)
            if isinstance(st, ast.Raise):
                return _RAISES
            if isinstance(st, (ast.FunctionDef, ast.AsyncFunctionDef, ast.ClassDef)):
                continue
            exits = [n for n in [st, *walk_function(st, nested=False)] if isinstance(n, (ast.Return, ast.Raise))]
            if not exits:
                continue
            if isinstance(st, ast.If):
                rest = stmts[i + 1:]
                a = self._block_value([*st.body, *rest])
                b = self._block_value([*st.orelse, *rest])
                if a is None or b is None:
                    return None
                if a is _RAISES:
                    return b
                if b is _RAISES:
                    return a
                new = ast.copy_location(ast.IfExp(test=self.expr(st.test), body=a, orelse=b), st)
                new._module = getattr(st, "_module", None)  # type: ignore[attr-defined]
                new._parent = getattr(st, "_parent", None)  # type: ignore[attr-defined]
                return new
            if any(isinstance(n, ast.Return) for n in exits):
                return None  # return inside a loop / try / with
            # only raises inside (validation loops, try/raise): no value is produced there
        return ast.Constant(value=None)


_RAISES = object()


def _clone_keep(node):
    """Deep copy of an AST fragment; the copies keep the loader's links (by reference)."""
    if isinstance(node, ast.AST):
        new = copy.copy(node)
        for fld, value in ast.iter_fields(node):
            setattr(new, fld, _clone_keep(value))
        return new
    if isinstance(node, list):
        return [_clone_keep(x) for x in node]
    return node


def _bound_names(e: ast.AST) -> set[str]:
    """Names bound inside the expression by comprehensions, lambdas and walrus."""
    out: set[str] = set()
    for n in ast.walk(e):
        if isinstance(n, ast.comprehension):
            out |= {x.id for x in ast.walk(n.target) if isinstance(x, ast.Name)}
        elif isinstance(n, ast.Lambda):
            out |= {x.arg for x in ast.walk(n.args) if isinstance(x, ast.arg)}
        elif isinstance(n, ast.NamedExpr) and isinstance(n.target, ast.Name):
            out.add(n.target.id)
    return out


def _free_name_nodes(e: ast.AST) -> list[ast.Name]:
    """Name loads of the expression that are not bound by a comprehension / lambda inside it."""
    out: list[ast.Name] = []

    def visit(node, bound: frozenset):
        if isinstance(node, ast.Name):
            if isinstance(node.ctx, ast.Load) and node.id not in bound:
                out.append(node)
            return
        if isinstance(node, (ast.ListComp, ast.SetComp, ast.GeneratorExp, ast.DictComp)):
            inner = bound
            for gen in node.generators:
                visit(gen.iter, inner)
                inner = inner | {x.id for x in ast.walk(gen.target) if isinstance(x, ast.Name)}
                for cond in gen.ifs:
                    visit(cond, inner)
            if isinstance(node, ast.DictComp):
                visit(node.key, inner)
                visit(node.value, inner)
            else:
                visit(node.elt, inner)
            return
        if isinstance(node, ast.Lambda):
            for d in [*node.args.defaults, *[x for x in node.args.kw_defaults if x is not None]]:
                visit(d, bound)
            visit(node.body, bound | {x.arg for x in ast.walk(node.args) if isinstance(x, ast.arg)})
            return
        if isinstance(node, ast.NamedExpr):
            visit(node.value, bound)
            return
        for child in ast.iter_child_nodes(node):
            visit(child, bound)

    visit(e, frozenset())
    return out
