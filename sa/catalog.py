"""Catalogue of in-memory mutants and behaviour-preserving variants per property."""

from __future__ import annotations

from .selftest import Mutant

M = Mutant
DEC = "src/ampform/sympy/_decorator.py"
KPH = "src/ampform/kinematics/phasespace.py"
LOR = "src/ampform/kinematics/lorentz.py"
DYN = "src/ampform/dynamics/__init__.py"
SPIN = "src/ampform/helicity/align/_spin.py"
AXA = "src/ampform/helicity/align/axisangle.py"
DPD = "src/ampform/helicity/align/dpd.py"

SHALLOW_BODY = "    return tuple(getattr(instance, field.name) for field in _get_fields(instance))"

CATALOG: dict[str, list[Mutant]] = {
    "C14": [
        M("C14", "astuple-again", DEC, SHALLOW_BODY, "    return dataclasses.astuple(instance)", must_mention="astuple"),
        M("C14", "asdict-values", DEC, SHALLOW_BODY, "    return tuple(dataclasses.asdict(instance).values())", must_mention="asdict"),
        M("C14", "deepcopy-args", DEC, SHALLOW_BODY, "    import copy\n    return tuple(copy.deepcopy(getattr(instance, field.name)) for field in _get_fields(instance))", must_mention="deepcopy"),
        M("C14", "only-sympy-args", DEC, SHALLOW_BODY, "    return instance.args", must_mention="omit"),
        M("C14", "drop-hash-hook", DEC, "    cls._hashable_content = _hashable_content_method  # type: ignore[method-assign]\n", "", must_mention="_hashable_content"),
        M("C14", "hash-wrong-filter", DEC, "        for field in _get_fields(self)\n        if not _is_sympify(field)\n    )\n    return (*hashable_content", "        for field in _get_fields(self)\n        if _is_sympify(field)\n    )\n    return (*hashable_content"),
        M("C14", "hash-ignores-fields", DEC, "    return (*hashable_content, *remaining_content)", "    return hashable_content"),
        M("C14", "drop-xreplace-hook", DEC, "        cls._xreplace = _xreplace_method  # type: ignore[method-assign]\n", "", must_mention="_xreplace"),
        M("C14", "hooks-under-negated-guard", DEC, "    if non_sympy_fields:\n        cls._eval_subs", "    if not non_sympy_fields:\n        cls._eval_subs"),
        M("C14", "arity-boostz", LOR, "        _, gamma, gamma_beta, ones, zeros = map(printer._print, self.args)", "        gamma, gamma_beta, ones, zeros = map(printer._print, self.args)", must_mention="R-ARITY"),
        M("C14", "position-swap-roty", LOR, "        _, cos_angle, sin_angle, ones, zeros = map(printer._print, self.args)\n        return f\"\"\"array(\n            [\n                [{ones}, {zeros}, {zeros}, {zeros}],\n                [{zeros}, {cos_angle}, {zeros}, {sin_angle}]", "        _, sin_angle, cos_angle, ones, zeros = map(printer._print, self.args)\n        return f\"\"\"array(\n            [\n                [{ones}, {zeros}, {zeros}, {zeros}],\n                [{zeros}, {cos_angle}, {zeros}, {sin_angle}]", must_mention="R-ARITY"),
        M("C14", "position-swap-width", DYN, "s, m0, width0, m1, m2, angular_momentum, meson_radius = self.args", "s, m0, width0, m1, m2, meson_radius, angular_momentum = self.args", must_mention="R-ARITY"),
        M("C14", "two-definitions-threemomentum", LOR, "    def _numpycode(self, printer: NumPyPrinter, *args) -> str:\n        return printer._print(self.evaluate())\n", "    def _numpycode(self, printer: NumPyPrinter, *args) -> str:\n        p = printer._print(self.momentum)\n        return f\"{p}[:, 1:]\"\n", must_mention="R-ONEDEF"),
        M("C14", "typo-field", LOR, "        return ArraySlice(self.momentum, (slice(None), 3))", "        return ArraySlice(self.momentun, (slice(None), 3))", must_mention="R-FIELD"),
        # behaviour-preserving variants
        M("C14", "neutral-list-then-tuple", DEC, SHALLOW_BODY, "    values = [getattr(instance, f.name) for f in _get_fields(instance)]\n    return tuple(values)", expect="silent"),
        M("C14", "neutral-rename-locals", DYN, "s, m0, width0, m1, m2, angular_momentum, meson_radius = self.args", "s, m0, width0, m1, m2, L, d = self.args\n        angular_momentum, meson_radius = L, d", expect="silent"),
        M("C14", "neutral-star-unpack", LOR, "        _, gamma, gamma_beta, ones, zeros = map(printer._print, self.args)", "        _, gamma, gamma_beta, *rest = map(printer._print, self.args)\n        ones, zeros = rest", expect="silent"),
        M("C14", "neutral-print-args-evaluate", LOR, "        return printer._print(self.evaluate())\n", "        unfolded = self.evaluate()\n        return printer._print(unfolded, *args)\n", expect="silent"),
    ],
    "C15": [
        M("C15", "astuple-again", DEC, SHALLOW_BODY, "    return dataclasses.astuple(instance)", must_mention="astuple"),
        M("C15", "getnewargs-direct-astuple", DEC, "    cls.__getnewargs__ = _get_arguments", "    cls.__getnewargs__ = dataclasses.astuple", must_mention="astuple"),
        M("C15", "getnewargs-only-sympy", DEC, SHALLOW_BODY, "    return tuple(getattr(instance, field.name) for field in get_sympy_fields(instance))", must_mention="omit"),
        M("C15", "poolsum-new-not-variadic", "src/ampform/sympy/__init__.py", "        expression,\n        *indices: tuple[sp.Symbol, Iterable[sp.Basic]],\n        evaluate: bool = False,", "        expression,\n        indices: tuple = (),\n        *,\n        evaluate: bool = False,", must_mention="R-NEWARGS"),
        M("C15", "axis-sum-extra-arg", "src/ampform/sympy/_array_expressions.py", "        args = sp.sympify((array, axis))", "        args = sp.sympify((array, axis, axis))", must_mention="R-NEWARGS"),
        M("C15", "deprecated-drops-name", "src/ampform/sympy/deprecated.py", '        kwargs = {"name": self._name}', "        kwargs = {}", must_mention="__getnewargs_ex__"),
        M("C15", "model-custom-getstate", "src/ampform/helicity/__init__.py", "    def rename_symbols(", "    def __getstate__(self):\n        return {'intensity': self.intensity}\n\n    def rename_symbols(", must_mention="pickle"),
        M("C15", "neutral-list-then-tuple", DEC, SHALLOW_BODY, "    values = [getattr(instance, f.name) for f in _get_fields(instance)]\n    return tuple(values)", expect="silent"),
    ],
    "C05": [
        M("C05", "unguarded-remove-again", SPIN, "    if no_zero_spin and len(spin_projections) > 1 and 0.0 in spin_projections:", "    if no_zero_spin and len(spin_projections) > 1:", must_mention="remove(0.0)"),
        M("C05", "guard-on-other-container", SPIN, "and 0.0 in spin_projections:", "and 0.0 in [0.0]:", must_mention="remove(0.0)"),
        M("C05", "range-strict-bound", SPIN, "    while projection <= spin_magnitude_float:", "    while projection < spin_magnitude_float:", must_mention="R-RANGE"),
        M("C05", "range-step-two", SPIN, "        projection += 1\n", "        projection += 2\n", must_mention="R-RANGE"),
        M("C05", "range-start-shifted", SPIN, "    projection = Decimal(-spin_magnitude_float)", "    projection = Decimal(-spin_magnitude_float + 1)", must_mention="R-RANGE"),
        M("C05", "pool-of-other-spin", AXA, "    helicities = map(sp.Rational, create_spin_range(spin_magnitude, no_zero_spin))", "    helicities = map(sp.Rational, create_spin_range(spin_projection, no_zero_spin))", must_mention="pool-vs-j"),
        M("C05", "sum-over-wrong-index", AXA, "        (m_prime, list(helicities)),", "        (__rationalize(spin_projection), list(helicities)),", must_mention="pool-vs-j"),
        M("C05", "wigner-rotation-parent-spin", AXA, "        spin_magnitude=state.particle.spin,", "        spin_magnitude=transition.initial_states[-1].particle.spin,", must_mention="spin"),
        M("C05", "masslessness-of-other-state", AXA, "    no_zero_spin = state.particle.mass == 0.0\n", "    no_zero_spin = transition.states[0].particle.mass == 0.0\n", must_mention="no_zero_spin"),
        M("C05", "dpd-wrong-spin", DPD, "            * wigner_generator(j1, _λ1, λ1, 1, spectator_id)", "            * wigner_generator(j2, _λ1, λ1, 1, spectator_id)", must_mention="wigner_generator[1]"),
        M("C05", "dpd-wrong-state-index", DPD, "            * wigner_generator(j3, _λ3, λ3, 3, spectator_id)", "            * wigner_generator(j3, _λ3, λ3, 2, spectator_id)", must_mention="wigner_generator"),
        M("C05", "dpd-wrong-pool", DPD, "        (_λ1, outer_helicities[1]),", "        (_λ1, outer_helicities[2]),", must_mention="pool"),
        M("C05", "new-unguarded-remove", DPD, "    outer_helicities = _collect_outer_state_helicities(reaction)\n", "    outer_helicities = _collect_outer_state_helicities(reaction)\n    outer_helicities[0].remove(0)\n", must_mention="remove(0)"),
        M("C05", "neutral-try-except", SPIN, "    if no_zero_spin and len(spin_projections) > 1 and 0.0 in spin_projections:\n        spin_projections.remove(0.0)", "    if no_zero_spin and len(spin_projections) > 1:\n        try:\n            spin_projections.remove(0.0)\n        except ValueError:\n            pass", expect="silent"),
        M("C05", "neutral-local-alias", AXA, "        spin_magnitude=state.particle.spin,", "        spin_magnitude=transition.states[rotated_state_id].particle.spin,", expect="silent"),
        M("C05", "neutral-positional", AXA, "    helicities = map(sp.Rational, create_spin_range(spin_magnitude, no_zero_spin))", "    projections = create_spin_range(spin_magnitude, no_zero_spin=no_zero_spin)\n    helicities = map(sp.Rational, projections)", expect="silent"),
    ],
    "C20": [
        M("C20", "kallen-sign", KPH, "- 2 * z * x", "+ 2 * z * x", must_mention="Kallen"),
        M("C20", "kallen-coefficient", KPH, "- 2 * x * y -", "- x * y -", must_mention="Kallen"),
        M("C20", "kibble-mispaired-mass", KPH, "Kallen(sigma2, m2**2, m0**2)", "Kallen(sigma2, m3**2, m0**2)", must_mention="Kibble"),
        M("C20", "kibble-parent-mass", KPH, "Kallen(sigma3, m3**2, m0**2)", "Kallen(sigma3, m3**2, m1**2)", must_mention="Kibble"),
        M("C20", "kibble-unsquared", KPH, "Kallen(sigma1, m1**2, m0**2)", "Kallen(sigma1, m1, m0**2)", must_mention="Kibble"),
        M("C20", "third-mandelstam-sign", KPH, "- sigma1 - sigma2", "- sigma1 + sigma2", must_mention="compute_third_mandelstam"),
        M("C20", "third-mandelstam-missing-mass", KPH, "m0**2 + m1**2 + m2**2 + m3**2 - sigma1", "m0**2 + m1**2 + m2**2 - sigma1", must_mention="compute_third_mandelstam"),
        M("C20", "indicator-strict", KPH, "sp.LessThan(kibble, 0)", "sp.StrictLessThan(kibble, 0)", must_mention="is_within_phasespace"),
        M("C20", "indicator-flipped", KPH, "sp.LessThan(kibble, 0)", "sp.GreaterThan(kibble, 0)", must_mention="is_within_phasespace"),
        M("C20", "indicator-default-outside", KPH, "        (outside_value, True),", "        (sp.nan, True),", must_mention="is_within_phasespace"),
        M("C20", "indicator-swapped-sigmas", KPH, "Kibble(sigma1, sigma2, sigma3, m0, m1, m2, m3)", "Kibble(sigma2, sigma1, sigma3, m0, m1, m2, m3)", must_mention="is_within_phasespace"),
        M("C20", "indicator-swapped-masses", KPH, "sigma3 = compute_third_mandelstam(sigma1, sigma2, m0, m1, m2, m3)\n    kibble = Kibble(sigma1, sigma2, sigma3, m0, m1, m2, m3)", "sigma3 = compute_third_mandelstam(sigma1, sigma2, m0, m1, m2, m3)\n    kibble = Kibble(sigma1, sigma2, sigma3, m0, m2, m1, m3)", must_mention="is_within_phasespace"),
        M("C20", "neutral-kallen-arg-order", KPH, "Kallen(sigma2, m2**2, m0**2)", "Kallen(m0**2, sigma2, m2**2)", expect="silent"),
        M("C20", "neutral-kallen-rewritten", KPH, "return x**2 + y**2 + z**2 - 2 * x * y - 2 * y * z - 2 * z * x", "return (x - y - z) ** 2 - 4 * y * z", expect="silent"),
        M("C20", "neutral-operator-form", KPH, "sp.LessThan(kibble, 0)", "kibble <= 0", expect="silent"),
        M("C20", "neutral-ge-form", KPH, "sp.LessThan(kibble, 0)", "sp.GreaterThan(0, kibble)", expect="silent"),
        M("C20", "neutral-keyword-args", KPH, "kibble = Kibble(sigma1, sigma2, sigma3, m0, m1, m2, m3)", "kibble = Kibble(sigma1, sigma2, m0=m0, m1=m1, m2=m2, m3=m3, sigma3=sigma3)", expect="silent"),
    ],
}
