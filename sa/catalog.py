"""Catalogue of in-memory mutants and behaviour-preserving variants per property."""

from __future__ import annotations

from .selftest import Mutant

M = Mutant
DEC = "src/ampform/sympy/_decorator.py"
KPH = "src/ampform/kinematics/phasespace.py"
LOR = "src/ampform/kinematics/lorentz.py"
DYN = "src/ampform/dynamics/__init__.py"
SPIN = "src/ampform/helicity/align/_spin.py"
AXA = "src/ampform/helicity/align/axisangle.py"
DPD = "src/ampform/helicity/align/dpd.py"

SHALLOW_BODY = "    return tuple(getattr(instance, field.name) for field in _get_fields(instance))"

SYM = "src/ampform/sympy/__init__.py"
KM = "src/ampform/dynamics/kmatrix.py"
FF = "src/ampform/dynamics/form_factor.py"
BLD = "src/ampform/dynamics/builder.py"

CATALOG: dict[str, list[Mutant]] = {
    "C16": [
        M("C16", "unverified-again", SYM, "    if stored_key != key_expr:\n        return None\n", "", must_mention="R-VERIFY"),
        M("C16", "verify-inverted", SYM, "    if stored_key != key_expr:\n        return None\n", "    if stored_key == key_expr:\n        return None\n", must_mention="R-VERIFY"),
        M("C16", "verify-against-hash-only", SYM, "    if stored_key != key_expr:\n        return None\n", "    if str(stored_key) != str(filename):\n        return None\n", must_mention="R-VERIFY"),
        M("C16", "no-try-again", SYM, "    try:\n        with open(filename, \"rb\") as f:\n            cached = pickle.load(f)  # noqa: S301\n    except Exception:  # noqa: BLE001\n        return None\n", "    with open(filename, \"rb\") as f:\n        cached = pickle.load(f)  # noqa: S301\n", must_mention="R-TOLERATE"),
        M("C16", "narrow-handler", SYM, "    except Exception:  # noqa: BLE001\n        return None\n", "    except FileNotFoundError:\n        return None\n", must_mention="R-TOLERATE"),
        M("C16", "handler-only-unpickling", SYM, "    except Exception:  # noqa: BLE001\n        return None\n", "    except (OSError, pickle.UnpicklingError):\n        return None\n", must_mention="R-TOLERATE"),
        M("C16", "handler-reraises", SYM, "    except Exception:  # noqa: BLE001\n        return None\n", "    except Exception as exc:  # noqa: BLE001\n        msg = f\"corrupt cache file {filename}\"\n        raise RuntimeError(msg) from exc\n", must_mention="R-TOLERATE"),
        M("C16", "failed-load-returned-as-result", SYM, "    cached_expr = _load_cached_expression(filename, unevaluated_expr)\n    if cached_expr is not None:\n        return cached_expr\n", "    if filename.exists():\n        return _load_cached_expression(filename, unevaluated_expr)\n", must_mention="R-VERIFY"),
        M("C16", "write-in-place-again", SYM, "    fd, tmp_name = tempfile.mkstemp(dir=filename.parent, suffix=\".tmp\")\n    try:\n        with os.fdopen(fd, \"wb\") as f:\n            pickle.dump((key_expr, unfolded_expr), f)\n        os.replace(tmp_name, filename)\n    except BaseException:\n        Path(tmp_name).unlink(missing_ok=True)\n        raise\n", "    with open(filename, \"wb\") as f:\n        pickle.dump((key_expr, unfolded_expr), f)\n", must_mention="R-PUBLISH"),
        M("C16", "write-bytes-in-place", SYM, "    fd, tmp_name = tempfile.mkstemp(dir=filename.parent, suffix=\".tmp\")\n    try:\n        with os.fdopen(fd, \"wb\") as f:\n            pickle.dump((key_expr, unfolded_expr), f)\n        os.replace(tmp_name, filename)\n    except BaseException:\n        Path(tmp_name).unlink(missing_ok=True)\n        raise\n", "    filename.write_bytes(pickle.dumps((key_expr, unfolded_expr)))\n", must_mention="R-PUBLISH"),
        M("C16", "shared-temporary-name", SYM, "    fd, tmp_name = tempfile.mkstemp(dir=filename.parent, suffix=\".tmp\")\n    try:\n        with os.fdopen(fd, \"wb\") as f:", "    tmp_name = str(filename) + \".tmp\"\n    try:\n        with open(tmp_name, \"wb\") as f:", must_mention="R-PUBLISH"),
        M("C16", "rename-before-close", SYM, "            pickle.dump((key_expr, unfolded_expr), f)\n        os.replace(tmp_name, filename)\n", "            pickle.dump((key_expr, unfolded_expr), f)\n            os.replace(tmp_name, filename)\n", must_mention="R-PUBLISH"),
        M("C16", "hash-depends-on-id", "src/ampform/sympy/_cache.py", "        b = _to_bytes(obj)\n", "        b = _to_bytes(obj) + str(id(obj)).encode()\n", must_mention="R-HASHKEY"),
        M("C16", "neutral-inline-shape", SYM, "    cached_expr = _load_cached_expression(filename, unevaluated_expr)\n    if cached_expr is not None:\n        return cached_expr\n", "    try:\n        with open(filename, \"rb\") as stream:\n            stored = pickle.load(stream)\n        if isinstance(stored, tuple) and len(stored) == 2 and stored[0] == unevaluated_expr:\n            return stored[1]\n    except Exception:\n        pass\n", expect="silent"),
        M("C16", "neutral-eq-form", SYM, "    if stored_key != key_expr:\n        return None\n    return stored_expr\n", "    if key_expr == stored_key:\n        return stored_expr\n    return None\n", expect="silent"),
        M("C16", "neutral-named-tempfile", SYM, "    fd, tmp_name = tempfile.mkstemp(dir=filename.parent, suffix=\".tmp\")\n    try:\n        with os.fdopen(fd, \"wb\") as f:\n            pickle.dump((key_expr, unfolded_expr), f)\n        os.replace(tmp_name, filename)\n", "    tmp = tempfile.NamedTemporaryFile(dir=filename.parent, suffix=\".tmp\", delete=False)\n    tmp_name = tmp.name\n    try:\n        with tmp as f:\n            pickle.dump((key_expr, unfolded_expr), f)\n        Path(tmp_name).replace(filename)\n", expect="silent"),
        M("C16", "neutral-no-cache-write", SYM, "    _dump_cached_expression(filename, unevaluated_expr, unfolded_expr)\n", "", expect="silent"),
    ],
    "C09": [
        M("C09", "t-plus-i", KM, "        t_matrix = k_matrix * (sp.eye(n_channels) - sp.I * k_matrix).inv()", "        t_matrix = k_matrix * (sp.eye(n_channels) + sp.I * k_matrix).inv()", must_mention="NonRelativisticKMatrix._create_matrices"),
        M("C09", "t-no-inverse", KM, "        t_matrix = k_matrix * (sp.eye(n_channels) - sp.I * k_matrix).inv()", "        t_matrix = k_matrix * (sp.eye(n_channels) - sp.I * k_matrix)", must_mention="NonRelativisticKMatrix._create_matrices"),
        M("C09", "t-hat-rho-wrong-side", KM, "        t_hat = k_matrix * (sp.eye(n_channels) - sp.I * rho * k_matrix).inv()", "        t_hat = k_matrix * (sp.eye(n_channels) - sp.I * k_matrix * rho).inv()", must_mention="RelativisticKMatrix._create_matrices"),
        M("C09", "t-hat-missing-rho", KM, "        t_hat = k_matrix * (sp.eye(n_channels) - sp.I * rho * k_matrix).inv()", "        t_hat = k_matrix * (sp.eye(n_channels) - sp.I * k_matrix).inv()", must_mention="RelativisticKMatrix._create_matrices"),
        M("C09", "t-no-conjugate", KM, "        t_matrix = sqrt_rho_conj * t_hat * sqrt_rho\n", "        t_matrix = sqrt_rho * t_hat * sqrt_rho\n", must_mention="RelativisticKMatrix._create_matrices"),
        M("C09", "t-rho-instead-of-sqrt", KM, "        t_matrix = sqrt_rho_conj * t_hat * sqrt_rho\n", "        t_matrix = sqrt_rho_conj * t_hat * rho\n", must_mention="RelativisticKMatrix._create_matrices"),
        M("C09", "residue-asymmetric-nonrel", KM, "        g_i = residue_function(pole_id, i)\n        g_j = residue_function(pole_id, j)\n        parametrization = (g_i * g_j) / (pole_position[pole_id] ** 2 - s)\n        return sp.Sum(parametrization, (pole_id, 1, n_poles))\n\n\nclass NonRelativisticPVector", "        g_i = residue_function(pole_id, i)\n        g_j = residue_function(pole_id, i)\n        parametrization = (g_i * g_j) / (pole_position[pole_id] ** 2 - s)\n        return sp.Sum(parametrization, (pole_id, 1, n_poles))\n\n\nclass NonRelativisticPVector", must_mention="symmetric"),
        M("C09", "width-of-wrong-channel", KM, "                    gamma0=pole_width[pole_id, i],\n                    m_a=m_a[i],", "                    gamma0=pole_width[pole_id, j],\n                    m_a=m_a[i],", must_mention="symmetric"),
        M("C09", "imaginary-residue", KM, "        parametrization = (g_i * g_j) / (pole_position[pole_id] ** 2 - s)\n        return sp.Sum(parametrization, (pole_id, 1, n_poles))\n\n\nclass NonRelativisticKMatrix", "        parametrization = (g_i * g_j) / (pole_position[pole_id] ** 2 - s - sp.I * pole_width[pole_id, i] * pole_width[pole_id, j])\n        return sp.Sum(parametrization, (pole_id, 1, n_poles))\n\n\nclass NonRelativisticKMatrix", must_mention="real"),
        M("C09", "pole-sum-from-zero", KM, "        return sp.Sum(parametrization, (pole_id, 1, n_poles))\n\n\nclass NonRelativisticKMatrix", "        return sp.Sum(parametrization, (pole_id, 0, n_poles))\n\n\nclass NonRelativisticKMatrix", must_mention="pole-sum"),
        M("C09", "rho-consumer-assumption", KM, "            sp.Symbol(f\"rho{i}\"): phsp_factor(s, m_a[i], m_b[i])\n            for i in range(n_channels)\n        })\n\n    @staticmethod", "            sp.Symbol(f\"rho{i}\", real=True): phsp_factor(s, m_a[i], m_b[i])\n            for i in range(n_channels)\n        })\n\n    @staticmethod", must_mention="rho"),
        M("C09", "rho-producer-renamed", KM, "        rho_matrix[i, i] = sp.Symbol(f\"rho{i}\")", "        rho_matrix[i, i] = sp.Symbol(f\"rho_{i}\")", must_mention="rho"),
        M("C09", "transposed-substitution", KM, "            k_matrix[i, j]: cls.parametrization(\n                i=i,\n                j=j,\n                s=sp.Symbol", "            k_matrix[j, i]: cls.parametrization(\n                i=i,\n                j=i,\n                s=sp.Symbol", must_mention="R-WIRING"),
        M("C09", "mass-symbol-assumption-drift", KM, "        m_a = sp.IndexedBase(\"m_a\", nonnegative=True)\n        m_b = sp.IndexedBase(\"m_b\", nonnegative=True)\n        return t_matrix", "        m_a = sp.IndexedBase(\"m_a\", positive=True)\n        m_b = sp.IndexedBase(\"m_b\", nonnegative=True)\n        return t_matrix", must_mention="m_a"),
        M("C09", "neutral-inverse-on-left", KM, "        t_matrix = k_matrix * (sp.eye(n_channels) - sp.I * k_matrix).inv()", "        t_matrix = (sp.eye(n_channels) - sp.I * k_matrix).inv() * k_matrix", expect="silent"),
        M("C09", "neutral-push-through", KM, "        t_hat = k_matrix * (sp.eye(n_channels) - sp.I * rho * k_matrix).inv()", "        t_hat = (sp.eye(n_channels) - sp.I * k_matrix * rho).inv() * k_matrix", expect="silent"),
        M("C09", "neutral-commuted-residues", KM, "        parametrization = (g_i * g_j) / (pole_position[pole_id] ** 2 - s)\n        return sp.Sum(parametrization, (pole_id, 1, n_poles))\n\n\nclass NonRelativisticKMatrix", "        denominator = pole_position[pole_id] ** 2 - s\n        parametrization = g_j * g_i / denominator\n        return sp.Sum(parametrization, (pole_id, 1, n_poles))\n\n\nclass NonRelativisticKMatrix", expect="silent"),
        M("C09", "neutral-different-normalisation", KM, "        parametrization = (g_i * g_j) / (pole_position[pole_id] ** 2 - s)\n        return sp.Sum(parametrization, (pole_id, 1, n_poles))\n\n\nclass NonRelativisticPVector", "        parametrization = 2 * (g_i * g_j) / (pole_position[pole_id] ** 2 - s)\n        return sp.Sum(parametrization, (pole_id, 1, n_poles))\n\n\nclass NonRelativisticPVector", expect="silent"),
    ],
    "C10": [
        M("C10", "drop-phsp-again", KM, "                    meson_radius=meson_radius,\n                    phsp_factor=phsp_factor,\n                )\n                for i in range(n_channels)\n                for j in range(n_channels)\n            })\n            .xreplace({", "                    meson_radius=meson_radius,\n                )\n                for i in range(n_channels)\n                for j in range(n_channels)\n            })\n            .xreplace({", must_mention="phsp_factor"),
        M("C10", "pvector-default-radius", KM, "                    angular_momentum=angular_momentum,\n                    meson_radius=meson_radius,\n                )\n                for i in range(n_channels)\n            })", "                    angular_momentum=angular_momentum,\n                )\n                for i in range(n_channels)\n            })", must_mention="meson_radius"),
        M("C10", "kmatrix-literal-L", KM, "                angular_momentum=angular_momentum,\n                meson_radius=meson_radius,\n                phsp_factor=phsp_factor,\n            )\n            for i in range(n_channels)", "                angular_momentum=0,\n                meson_radius=meson_radius,\n                phsp_factor=phsp_factor,\n            )\n            for i in range(n_channels)", must_mention="angular_momentum"),
        M("C10", "residue-default-phsp", KM, "                    meson_radius=meson_radius,\n                    phsp_factor=phsp_factor,\n                )\n            )", "                    meson_radius=meson_radius,\n                    phsp_factor=PhaseSpaceFactor,\n                )\n            )", must_mention="phsp_factor"),
        M("C10", "width-ff-without-radius", DYN, "        ff = FormFactor(s, m1, m2, angular_momentum, meson_radius)\n", "        ff = FormFactor(s, m1, m2, angular_momentum)\n", must_mention="meson_radius"),
        M("C10", "bw-ff-drops-phsp", DYN, "        s, mass0, gamma0, m_a, m_b, angular_momentum, meson_radius, phsp_factor\n    )", "        s, mass0, gamma0, m_a, m_b, angular_momentum, meson_radius\n    )", must_mention="phsp_factor"),
        M("C10", "builder-ignores-phsp", BLD, "            phsp_factor=self.phsp_factor,  # type:ignore[arg-type]\n", "", must_mention="phsp_factor"),
        M("C10", "builder-L-of-wrong-source", BLD, "            angular_momentum=angular_momentum,\n            meson_radius=meson_radius,\n            phsp_factor=self.phsp_factor", "            angular_momentum=0,\n            meson_radius=meson_radius,\n            phsp_factor=self.phsp_factor", must_mention="angular_momentum"),
        M("C10", "formfactor-swaps-args", FF, "        ff_squared = BlattWeisskopfSquared(q2 * meson_radius**2, angular_momentum)", "        ff_squared = BlattWeisskopfSquared(q2 * meson_radius**2, meson_radius)", must_mention="angular_momentum"),
        M("C10", "f-plus-i", KM, "        f_vector = (sp.eye(n_channels) - sp.I * k_matrix).inv() * p_vector", "        f_vector = (sp.eye(n_channels) + sp.I * k_matrix).inv() * p_vector", must_mention="NonRelativisticPVector._create_matrices"),
        M("C10", "f-p-on-left", KM, "        f_vector = (sp.eye(n_channels) - sp.I * k_matrix).inv() * p_vector", "        f_vector = p_vector.T * (sp.eye(n_channels) - sp.I * k_matrix).inv()", must_mention="NonRelativisticPVector._create_matrices"),
        M("C10", "f-hat-without-rho", KM, "        f_hat = (sp.eye(n_channels) - sp.I * k_hat * rho).inv() * p_vector", "        f_hat = (sp.eye(n_channels) - sp.I * k_hat).inv() * p_vector", must_mention="RelativisticPVector._create_matrices"),
        M("C10", "k-hat-not-inverted", KM, "        k_hat = sqrt_rho_conj.inv() * k_matrix * sqrt_rho.inv()", "        k_hat = sqrt_rho_conj * k_matrix * sqrt_rho", must_mention="RelativisticPVector._create_matrices"),
        M("C10", "f-missing-sqrt-rho", KM, "        f_vector = sqrt_rho * f_hat\n", "        f_vector = f_hat\n", must_mention="RelativisticPVector._create_matrices"),
        M("C10", "pvector-uses-nonrel-k", KM, "                k_matrix[i, j]: RelativisticKMatrix.parametrization(\n                    i=i,\n                    j=j,\n                    s=s,\n                    pole_position=pole_position,\n                    pole_width=pole_width,\n                    m_a=m_a,\n                    m_b=m_b,\n                    residue_constant=residue_constant,\n                    n_poles=n_poles,\n                    pole_id=pole_id,\n                    angular_momentum=angular_momentum,\n                    meson_radius=meson_radius,\n                    phsp_factor=phsp_factor,\n                )", "                k_matrix[i, j]: NonRelativisticKMatrix.parametrization(\n                    i=i,\n                    j=j,\n                    s=s,\n                    pole_position=pole_position,\n                    pole_width=pole_width,\n                    residue_constant=residue_constant,\n                    n_poles=n_poles,\n                    pole_id=pole_id,\n                )", must_mention="R-WIRING"),
        M("C10", "pvector-own-pole-symbols", KM, "                    i=i,\n                    s=s,\n                    pole_position=pole_position,\n                    pole_width=pole_width,\n                    m_a=m_a,\n                    m_b=m_b,\n                    beta_constant", "                    i=i,\n                    s=s,\n                    pole_position=sp.IndexedBase(\"M\", nonnegative=True),\n                    pole_width=pole_width,\n                    m_a=m_a,\n                    m_b=m_b,\n                    beta_constant", must_mention="pole_position"),
        M("C10", "neutral-positional-forward", DYN, "    form_factor = FormFactor(s, m_a, m_b, angular_momentum, meson_radius)\n    energy", "    form_factor = FormFactor(s, m_a, m_b, meson_radius=meson_radius, angular_momentum=angular_momentum)\n    energy", expect="silent"),
        M("C10", "neutral-derived-forward", KM, "        f_vector, k_matrix, p_vector = cls._create_matrices(n_channels, return_f_hat)\n        if not parametrize:\n            return f_vector\n        s = sp.Symbol", "        f_vector, k_matrix, p_vector = cls._create_matrices(n_channels, return_f_hat)\n        if not parametrize:\n            return f_vector\n        meson_radius = sp.sympify(meson_radius)\n        s = sp.Symbol", expect="silent"),
        M("C10", "neutral-local-alias-phsp", BLD, "            phsp_factor=self.phsp_factor,  # type:ignore[arg-type]\n", "            phsp_factor=(rho := self.phsp_factor),\n", expect="silent"),
    ],
    "C14": [
        M("C14", "astuple-again", DEC, SHALLOW_BODY, "    return dataclasses.astuple(instance)", must_mention="astuple"),
        M("C14", "asdict-values", DEC, SHALLOW_BODY, "    return tuple(dataclasses.asdict(instance).values())", must_mention="asdict"),
        M("C14", "deepcopy-args", DEC, SHALLOW_BODY, "    import copy\n    return tuple(copy.deepcopy(getattr(instance, field.name)) for field in _get_fields(instance))", must_mention="deepcopy"),
        M("C14", "only-sympy-args", DEC, SHALLOW_BODY, "    return instance.args", must_mention="omit"),
        M("C14", "drop-hash-hook", DEC, "    cls._hashable_content = _hashable_content_method  # type: ignore[method-assign]\n", "", must_mention="_hashable_content"),
        M("C14", "hash-wrong-filter", DEC, "        for field in _get_fields(self)\n        if not _is_sympify(field)\n    )\n    return (*hashable_content", "        for field in _get_fields(self)\n        if _is_sympify(field)\n    )\n    return (*hashable_content"),
        M("C14", "hash-ignores-fields", DEC, "    return (*hashable_content, *remaining_content)", "    return hashable_content"),
        M("C14", "drop-xreplace-hook", DEC, "        cls._xreplace = _xreplace_method  # type: ignore[method-assign]\n", "", must_mention="_xreplace"),
        M("C14", "hooks-under-negated-guard", DEC, "    if non_sympy_fields:\n        cls._eval_subs", "    if not non_sympy_fields:\n        cls._eval_subs"),
        M("C14", "arity-boostz", LOR, "        _, gamma, gamma_beta, ones, zeros = map(printer._print, self.args)", "        gamma, gamma_beta, ones, zeros = map(printer._print, self.args)", must_mention="R-ARITY"),
        M("C14", "position-swap-roty", LOR, "        _, cos_angle, sin_angle, ones, zeros = map(printer._print, self.args)\n        return f\"\"\"array(\n            [\n                [{ones}, {zeros}, {zeros}, {zeros}],\n                [{zeros}, {cos_angle}, {zeros}, {sin_angle}]", "        _, sin_angle, cos_angle, ones, zeros = map(printer._print, self.args)\n        return f\"\"\"array(\n            [\n                [{ones}, {zeros}, {zeros}, {zeros}],\n                [{zeros}, {cos_angle}, {zeros}, {sin_angle}]", must_mention="R-ARITY"),
        M("C14", "position-swap-width", DYN, "s, m0, width0, m1, m2, angular_momentum, meson_radius = self.args", "s, m0, width0, m1, m2, meson_radius, angular_momentum = self.args", must_mention="R-ARITY"),
        M("C14", "two-definitions-threemomentum", LOR, "    def _numpycode(self, printer: NumPyPrinter, *args) -> str:\n        return printer._print(self.evaluate())\n", "    def _numpycode(self, printer: NumPyPrinter, *args) -> str:\n        p = printer._print(self.momentum)\n        return f\"{p}[:, 1:]\"\n", must_mention="R-ONEDEF"),
        M("C14", "typo-field", LOR, "        return ArraySlice(self.momentum, (slice(None), 3))", "        return ArraySlice(self.momentun, (slice(None), 3))", must_mention="R-FIELD"),
        # behaviour-preserving variants
        M("C14", "neutral-list-then-tuple", DEC, SHALLOW_BODY, "    values = [getattr(instance, f.name) for f in _get_fields(instance)]\n    return tuple(values)", expect="silent"),
        M("C14", "neutral-rename-locals", DYN, "s, m0, width0, m1, m2, angular_momentum, meson_radius = self.args", "s, m0, width0, m1, m2, L, d = self.args\n        angular_momentum, meson_radius = L, d", expect="silent"),
        M("C14", "neutral-star-unpack", LOR, "        _, gamma, gamma_beta, ones, zeros = map(printer._print, self.args)", "        _, gamma, gamma_beta, *rest = map(printer._print, self.args)\n        ones, zeros = rest", expect="silent"),
        M("C14", "neutral-print-args-evaluate", LOR, "        return printer._print(self.evaluate())\n", "        unfolded = self.evaluate()\n        return printer._print(unfolded, *args)\n", expect="silent"),
    ],
    "C15": [
        M("C15", "astuple-again", DEC, SHALLOW_BODY, "    return dataclasses.astuple(instance)", must_mention="astuple"),
        M("C15", "getnewargs-direct-astuple", DEC, "    cls.__getnewargs__ = _get_arguments", "    cls.__getnewargs__ = dataclasses.astuple", must_mention="astuple"),
        M("C15", "getnewargs-only-sympy", DEC, SHALLOW_BODY, "    return tuple(getattr(instance, field.name) for field in get_sympy_fields(instance))", must_mention="omit"),
        M("C15", "poolsum-new-not-variadic", "src/ampform/sympy/__init__.py", "        expression,\n        *indices: tuple[sp.Symbol, Iterable[sp.Basic]],\n        evaluate: bool = False,", "        expression,\n        indices: tuple = (),\n        *,\n        evaluate: bool = False,", must_mention="R-NEWARGS"),
        M("C15", "axis-sum-extra-arg", "src/ampform/sympy/_array_expressions.py", "        args = sp.sympify((array, axis))", "        args = sp.sympify((array, axis, axis))", must_mention="R-NEWARGS"),
        M("C15", "deprecated-drops-name", "src/ampform/sympy/deprecated.py", '        kwargs = {"name": self._name}', "        kwargs = {}", must_mention="__getnewargs_ex__"),
        M("C15", "model-custom-getstate", "src/ampform/helicity/__init__.py", "    def rename_symbols(", "    def __getstate__(self):\n        return {'intensity': self.intensity}\n\n    def rename_symbols(", must_mention="pickle"),
        M("C15", "neutral-list-then-tuple", DEC, SHALLOW_BODY, "    values = [getattr(instance, f.name) for f in _get_fields(instance)]\n    return tuple(values)", expect="silent"),
    ],
    "C05": [
        M("C05", "unguarded-remove-again", SPIN, "    if no_zero_spin and len(spin_projections) > 1 and 0.0 in spin_projections:", "    if no_zero_spin and len(spin_projections) > 1:", must_mention="remove(0.0)"),
        M("C05", "guard-on-other-container", SPIN, "and 0.0 in spin_projections:", "and 0.0 in [0.0]:", must_mention="remove(0.0)"),
        M("C05", "range-strict-bound", SPIN, "    while projection <= spin_magnitude_float:", "    while projection < spin_magnitude_float:", must_mention="R-RANGE"),
        M("C05", "range-step-two", SPIN, "        projection += 1\n", "        projection += 2\n", must_mention="R-RANGE"),
        M("C05", "range-start-shifted", SPIN, "    projection = Decimal(-spin_magnitude_float)", "    projection = Decimal(-spin_magnitude_float + 1)", must_mention="R-RANGE"),
        M("C05", "pool-of-other-spin", AXA, "    helicities = map(sp.Rational, create_spin_range(spin_magnitude, no_zero_spin))", "    helicities = map(sp.Rational, create_spin_range(spin_projection, no_zero_spin))", must_mention="pool-vs-j"),
        M("C05", "sum-over-wrong-index", AXA, "        (m_prime, list(helicities)),", "        (__rationalize(spin_projection), list(helicities)),", must_mention="pool-vs-j"),
        M("C05", "wigner-rotation-parent-spin", AXA, "        spin_magnitude=state.particle.spin,", "        spin_magnitude=transition.initial_states[-1].particle.spin,", must_mention="spin"),
        M("C05", "masslessness-of-other-state", AXA, "    no_zero_spin = state.particle.mass == 0.0\n", "    no_zero_spin = transition.states[0].particle.mass == 0.0\n", must_mention="no_zero_spin"),
        M("C05", "dpd-wrong-spin", DPD, "            * wigner_generator(j1, _λ1, λ1, 1, spectator_id)", "            * wigner_generator(j2, _λ1, λ1, 1, spectator_id)", must_mention="wigner_generator[1]"),
        M("C05", "dpd-wrong-state-index", DPD, "            * wigner_generator(j3, _λ3, λ3, 3, spectator_id)", "            * wigner_generator(j3, _λ3, λ3, 2, spectator_id)", must_mention="wigner_generator"),
        M("C05", "dpd-wrong-pool", DPD, "        (_λ1, outer_helicities[1]),", "        (_λ1, outer_helicities[2]),", must_mention="pool"),
        M("C05", "new-unguarded-remove", DPD, "    outer_helicities = _collect_outer_state_helicities(reaction)\n", "    outer_helicities = _collect_outer_state_helicities(reaction)\n    outer_helicities[0].remove(0)\n", must_mention="remove(0)"),
        M("C05", "neutral-try-except", SPIN, "    if no_zero_spin and len(spin_projections) > 1 and 0.0 in spin_projections:\n        spin_projections.remove(0.0)", "    if no_zero_spin and len(spin_projections) > 1:\n        try:\n            spin_projections.remove(0.0)\n        except ValueError:\n            pass", expect="silent"),
        M("C05", "neutral-local-alias", AXA, "        spin_magnitude=state.particle.spin,", "        spin_magnitude=transition.states[rotated_state_id].particle.spin,", expect="silent"),
        M("C05", "neutral-positional", AXA, "    helicities = map(sp.Rational, create_spin_range(spin_magnitude, no_zero_spin))", "    projections = create_spin_range(spin_magnitude, no_zero_spin=no_zero_spin)\n    helicities = map(sp.Rational, projections)", expect="silent"),
    ],
    "C20": [
        M("C20", "kallen-sign", KPH, "- 2 * z * x", "+ 2 * z * x", must_mention="Kallen"),
        M("C20", "kallen-coefficient", KPH, "- 2 * x * y -", "- x * y -", must_mention="Kallen"),
        M("C20", "kibble-mispaired-mass", KPH, "Kallen(sigma2, m2**2, m0**2)", "Kallen(sigma2, m3**2, m0**2)", must_mention="Kibble"),
        M("C20", "kibble-parent-mass", KPH, "Kallen(sigma3, m3**2, m0**2)", "Kallen(sigma3, m3**2, m1**2)", must_mention="Kibble"),
        M("C20", "kibble-unsquared", KPH, "Kallen(sigma1, m1**2, m0**2)", "Kallen(sigma1, m1, m0**2)", must_mention="Kibble"),
        M("C20", "third-mandelstam-sign", KPH, "- sigma1 - sigma2", "- sigma1 + sigma2", must_mention="compute_third_mandelstam"),
        M("C20", "third-mandelstam-missing-mass", KPH, "m0**2 + m1**2 + m2**2 + m3**2 - sigma1", "m0**2 + m1**2 + m2**2 - sigma1", must_mention="compute_third_mandelstam"),
        M("C20", "indicator-strict", KPH, "sp.LessThan(kibble, 0)", "sp.StrictLessThan(kibble, 0)", must_mention="is_within_phasespace"),
        M("C20", "indicator-flipped", KPH, "sp.LessThan(kibble, 0)", "sp.GreaterThan(kibble, 0)", must_mention="is_within_phasespace"),
        M("C20", "indicator-default-outside", KPH, "        (outside_value, True),", "        (sp.nan, True),", must_mention="is_within_phasespace"),
        M("C20", "indicator-swapped-sigmas", KPH, "Kibble(sigma1, sigma2, sigma3, m0, m1, m2, m3)", "Kibble(sigma2, sigma1, sigma3, m0, m1, m2, m3)", must_mention="is_within_phasespace"),
        M("C20", "indicator-swapped-masses", KPH, "sigma3 = compute_third_mandelstam(sigma1, sigma2, m0, m1, m2, m3)\n    kibble = Kibble(sigma1, sigma2, sigma3, m0, m1, m2, m3)", "sigma3 = compute_third_mandelstam(sigma1, sigma2, m0, m1, m2, m3)\n    kibble = Kibble(sigma1, sigma2, sigma3, m0, m2, m1, m3)", must_mention="is_within_phasespace"),
        M("C20", "neutral-kallen-arg-order", KPH, "Kallen(sigma2, m2**2, m0**2)", "Kallen(m0**2, sigma2, m2**2)", expect="silent"),
        M("C20", "neutral-kallen-rewritten", KPH, "return x**2 + y**2 + z**2 - 2 * x * y - 2 * y * z - 2 * z * x", "return (x - y - z) ** 2 - 4 * y * z", expect="silent"),
        M("C20", "neutral-operator-form", KPH, "sp.LessThan(kibble, 0)", "kibble <= 0", expect="silent"),
        M("C20", "neutral-ge-form", KPH, "sp.LessThan(kibble, 0)", "sp.GreaterThan(0, kibble)", expect="silent"),
        M("C20", "neutral-keyword-args", KPH, "kibble = Kibble(sigma1, sigma2, sigma3, m0, m1, m2, m3)", "kibble = Kibble(sigma1, sigma2, m0=m0, m1=m1, m2=m2, m3=m3, sigma3=sigma3)", expect="silent"),
    ],
}
