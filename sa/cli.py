"""Entry point: ``python -m sa.cli <ID> [--tier quick|thorough] [--replay path]``."""

from __future__ import annotations

import argparse
import importlib
import json
import sys
import traceback

from .loader import AnalysisError, Tree
from .report import Check, env_seed, env_tier

ALL = [f"C{i:02d}" for i in range(1, 21)]


def run_property(pid: str, tier: str, seed: int, tree: Tree | None = None, *, quiet=False, write=True) -> tuple[int, Check]:
    ctx = Check(pid=pid, tier=tier, seed=seed, quiet=quiet, write=write)
    try:
        mod = importlib.import_module(f"sa.props.{pid.lower()}")
    except ModuleNotFoundError:
        return ctx.finish(analysis_error=f"no checker implemented for {pid}"), ctx
    try:
        if tree is None:
            tree = Tree.from_repo()
        ctx.stats["modules"] = tree.digest()
        mod.run(ctx, tree)
        if tier == "thorough":
            if hasattr(mod, "run_thorough"):
                mod.run_thorough(ctx, tree)
            from .catalog import CATALOG
            from .selftest import thorough

            thorough(ctx, tree, CATALOG.get(pid, []))
        return ctx.finish(), ctx
    except AnalysisError as exc:
        return ctx.finish(analysis_error=str(exc)), ctx
    except Exception as exc:  # noqa: BLE001
        tb = traceback.format_exc(limit=6)
        return ctx.finish(analysis_error=f"internal error: {exc!r}\n{tb}"), ctx


def main(argv: list[str] | None = None) -> int:
    parser = argparse.ArgumentParser(prog="check")
    parser.add_argument("pid", help="property id C01..C20 or 'all'")
    parser.add_argument("--tier", default=env_tier(), choices=["quick", "thorough"])
    parser.add_argument("--replay", default=None, help="replay file written by an earlier run")
    parser.add_argument("--no-write", action="store_true", help="do not write evidence (self-test use)")
    args = parser.parse_args(argv)
    seed = env_seed()
    pids = ALL if args.pid.lower() == "all" else [args.pid.upper()]
    worst = 0
    for pid in pids:
        if args.replay:
            return replay(pid, args.replay, args.tier, seed)
        code, _ = run_property(pid, args.tier, seed, write=not args.no_write)
        worst = max(worst, code)
    return worst


def replay(pid: str, path: str, tier: str, seed: int) -> int:
    """Re-evaluate the rule instance recorded in a replay file on the current tree."""
    with open(path) as f:
        rec = json.load(f)
    code, ctx = run_property(rec.get("property", pid), tier, seed, quiet=True, write=False)
    hits = [i for i in ctx.instances if i.rule == rec["rule"] and i.key == rec["key"] and i.verdict in {"violation", "known"}]
    print(f"replay {path}: rule={rec['rule']} key={rec['key']}")
    if hits:
        for inst in hits:
            print(f"  STILL VIOLATED at {inst.where}: {inst.what}")
            print(f"  detail: {json.dumps(inst.detail, default=str)[:2000]}")
            print(f"VIOLATION property={rec.get('property', pid)} replay={path}")
        return 1
    print("  not reproduced on the current tree (construct repaired or gone)")
    return 0 if code != 2 else 2


if __name__ == "__main__":
    sys.exit(main())
