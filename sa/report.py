"""E6 - obligations, violations, known findings, evidence and replay files."""

from __future__ import annotations

import hashlib
import json
import os
import time
from dataclasses import dataclass, field
from pathlib import Path
from typing import Any

VERIF = Path(__file__).resolve().parent.parent
EVIDENCE_DIR = VERIF / "evidence"
KNOWN_FINDINGS = VERIF / "known_findings.json"


@dataclass
class Instance:
    rule: str
    where: str  # file:line
    what: str  # construct, normalised
    verdict: str  # "ok" | "violation" | "known" | "advisory" | "info"
    detail: Any = None
    key: str = ""


@dataclass
class Check:
    """Collects what one run of one property's checker analysed and concluded."""

    pid: str
    tier: str = "quick"
    seed: int = 0
    quiet: bool = False
    write: bool = True
    instances: list[Instance] = field(default_factory=list)
    assumptions: list[str] = field(default_factory=list)
    not_decided: list[str] = field(default_factory=list)
    decided: list[str] = field(default_factory=list)
    stats: dict[str, Any] = field(default_factory=dict)
    t0: float = field(default_factory=time.time)
    _known: list[dict] | None = None
    soft_errors: list[str] = field(default_factory=list)

    def section(self, fn, *args, **kwargs):
        """Run one independent group of rules; an AnalysisError there is recorded and the
        other groups still run (so that one unknown shape does not hide violations)."""
        from .loader import AnalysisError

        try:
            return fn(*args, **kwargs)
        except AnalysisError as exc:
            self.soft_errors.append(f"{getattr(fn, '__name__', 'section')}: {exc}")
            return None

    # ------------------------------------------------------------------ record
    def ok(self, rule: str, where: str, what: str, detail: Any = None) -> None:
        self.instances.append(Instance(rule, where, what, "ok", detail))

    def info(self, rule: str, where: str, what: str, detail: Any = None) -> None:
        self.instances.append(Instance(rule, where, what, "info", detail))

    def advisory(self, rule: str, where: str, what: str, detail: Any = None) -> None:
        self.instances.append(Instance(rule, where, what, "advisory", detail))

    def violation(self, rule: str, key: str, where: str, what: str, detail: Any = None) -> None:
        """``key`` identifies the construct (module::qualname::normalised statement +
        discriminator) - never a line number."""
        verdict = "violation"
        for entry in self.known():
            if (
                entry.get("status") == "known"
                and entry.get("property") == self.pid
                and entry.get("rule") == rule
                and entry.get("key") == key
            ):
                verdict = "known"
                detail = {"finding": entry.get("what"), "detail": detail}
        self.instances.append(Instance(rule, where, what, verdict, detail, key))

    def verdict(self, cond: bool, rule: str, key: str, where: str, what: str, detail: Any = None) -> bool:
        if cond:
            self.ok(rule, where, what, detail)
        else:
            self.violation(rule, key, where, what, detail)
        return cond

    def known(self) -> list[dict]:
        if self._known is None:
            try:
                self._known = json.loads(KNOWN_FINDINGS.read_text())["findings"]
            except FileNotFoundError:
                self._known = []
        return self._known

    # ------------------------------------------------------------------ finish
    @property
    def violations(self) -> list[Instance]:
        return [i for i in self.instances if i.verdict == "violation"]

    @property
    def known_hits(self) -> list[Instance]:
        return [i for i in self.instances if i.verdict == "known"]

    def finish(self, analysis_error: str | None = None) -> int:
        wall = time.time() - self.t0
        if self.soft_errors:
            analysis_error = "; ".join([*( [analysis_error] if analysis_error else []), *self.soft_errors])
        self.analysis_error = analysis_error  # the reason of an exit 2, for tools that run checks in memory
        lines: list[str] = []
        replay_paths: list[str] = []
        for inst in self.known_hits:
            lines.append(
                f"KNOWN-FINDING: property={self.pid} rule={inst.rule} {inst.where} {inst.what}"
                f" -- {inst.detail.get('finding') if isinstance(inst.detail, dict) else ''}"
            )
        for inst in self.violations:
            path = self._write_replay(inst)
            replay_paths.append(path)
            lines.append(f"{inst.where}: [{inst.rule}] {inst.what}")
            if inst.detail is not None:
                lines.append(f"    detail: {_short(inst.detail)}")
            lines.append(f"VIOLATION property={self.pid} replay={path}")
        for inst in self.instances:
            if inst.verdict == "advisory" and not self.quiet:
                lines.append(f"ADVISORY property={self.pid} [{inst.rule}] {inst.where} {inst.what}")
        if analysis_error:
            lines.append(f"ANALYSIS-ERROR property={self.pid} {analysis_error}")
        if self.write:
            self._write_evidence(wall, analysis_error)
        n_ok = sum(i.verdict == "ok" for i in self.instances)
        lines.append(
            f"{self.pid} [{self.tier}] instances={len(self.obligations())} ok={n_ok}"
            f" known={len(self.known_hits)} violations={len(self.violations)}"
            f" advisories={sum(i.verdict == 'advisory' for i in self.instances)} wall={wall:.2f}s"
        )
        if not self.quiet:
            print("\n".join(lines))
        if self.violations:
            return 1
        return 2 if analysis_error else 0

    def obligations(self) -> list[Instance]:
        return [i for i in self.instances if i.verdict in {"ok", "violation", "known"}]

    def _write_replay(self, inst: Instance) -> str:
        digest = hashlib.sha256(f"{inst.rule}|{inst.key}".encode()).hexdigest()[:12]
        path = EVIDENCE_DIR / "replay" / f"{self.pid}-{digest}.json"
        if self.write:
            path.parent.mkdir(parents=True, exist_ok=True)
            path.write_text(
                json.dumps(
                    {
                        "property": self.pid,
                        "rule": inst.rule,
                        "key": inst.key,
                        "where": inst.where,
                        "construct": inst.what,
                        "detail": inst.detail,
                        "replay": f"./check {self.pid} --replay {path}",
                    },
                    indent=1,
                    default=str,
                )
                + "\n"
            )
        return str(path)

    def _write_evidence(self, wall: float, analysis_error: str | None) -> None:
        EVIDENCE_DIR.mkdir(parents=True, exist_ok=True)
        obligations = self.obligations()
        samples = [
            {"rule": i.rule, "where": i.where, "construct": i.what, "verdict": i.verdict, **({"detail": i.detail} if i.detail is not None and i.verdict != "ok" else {})}
            for i in self.instances
            if i.verdict != "info"
        ]
        distinct = len({(i.rule, i.where, i.what) for i in obligations})
        rules = sorted({i.rule for i in self.instances})
        explanation = (
            "Static analysis of /repo sources (ast; nothing imported or executed). "
            "DECIDED structurally: " + " | ".join(self.decided or ["(see samples)"]) + ". "
            "NOT DECIDED (numerical / runtime behaviour): " + " | ".join(self.not_decided or ["-"]) + "."
        )
        evidence = {
            "property_id": self.pid,
            "tier": self.tier if self.tier in {"quick", "thorough"} else "quick",
            "seed": self.seed,
            "level": "other",
            "coverage": {
                "explanation": explanation,
                "obligations": len(obligations),
                "discharged": sum(i.verdict in {"ok", "known"} for i in obligations),
                "evaluations": len(self.instances),
                "distinct_nontrivial": distinct,
                "rule": "one case = one rule instance (rule id + construct located in the current tree); "
                "non-trivial = the rule's premise matched a real construct and a verdict (ok/violation/known) was computed; rules: "
                + ", ".join(rules),
                "samples": samples[:400],
                "stats": self.stats,
                "exhaustive": True,
            },
            "assumptions": self.assumptions,
            "wall_s": round(wall, 3),
            "violations": len(self.violations),
            "known_findings": [
                {"rule": i.rule, "key": i.key, "where": i.where} for i in self.known_hits
            ],
        }
        if analysis_error:
            evidence["analysis_error"] = analysis_error
        (EVIDENCE_DIR / f"{self.pid}.json").write_text(json.dumps(evidence, indent=1, default=str) + "\n")


def _short(obj: Any, limit: int = 600) -> str:
    s = obj if isinstance(obj, str) else json.dumps(obj, default=str)
    return s if len(s) <= limit else s[: limit - 3] + "..."


def env_tier(default: str = "quick") -> str:
    return os.environ.get("VERIF_TIER", default)


def env_seed() -> int:
    try:
        return int(os.environ.get("VERIF_SEED", "0"))
    except ValueError:
        return 0
