"""E9 - symbolic execution of one function into structural terms (values are nested tuples).

The rules of several properties describe what a function COMPUTES ("the summand is the product of
the amplitude base and one rotation per outer state"), but used to read off HOW it is spelled (one
expression, fixed argument positions, literal index tuples).  ``SymEx`` runs a function body on
symbolic arguments and hands the rule the computed values, so that behaviour-preserving spellings
give the same value:

* temporaries, tuple unpacking (``a, b = f()`` -> ``item(f(), 0)``, ``item(f(), 1)``, also in front of a star: ``a, b, *_ = f()``; the unpacking also
  proves the length of the value, which later lets ``enumerate(v)`` / ``for x in v`` / ``base[v]`` unroll),
* helper functions: nested functions, methods reached through ``self`` and functions of the same module
  are inlined (the rule names the functions it wants to see as opaque atoms); arguments are bound to the
  callee's parameters, so keyword and positional calls give the same value,
* loops over a known sequence (a literal table, ``enumerate`` / ``zip`` / ``range`` of one) are unrolled;
  a loop or comprehension over an unknown iterable is executed once on a generic element
  ``("each", iterable, n)``: what it appends to an accumulator becomes ``("foreach", each, item)``,
* ``if`` on a symbolic test runs both arms; values that differ afterwards become ``("phi", ...)``, things
  that are appended / yielded / returned / stored carry the path condition (``("when", pc, item)``),
* ``while`` loops and other loop-carried names: the value at the loop head is ``("carried", name, n)``;
  ``LoopInfo`` records initial value, value at the end of the body and the loop test, and
  ``refine`` proves relational invariants of the form ``v == G(w)`` by induction (initially true,
  preserved by the body) and substitutes them.

* calls of function VALUES (``SymEx.apply``): lambdas (closures), ``functools.partial`` objects, bound methods and
  callable instances of package classes, ``operator.attrgetter`` / ``itemgetter`` / ``methodcaller``; parameters are
  bound by name, ``*args`` / ``**kwargs`` parameters receive the remaining arguments as a tuple / dict, ``**shared`` of a
  known dict is spread into keywords,
* closures (nested functions, lambdas) read and modify the variables of the RUNNING activation of their definer, also
  when they are called from somewhere else (handed to a helper, held by a ``partial``); ``SymEx(inline_cached=True)``
  also executes the body of ``@cache`` functions (the value of a call does not depend on the memoisation),
  a nested function that outlives its definer (returned, stored) keeps the variables of that activation (``escaped``);
  a name that is bound nowhere the executor can see is ``unknown`` - never a made-up global,
* evaluation on a small CONCRETE instance: ``SymEx(stubs={call / attribute value: value}, unroll=n)`` replaces calls of
  atoms by concrete data (a chain of distinct ``("sym", name)`` ids, a table of parents) and then executes `while` loops
  with a decided test, recursive functions, and in-place list operations (``remove`` / ``reverse`` / ``pop`` / ``index`` /
  ``insert`` / ``xs[i] = v`` / ``del xs[i]``) element by element - loop, recursion, queue and generator spellings of one
  computation give the same value on the instance,
* module-level constants: a name bound once to a number / text literal is that literal (``_X, _Y, _Z = 1, 2, 3``); a
  tuple of literals keeps its name (``module_constant``) and is expanded when iterated / unpacked; classmethods and
  static methods of private helper classes of the module are inlined, ``NamedTuple._asdict()`` / ``_fields`` are known,
* ``first, *middle, last = xs`` of a sequence that is not known element by element gives subscripts / a slice of it;
  ``d.setdefault(k, v)``, ``d |= other``, ``d.update(other)``, ``d[k] = v`` modify the dict object wherever it is bound;
  a container that grows records a ``("grow", pc, name, item)`` event (order of effects relative to calls),
* combinators that only re-spell a loop: ``map`` / ``filter`` / ``itertools.starmap`` (= the comprehension),
  ``itertools.product`` of known sequences, a nested comprehension whose inner loop only passes its elements on (= ``*xs``),
  ``itertools.chain`` / ``chain.from_iterable`` (= ``extend`` in a loop), ``sum(xs, start)`` / ``functools.reduce`` /
  ``math.prod`` and an accumulation loop ``acc = f(acc, x)`` over an unknown iterable all give
  ``("fold", eaches, init, step, head)`` (``addends`` / ``factors`` read sums and products in any of these spellings,
  ``as_number`` reads ``1`` / ``sp.Integer(1)`` / ``sp.S.One``),
* objects: ``Cls(...)`` of a package class binds the constructor arguments (``__init__`` or the fields of an attrs /
  dataclass / NamedTuple class, ``ctor_fields``); ``obj.attr`` of such an object is the value the constructor gave it
  (``object_attr``); methods of an object constructed in the analysed function are inlined like functions of the module,
* mutable containers handed to an inlined callee (also inside a ``partial``) and modified there in place are seen by
  everything that holds the identical object (accumulator passed down instead of returned and merged); lists, sets and
  dicts that grow inside a generic loop (also through a callee) get ``foreach`` items,
* text: f-strings, ``+`` concatenation, ``"sep".join([...])``, ``"{}{name}".format(a, name=b)``, ``"%s%s" % (a, b)`` and
  ``str(x)`` give the same ``("fstr", parts)``,
* in-place ``remove`` / ``discard`` / ``reverse`` / ``sort`` of a sequence that is not known element by element give
  ``("seqop", op, sequence, args)``,
* ``decision_table`` turns a value that depends on conditions into a function of its atomic tests (guard clauses,
  De Morgan, swapped branches give the same table); ``not_followed`` says whether a value is completely expressed in
  known building blocks - the premise for reporting a violation rather than "cannot decide",
* iteration over a COLLECTED iteration is the iteration itself (``flatten_each``): an element of a list that a
  comprehension / generator function / accumulator loop produced ranges over what that comprehension ranged over (with its
  filters); ``free_eaches`` lists the generic elements a value depends on that no ``foreach`` / ``fold`` inside it binds.

Value grammar (all tuples, hashable):
  ("const", v) ("param", name) ("global", dotted-or-qualname) ("builtin", name) ("localfunc", qual)
  ("call", f, args, kwargs) ("attr", base, name) ("sub", base, index) ("item", iterable, k)
  ("tuple", items) ("list", items) ("set", items) ("dict", ((k, v), ...)) ("star", v)
  ("mul", factors) ("binop", op, l, r) ("unop", op, v) ("cmp", op, l, r) ("and"|"or", items) ("not", v)
  ("fstr", parts) ("phi", ((pc, v), ...)) ("when", pc, v) ("each", iterable, n) ("foreach", each, v)
  ("carried", name, n) ("sym", name) ("unknown", n, why) ("fold", eaches, init, step, head) ("partial", f, args, kwargs)
  ("lambda", text, n) ("getter", kind, what) ("seqop", op, sequence, args) ("carried-out", name, n)
where a path condition ``pc`` is a tuple of ``(test value in positive normal form, outcome)``.

Nothing of the analysed code is executed.  Whatever the executor cannot model becomes an
``("unknown", ...)`` value and is listed in ``SymEx.imprecise``: a rule that needs the value fails closed.
"""

from __future__ import annotations

import ast
from dataclasses import dataclass, field

from .loader import AnalysisError, FuncInfo, Tree, unparse

NONE = ("const", None)
LIST_MUTATORS = {"append", "extend", "insert"}
BIN = {ast.Add: "+", ast.Sub: "-", ast.Mult: "*", ast.Div: "/", ast.FloorDiv: "//", ast.Mod: "%", ast.Pow: "**", ast.MatMult: "@",
       ast.BitOr: "|", ast.BitAnd: "&", ast.BitXor: "^", ast.LShift: "<<", ast.RShift: ">>"}
CMP = {ast.Eq: "==", ast.NotEq: "!=", ast.Lt: "<", ast.LtE: "<=", ast.Gt: ">", ast.GtE: ">=", ast.Is: "is", ast.IsNot: "is not", ast.In: "in", ast.NotIn: "not in"}
NEG = {"!=": "==", "is not": "is", "not in": "in"}


class Undecided(AnalysisError):
    pass


# ---------------------------------------------------------------------------- value helpers
def is_const(v, *types) -> bool:
    return isinstance(v, tuple) and len(v) == 2 and v[0] == "const" and (not types or (isinstance(v[1], types) and not (isinstance(v[1], bool) and bool not in types)))


def subterms(v):
    """All sub-values of ``v`` (pre-order), including ``v``."""
    todo = [v]
    while todo:
        x = todo.pop()
        if isinstance(x, tuple):
            if x and isinstance(x[0], str):
                yield x
            todo.extend(reversed([y for y in x if isinstance(y, tuple)]))


def contains(v, sub) -> bool:
    return any(x == sub for x in subterms(v))


def subst(v, mapping: dict):
    """Replace sub-values by ``mapping`` (outermost first)."""
    if not mapping:
        return v
    if isinstance(v, tuple):
        if v in mapping:
            return mapping[v]
        return tuple(subst(x, mapping) for x in v)
    return v


def strip_when(v):
    """(path conditions, value) of a possibly conditional item."""
    pcs = ()
    while isinstance(v, tuple) and v and v[0] == "when":
        pcs += v[1]
        v = v[2]
    return pcs, v


def alternatives(v, pc=()):
    """Flatten phi / when values into ``[(path condition, plain value)]``."""
    if isinstance(v, tuple) and v and v[0] == "phi":
        out = []
        for p, x in v[1]:
            out += alternatives(x, pc + p)
        return out
    if isinstance(v, tuple) and v and v[0] == "when":
        return alternatives(v[2], pc + v[1])
    return [(pc, v)]


def cases(v, limit: int = 64):
    """Distribute phi values that occur anywhere inside ``v``: ``[(path condition, value without phi)]``;
    combinations with contradictory conditions are dropped."""
    out = [((), v)]
    changed = True
    while changed:
        changed = False
        new = []
        for pc, x in out:
            phi = next((t for t in subterms(x) if t[0] == "phi"), None)
            if phi is None:
                new.append((pc, x))
                continue
            changed = True
            for p, alt in phi[1]:
                if not any((t, not o) in pc for t, o in p):
                    new.append((pc + tuple(c for c in p if c not in pc), subst(x, {phi: alt})))
        out = new
        if len(out) > limit:
            raise Undecided(f"more than {limit} combinations of conditional values")
    return out


def calls_of(v, suffix: str):
    """Sub-values that are calls of a function whose (qualified) name ends with ``suffix``."""
    return [x for x in subterms(v) if x[0] == "call" and func_name(x).endswith(suffix)]


def func_name(call) -> str:
    f = call[1]
    if f[0] in {"global", "builtin", "localfunc"}:
        return f[1]
    if f[0] == "method":
        return f[1]
    if f[0] == "attr":
        return "." + f[2]
    return ""


_NUMBER_GLOBALS = {"sympy.S.Zero": 0, "sympy.S.One": 1, "sympy.S.NegativeOne": -1, "sympy.S.Half": 0.5}


def as_number(v):
    """The number a value denotes, however it is spelled (``1``, ``sp.Integer(1)``, ``sp.Rational(1)``, ``sp.S.One``,
    ``sp.sympify(1)``, ``-sp.S.One``), else None."""
    if is_const(v, int, float):
        return v[1]
    if isinstance(v, tuple) and v:
        if v[0] == "global" and v[1] in _NUMBER_GLOBALS:
            return _NUMBER_GLOBALS[v[1]]
        if v[0] == "call" and v[1][0] in {"global", "builtin"} and not v[3] and v[1][1] in {
                "sympy.Integer", "sympy.Rational", "sympy.Float", "sympy.S", "sympy.sympify", "sympy.Number", "decimal.Decimal", "fractions.Fraction", "float", "int"}:
            nums = [as_number(a) for a in v[2]]
            if len(v[2]) == 1 and is_const(v[2][0], str):
                try:
                    nums = [float(v[2][0][1])]  # Decimal("0.0"), Rational("1/2") is not handled
                except ValueError:
                    nums = [None]
            if len(nums) == 1 and nums[0] is not None:
                return nums[0]
            if len(nums) == 2 and v[1][1] == "sympy.Rational" and None not in nums and nums[1]:
                return nums[0] / nums[1]
        if v[0] == "unop" and v[1] == "-":
            n = as_number(v[2])
            return -n if n is not None else None
    return None


def not_followed(v, known: tuple = (), package: str = "ampform") -> str | None:
    """Why a value is NOT completely expressed in known building blocks (None if it is): it contains something the
    executor could not follow (``unknown`` / loop-carried values / a function value that was never applied / a default
    that is not a literal), or a call of a function of the analysed package that is not one of ``known`` (qualified
    names or name suffixes whose meaning the rule knows) - its result could be anything.  A rule may report a
    violation only for values that ARE completely followed; everything else is "cannot decide"."""
    for x in subterms(v):
        k = x[0]
        if k in {"unknown", "carried-out", "default", "exception"}:
            return f"a value the symbolic execution cannot follow ({show(x)[:60]})"
        if k == "call":
            f = x[1]
            name = f[1] if f[0] in {"global", "localfunc", "method"} else None
            if f[0] == "lambda" or f[0] == "partial":
                return f"a call of `{show(f)[:40]}` that could not be bound"
            if name is not None and (name.startswith(package) or f[0] in {"localfunc", "method"}) and not any(name == q or name.endswith(q) for q in known):
                return f"the result of {name.split('::')[-1]}(), which was not followed"
    return None


def addends(v, sx: "SymEx | None" = None):
    """``(start, [items])`` of a sum, however it is spelled: ``a + b``, ``sp.Add(*terms)``, ``sum(terms, start)``, an
    accumulation loop / ``reduce`` whose step is ``accumulator + term`` (the item is then ``("foreach", each, term)``).
    None if ``v`` is not a sum."""
    if not isinstance(v, tuple) or not v:
        return None
    if v[0] == "fold":
        step, head = v[3], v[4]
        conds = ()
        if step[0] == "when":
            conds, step = step[1], step[2]
        if step[0] == "phi":
            # `if c: acc += term` - on the other paths the accumulator stays as it is
            moving = [(pc, x) for pc, x in step[1] if x != head]
            if len(moving) == 1:
                conds, step = conds + moving[0][0], moving[0][1]
        term = None
        if step[0] == "binop" and step[1] == "+" and step[2] == head and not contains(step[3], head):
            term = step[3]
        elif step[0] == "binop" and step[1] == "+" and step[3] == head and not contains(step[2], head):
            term = step[2]
        elif step[0] == "call" and func_name(step) == "sympy.Add" and not step[3] and len(step[2]) == 2 and head in step[2]:
            term = next((a for a in step[2] if a != head), None)
        if term is None:
            return None
        if conds:
            term = ("when", conds, term)
        for e in reversed(v[1]):
            term = ("foreach", e, term)
        inner = addends(v[2], sx) if not (v[2][0] in {"const", "global"} or as_number(v[2]) is not None) else None
        if inner is not None:
            return inner[0], inner[1] + [term]
        return v[2], [term]
    if v[0] == "binop" and v[1] == "+":
        out = []
        start = ("const", 0)
        for side in (v[2], v[3]):
            inner = addends(side, sx)
            if inner is not None:
                if as_number(inner[0]) != 0:
                    out.append(inner[0])
                out += inner[1]
            else:
                out.append(side)
        return start, out
    if v[0] == "call" and func_name(v) == "sympy.Add" and not [k for k, _ in v[3] if k != "evaluate"]:
        return ("const", 0), list(v[2])
    if v[0] == "call" and v[1] == ("builtin", "sum") and 1 <= len(v[2]) <= 2 and not v[3]:
        seq = sx.as_items(v[2][0]) if sx is not None else (list(v[2][0][1]) if v[2][0][0] in {"list", "tuple"} else None)
        if seq is not None:
            return (v[2][1] if len(v[2]) == 2 else ("const", 0)), list(seq)
    return None


def factors(v, sx: "SymEx | None" = None):
    """The factors of a product, however it is spelled (``a * b``, ``sp.Mul(*factors)``, ``math.prod(...)``, a
    multiplication fold); ``[v]`` if ``v`` is not a product."""
    if isinstance(v, tuple) and v:
        if v[0] == "mul":
            return [y for x in v[1] for y in factors(x, sx)]
        if v[0] == "call" and func_name(v) == "sympy.Mul" and not [k for k, _ in v[3] if k != "evaluate"]:
            return [y for x in v[2] for y in factors(x, sx)]
        if v[0] == "fold":
            step, head = v[3], v[4]
            if step[0] == "mul" and head in step[1] and sum(1 for x in step[1] if x == head) == 1:
                rest = tuple(x for x in step[1] if x != head)
                term = rest[0] if len(rest) == 1 else ("mul", rest)
                for e in reversed(v[1]):
                    term = ("foreach", e, term)
                return ([] if as_number(v[2]) == 1 else factors(v[2], sx)) + [term]
    return [v]


def unwrap(item):
    """``(eaches, conditions, plain value)`` of a container item below its ``foreach`` / ``when`` wrappers."""
    eaches, pcs = (), ()
    while isinstance(item, tuple) and item and item[0] in {"foreach", "when"}:
        if item[0] == "when":
            pcs += item[1]
        else:
            eaches += (item[1],)
        item = item[2]
    return eaches, pcs, item


def atomic_tests(pc) -> list:
    out = []

    def rec(t):
        if isinstance(t, tuple) and t and t[0] in {"and", "or"}:
            for x in t[1]:
                rec(x)
        elif isinstance(t, tuple) and t and t[0] == "not":
            rec(t[1])
        else:
            a, _ = normal(t)
            if a not in out:
                out.append(a)

    for t, _ in pc:
        rec(t)
    return out


def eval_test(t, env: dict):
    """Truth value of a test under an assignment of its atomic tests (None if an atom is not assigned)."""
    if isinstance(t, tuple) and t and t[0] == "and":
        vals = [eval_test(x, env) for x in t[1]]
        return None if None in vals else all(vals)
    if isinstance(t, tuple) and t and t[0] == "or":
        vals = [eval_test(x, env) for x in t[1]]
        return None if None in vals else any(vals)
    if isinstance(t, tuple) and t and t[0] == "not":
        x = eval_test(t[1], env)
        return None if x is None else not x
    a, pos = normal(t)
    if a not in env:
        c = truth(a)
        return None if c is None else (c == pos)
    return env[a] == pos


def eval_value(v, env: dict):
    """The number / truth value a term denotes under an assignment of its atomic tests (arithmetic on literals, `int(b)`,
    `bool(b)`, `and` / `or` / `not` / comparisons of the assigned tests); None if it is not determined."""
    n = as_number(v)
    if n is not None:
        return n
    if is_const(v, bool):
        return v[1]
    if not isinstance(v, tuple) or not v:
        return None
    if v[0] in {"and", "or", "not", "cmp"}:
        return eval_test(v, env)
    if v[0] == "unop" and v[1] == "-":
        x = eval_value(v[2], env)
        return None if x is None else -x
    if v[0] == "mul":
        out = 1
        for x in v[1]:
            y = eval_value(x, env)
            if y is None:
                return None
            out *= y
        return out
    if v[0] == "binop" and v[1] in {"+", "-", "*", "**"}:
        a, b = eval_value(v[2], env), eval_value(v[3], env)
        if a is None or b is None:
            return None
        try:
            return {"+": a + b, "-": a - b, "*": a * b, "**": a ** b}[v[1]]
        except Exception:  # noqa: BLE001
            return None
    if v[0] == "call" and v[1][0] == "builtin" and v[1][1] in {"int", "bool", "float"} and len(v[2]) == 1 and not v[3]:
        x = eval_value(v[2][0], env)
        return None if x is None else {"int": int, "bool": bool, "float": float}[v[1][1]](x)
    if v in env:
        return env[v]
    return None


def decision_table(v, limit: int = 6):
    """A value that depends on conditions as a function of its atomic tests: ``(atoms, {assignment tuple: plain value})``.
    ``if a and b: X else: Y``, ``if not a or not b: Y else: X``, the same with early returns, a conditional expression
    and arithmetic on the truth value (``1 - 2 * int(a and b)``) give the same table."""
    alts = alternatives(v)
    atoms = []
    for pc, val in alts:
        for a in atomic_tests(pc):
            if a not in atoms:
                atoms.append(a)
        if as_number(val) is None:
            for x in subterms(val):
                if x[0] in {"and", "or", "not", "cmp"}:
                    for a in atomic_tests(((x, True),)):
                        if a not in atoms:
                            atoms.append(a)
    if len(atoms) > limit:
        raise Undecided(f"more than {limit} independent conditions")
    import itertools

    table = {}
    for bits in itertools.product((True, False), repeat=len(atoms)):
        env = dict(zip(atoms, bits))
        hit = [val for pc, val in alts if all(eval_test(t, env) == o for t, o in pc)]
        hit = [("const", eval_value(h, env)) if as_number(h) is None and eval_value(h, env) is not None else h for h in hit]
        table[bits] = hit[0] if hit and all(h == hit[0] for h in hit) else (None if not hit else ("ambiguous", tuple(hit)))
    return atoms, table


def show(v, depth: int = 0) -> str:
    """Readable text of a value (messages only)."""
    if not isinstance(v, tuple) or not v or not isinstance(v[0], str):
        return repr(v)
    k = v[0]
    if depth > 8:
        return "..."
    s = lambda x: show(x, depth + 1)  # noqa: E731
    if k == "const":
        return repr(v[1])
    if k in {"param", "sym"}:
        return v[1]
    if k in {"global", "builtin", "localfunc"}:
        return v[1].split("::")[-1].split(".")[-1] if k != "global" else v[1].split("::")[-1]
    if k == "call":
        f = v[1]
        name = f[1].split("::")[-1] if f[0] in {"global", "builtin", "localfunc", "method"} else s(f)
        if f[0] == "method":
            name = f"{s(f[2])}.{f[1].split('.')[-1]}"
        return f"{name}({', '.join([s(a) for a in v[2]] + [f'{n}={s(x)}' for n, x in v[3]])})"
    if k == "attr":
        return f"{s(v[1])}.{v[2]}"
    if k == "sub":
        return f"{s(v[1])}[{s(v[2])}]"
    if k == "item":
        return f"{s(v[1])}<{v[2]}>"
    if k in {"tuple", "list", "set"}:
        o, c = {"tuple": "()", "list": "[]", "set": "{}"}[k]
        return o + ", ".join(s(x) for x in v[1]) + c
    if k == "dict":
        return "{" + ", ".join(f"{s(a)}: {s(b)}" for a, b in v[1]) + "}"
    if k == "star":
        return "*" + s(v[1])
    if k == "mul":
        return " * ".join(s(x) for x in v[1])
    if k == "binop":
        return f"({s(v[2])} {v[1]} {s(v[3])})"
    if k == "unop":
        return f"{v[1]}{s(v[2])}"
    if k == "cmp":
        return f"{s(v[2])} {v[1]} {s(v[3])}"
    if k in {"and", "or"}:
        return "(" + f" {k} ".join(s(x) for x in v[1]) + ")"
    if k == "not":
        return f"not {s(v[1])}"
    if k == "fstr":
        return "f'" + "".join(x[1] if is_const(x, str) else "{" + s(x) + "}" for x in v[1]) + "'"
    if k == "phi":
        return "phi(" + "; ".join(f"{show_pc(p)} -> {s(x)}" for p, x in v[1]) + ")"
    if k == "when":
        return f"({s(v[2])} when {show_pc(v[1])})"
    if k == "each":
        return f"each#{v[2]}({s(v[1])})"
    if k == "foreach":
        return f"[{s(v[2])} for {s(v[1])}]"
    if k == "carried":
        return f"{v[1]}@head{v[2]}"
    if k == "unknown":
        return f"?{v[2]}"
    if k == "fold":
        return f"fold({s(v[3])} for {', '.join(s(e) for e in v[1])}; {s(v[4])} = {s(v[2])})"
    if k == "partial":
        return f"partial({', '.join([s(v[1])] + [s(a) for a in v[2]] + [f'{n}={s(x)}' for n, x in v[3]])})"
    if k == "lambda":
        return v[1]
    if k == "seqop":
        return f"{s(v[2])}.{v[1]}({', '.join(s(a) for a in v[3])})"
    if k == "carried-out":
        return f"{v[1]}@after-loop{v[2]}"
    return str(v)


def show_pc(pc) -> str:
    return " and ".join(("" if o else "not ") + "(" + show(t) + ")" for t, o in pc) or "always"


# ---------------------------------------------------------------------------- execution state
class State:
    """Scope chain (innermost first) + path condition.  ``status``: None (running) or why it stopped."""

    __slots__ = ("scopes", "pc", "status", "value", "nonlocals")

    def __init__(self, scopes, pc=(), nonlocals=()):
        self.scopes = scopes
        self.pc = pc
        self.status = None
        self.value = None
        self.nonlocals = set(nonlocals)

    def copy(self) -> "State":
        st = State([dict(s) for s in self.scopes], self.pc, self.nonlocals)
        return st

    def lookup(self, name: str):
        for s in self.scopes:
            if name in s:
                return s[name]
        return None

    def store(self, name: str, value) -> None:
        if name in self.nonlocals:
            for s in self.scopes[1:]:
                if name in s:
                    s[name] = value
                    return
        self.scopes[0][name] = value

    def snapshot(self) -> dict:
        out: dict = {}
        for s in reversed(self.scopes):
            out.update(s)
        return out


@dataclass
class LoopInfo:
    node: ast.AST
    uid: int
    kind: str  # "while" | "foreach"
    init: dict  # carried name -> value before the loop
    end: dict = field(default_factory=dict)  # carried name -> value at the end of the body (merged over continue paths)
    test: object = None  # while: value of the test at the loop head
    each: object = None
    events: list = field(default_factory=list)  # events of one generic iteration
    extras: dict = field(default_factory=dict)  # accumulator name -> items appended by one generic iteration
    pc: tuple = ()
    subst: dict = field(default_factory=dict)  # proven invariants: carried(v) -> G(carried(w))

    def head(self, name: str):
        return ("carried", name, self.uid)

    def refine(self) -> dict:
        """Relational invariants ``v == G(w)`` between carried names, proven by induction: G is the initial
        value of v with the initial value of w replaced by w's head symbol; it must also hold at the end of
        the body (assuming it at the head).  Returns and stores the substitution carried(v) -> G."""
        names = [n for n in self.init if n in self.end]
        proven: dict = {}
        for v in names:
            for w in names:
                if v == w or self.head(w) in proven:
                    continue
                v0, w0 = self.init[v], self.init[w]
                if not contains(v0, w0):
                    continue
                g = subst(v0, {w0: self.head(w)})
                if any(x[0] == "carried" and x != self.head(w) for x in subterms(g)):
                    continue
                trial = {**proven, self.head(v): g}
                end_v = subst(self.end[v], trial)
                end_w = subst(self.end[w], trial)
                if end_v == subst(g, {self.head(w): end_w}):
                    proven = trial
                    break
        self.subst = proven
        return proven

    def value(self, v):
        return subst(v, self.subst)


class _Frame:
    def __init__(self, fn: FuncInfo | None, node):
        self.fn = fn
        self.node = node
        self.returns: list[tuple[State, object]] = []
        self.yields: list = []
        self.loops: list[dict] = []
        self.entry_pc: tuple = ()
        self.closures: list[str] = []  # nested functions defined by this activation


class SymEx:
    def __init__(self, tree: Tree, atoms: set[str] | frozenset[str] = frozenset(), inline_depth: int = 4, inline_modules: bool = True, inline_cached: bool = False,
                 stubs: dict | None = None, unroll: int = 0):
        """``inline_cached``: also execute the body of memoised functions (`@cache`): the VALUE of a call is that of the
        uncached function (sharing of the result between calls is not a question of the value).
        ``stubs`` / ``unroll`` - evaluation on a small CONCRETE instance: a call / attribute value that is a key of ``stubs``
        evaluates to the stubbed value (e.g. the chain of state ids = a list of three distinct symbols); with ``unroll`` > 0
        `while` loops whose test is decided in every iteration and recursive functions are executed concretely (at most
        ``unroll`` iterations / activations).  However a loop, a recursion, a queue or a generator spells the computation,
        the value on the instance is the same."""
        self.inline_cached = inline_cached
        self.stubs = dict(stubs or {})
        self.unroll = unroll
        self.tree = tree
        self.atoms = set(atoms)
        self.inline_depth = inline_depth
        self.inline_modules = inline_modules
        self.n = 0
        self.lengths: dict = {}
        self.events: list[tuple] = []  # (kind, pc, payload..., loop context)
        self.loops: dict[int, LoopInfo] = {}
        self.imprecise: list[str] = []
        self.origin: dict = {}  # value -> first ast node that evaluated to it
        self._stack: list[_Frame] = []
        self._loopctx: tuple = ()
        self.root: FuncInfo | None = None
        self.lambdas: dict[int, tuple] = {}  # uid -> (ast.Lambda, scope chain at its creation)
        self.escaped: dict[str, list] = {}  # nested function -> scope chains of the finished activations that defined it
        self._root_len: int | None = None
        self._live: list[State] = []
        self._ctor_cache: dict = {}

    # ------------------------------------------------------------------ api
    def uid(self) -> int:
        self.n += 1
        return self.n

    def unknown(self, why: str):
        self.imprecise.append(why)
        return ("unknown", self.uid(), why)

    def run(self, fn: FuncInfo, args: dict | None = None, closure: dict | None = None, nonlocals: dict | None = None):
        """Execute ``fn`` with parameters bound to ``args`` (default: ("param", name)).
        Returns ``(result value, final State)``; the result of a generator function is the list of what it yields."""
        self.root = self.root or fn
        env = {p: ("param", p) for p in _all_params(fn.node)}
        env.update(args or {})
        scopes = [env]
        if closure is not None:
            scopes.append(dict(closure))
        if self._root_len is None:
            self._root_len = len(scopes)
        st = State(scopes)
        return self._run_body(fn, st)

    # ------------------------------------------------------------- functions
    def _run_body(self, fn: FuncInfo, st: State):
        frame = _Frame(fn, fn.node)
        frame.entry_pc = st.pc
        self._stack.append(frame)
        try:
            for n in ast.walk(fn.node):
                if isinstance(n, (ast.Nonlocal, ast.Global)) and self.tree.func_of(n) is fn:
                    st.nonlocals |= set(n.names)
            end = self._block(fn.node.body, st)
        finally:
            self._stack.pop()
        outs = list(frame.returns)
        if end.status is None:
            outs.append((end, NONE))
        is_gen = any(isinstance(n, (ast.Yield, ast.YieldFrom)) for n in _walk_own(fn.node))
        if not outs:
            final = end
            final.status = "raise"
            return (("list", tuple(frame.yields)) if is_gen else self.unknown(f"{fn.qual}: every path raises")), final
        final = self._merge([s for s, _ in outs], frame.entry_pc)
        for q in frame.closures:
            # a nested function may outlive this activation (it is returned, stored in an object): it keeps the variables
            # of the activation as they are at its end
            self.escaped.setdefault(q, []).append(final.scopes)
        if is_gen:
            return ("list", tuple(frame.yields)), final
        vals = []
        for s, v in outs:
            rel = s.pc[len(_common(frame.entry_pc, s.pc)):]
            vals.append((rel, v))
        if len(vals) == 1 or all(v == vals[0][1] for _, v in vals):
            return vals[0][1], final
        return ("phi", tuple(vals)), final

    def _merge(self, states: list[State], base_pc=()) -> State:
        live = states
        if len(live) == 1:
            s = live[0]
            s.status = None
            return s
        pcs = [s.pc for s in live]
        common = pcs[0]
        for p in pcs[1:]:
            common = _common(common, p)
        depth = min(len(s.scopes) for s in live)
        scopes = []
        for i in range(1, depth + 1):
            envs = [s.scopes[-i] for s in live]
            out: dict = {}
            for name in {k for e in envs for k in e}:
                vals = [e.get(name) for e in envs]
                if all(v == vals[0] for v in vals):
                    out[name] = vals[0]
                    continue
                merged = _merge_lists(vals)
                if merged is not None:
                    out[name] = merged
                    continue
                alts = tuple((s.pc[len(common):], v if v is not None else ("unknown", 0, f"{name} unbound")) for s, v in zip(live, vals))
                out[name] = ("phi", alts)
            scopes.insert(0, out)
        st = State(scopes, common, set().union(*[s.nonlocals for s in live]))
        return st

    # ------------------------------------------------------------ statements
    def _block(self, stmts, st: State) -> State:
        for s in stmts:
            if st.status is not None:
                break
            st = self._stmt(s, st)
        return st

    def _stmt(self, node, st: State) -> State:
        fn = self._stack[-1].fn
        if isinstance(node, ast.Expr):
            if isinstance(node.value, ast.Constant):
                return st
            v = self.ev(node.value, st)
            if isinstance(v, tuple) and v[0] == "call":
                self._event("call", st, v, st.snapshot())
            return st
        if isinstance(node, ast.Assign):
            v = self.ev(node.value, st)
            for t in node.targets:
                self._assign(t, v, st)
            return st
        if isinstance(node, ast.AnnAssign):
            if node.value is not None:
                self._assign(node.target, self.ev(node.value, st), st)
            return st
        if isinstance(node, ast.AugAssign):
            rhs = self.ev(node.value, st)
            if isinstance(node.target, ast.Name):
                old = st.lookup(node.target.id)
                if old is None:
                    old = self.unknown(f"{node.target.id} read before assignment")
                if isinstance(node.op, ast.Add) and old[0] == "list":
                    seq = self.as_items(rhs)
                    new = ("list", old[1] + tuple(self._cond_item(x, st) for x in seq)) if seq is not None else ("list", old[1] + (("star", rhs),))
                elif isinstance(node.op, ast.BitOr) and old[0] == "dict":
                    # `d |= other` updates d in place
                    if rhs[0] == "dict":
                        keys = {k for k, _ in rhs[1]}
                        new = ("dict", tuple((k, x) for k, x in old[1] if k not in keys) + rhs[1])
                    else:
                        new = ("dict", old[1] + ((self._cond_item(("star", rhs), st), NONE),))
                    self._rebind_container(node.target.id, old, new, st)
                    return st
                else:
                    new = self._binop(BIN.get(type(node.op), "?"), old, rhs)
                st.store(node.target.id, new)
            else:
                tv = self.ev(node.target, st)
                self._event("store", st, tv, self._binop(BIN.get(type(node.op), "?"), tv, rhs))
            return st
        if isinstance(node, ast.Return):
            v = self.ev(node.value, st) if node.value is not None else NONE
            st.status = "return"
            self._stack[-1].returns.append((st, v))
            return st
        if isinstance(node, ast.Raise):
            st.status = "raise"
            self._event("raise", st, self.ev(node.exc, st) if node.exc is not None else NONE)
            return st
        if isinstance(node, (ast.Continue, ast.Break)):
            loops = self._stack[-1].loops
            if not loops:
                st.status = "raise"
                return st
            st.status = "continue" if isinstance(node, ast.Continue) else "break"
            loops[-1][st.status].append(st)
            return st
        if isinstance(node, ast.If):
            return self._if(node, st)
        if isinstance(node, (ast.For, ast.AsyncFor)):
            return self._for(node, st)
        if isinstance(node, ast.While):
            return self._while(node, st)
        if isinstance(node, (ast.FunctionDef, ast.AsyncFunctionDef)):
            info = self.tree.func_of(node)
            st.store(node.name, ("localfunc", info.qual if info else node.name))
            if info is not None and self._stack:
                self._stack[-1].closures.append(info.qual)
            return st
        if isinstance(node, (ast.Pass, ast.Nonlocal, ast.Global, ast.Assert, ast.Import, ast.ImportFrom, ast.ClassDef)):
            return st
        if isinstance(node, ast.Delete):
            for t in node.targets:
                if isinstance(t, ast.Name):
                    st.scopes[0].pop(t.id, None)
                elif isinstance(t, ast.Subscript) and isinstance(t.value, ast.Name) and (st.lookup(t.value.id) or ("?",))[0] == "list" and self._plain(st.lookup(t.value.id)) is not None \
                        and is_const(self.ev(t.slice, st), int) and not isinstance(t.slice, ast.Slice) and -len(st.lookup(t.value.id)[1]) <= self.ev(t.slice, st)[1] < len(st.lookup(t.value.id)[1]):
                    cur = st.lookup(t.value.id)
                    i = self.ev(t.slice, st)[1] % len(cur[1])
                    self._rebind_container(t.value.id, cur, ("list", tuple(x for k, x in enumerate(cur[1]) if k != i)), st)
                else:
                    self._event("store", st, self.ev(t, st), ("unknown", 0, "deleted"))
            return st
        if isinstance(node, (ast.With, ast.AsyncWith)):
            for item in node.items:
                v = self.ev(item.context_expr, st)
                if item.optional_vars is not None:
                    self._assign(item.optional_vars, ("call", ("attr", v, "__enter__"), (), ()), st)
            return self._block(node.body, st)
        if isinstance(node, ast.Try):
            before = st.copy()
            base_pc = st.pc
            st = self._block(node.body, st)
            if st.status is None:
                st = self._block(node.orelse, st)
            outs = [st] if st.status is None else []
            # a handler may run after any prefix of the body: what the body binds or modifies is unknown inside the handler
            touched = self._assigned_names(node.body)
            for h in node.handlers:
                hs = before.copy()
                for name in sorted(touched):
                    if hs.lookup(name) is not None or name in {n for n in touched}:
                        hs.store(name, self.unknown(f"`{name}` bound inside a try body that raised"))
                if h.name:
                    hs.store(h.name, ("exception", self.uid()))
                hs.pc = base_pc + ((("raises", unparse(h.type) if h.type is not None else "BaseException", self.uid()), True),)
                hs = self._block(h.body, hs)
                if hs.status is None:
                    outs.append(hs)
            if not outs:
                st.status = st.status or "raise"
                return st
            st = self._merge(outs) if len(outs) > 1 else outs[0]
            st.pc = base_pc if len(outs) > 1 else st.pc
            return self._block(node.finalbody, st)
        self.imprecise.append(f"{fn.qual if fn else '?'}: statement {type(node).__name__} not modelled")
        for n in ast.walk(node):
            if isinstance(n, ast.Name) and isinstance(n.ctx, ast.Store):
                st.store(n.id, self.unknown(f"`{n.id}` bound by {type(node).__name__}"))
        return st

    def _event(self, kind: str, st: State, *payload) -> None:
        ev = (kind, st.pc, *payload, self._loopctx)
        self.events.append(ev)

    def _cond_item(self, item, st: State):
        """An item that enters a container / is yielded under the current path condition (relative to the frame entry)."""
        frame = self._stack[-1]
        base = _common(frame.entry_pc, st.pc)
        if frame.loops:
            base = _common(frame.loops[-1]["pc"], st.pc) if len(frame.loops[-1]["pc"]) >= len(base) else base
        rel = st.pc[len(base):]
        return ("when", rel, item) if rel else item

    def _if(self, node: ast.If, st: State) -> State:
        test = self.ev(node.test, st)
        decided = truth(test)
        if decided is not None:
            return self._block(node.body if decided else node.orelse, st)
        t, pos = normal(test)
        a, b = st, st.copy()
        a.pc = st.pc + ((t, pos),)
        b.pc = b.pc + ((t, not pos),)
        base_pc = st.pc[:-1]
        a = self._block(node.body, a)
        b = self._block(node.orelse, b)
        live = [s for s in (a, b) if s.status is None]
        if not live:
            a.status = a.status or "raise"
            return a
        if len(live) == 1:
            return live[0]  # the rest runs under the surviving arm's condition
        m = self._merge(live)
        m.pc = base_pc
        return m

    # ----------------------------------------------------------------- loops
    def _assigned_names(self, body) -> set[str]:
        out = set()
        for s in body:
            for n in _walk_own(s, include_self=True):
                if isinstance(n, ast.Name) and isinstance(n.ctx, ast.Store):
                    out.add(n.id)
                elif isinstance(n, ast.Call) and isinstance(n.func, ast.Attribute) and isinstance(n.func.value, ast.Name) and n.func.attr in LIST_MUTATORS | {"add", "update", "remove", "pop", "clear", "discard", "setdefault", "sort", "reverse"}:
                    out.add(n.func.value.id)
                elif isinstance(n, (ast.Subscript, ast.Attribute)) and isinstance(n.ctx, ast.Store):
                    b = n
                    while isinstance(b, (ast.Subscript, ast.Attribute)):
                        b = b.value
                    if isinstance(b, ast.Name):
                        out.add(b.id)
        # names written by nested functions through nonlocal
        for s in body:
            for n in ast.walk(s):
                if isinstance(n, ast.Nonlocal):
                    out |= set(n.names)
        return out

    def _for(self, node: ast.For, st: State) -> State:
        it = self.ev(node.iter, st)
        seq = self.as_items(it)
        frame = self._stack[-1]
        if seq is not None and not any(isinstance(x, tuple) and x[0] in {"foreach", "star", "when"} for x in seq):
            for x in seq:
                rec = {"continue": [], "break": [], "pc": st.pc}
                frame.loops.append(rec)
                self._assign(node.target, x, st)
                st = self._block(node.body, st)
                frame.loops.pop()
                live = ([st] if st.status is None else []) + rec["continue"]
                if rec["break"]:
                    if live or len(rec["break"]) > 1 or rec["break"][0].pc != rec["pc"]:
                        self.imprecise.append(f"{frame.fn.qual}: break under a symbolic condition in an unrolled loop")
                    st = self._merge(rec["break"] + live)
                    st.pc = rec["pc"]
                    return st
                if not live:
                    return st
                st = self._merge(live)
                st.pc = _common(rec["pc"], st.pc) if len(live) > 1 else st.pc
            return self._block(node.orelse, st) if st.status is None else st
        uid = self.uid()
        each = ("each", it, uid)
        return self._generic_loop(node, st, "foreach", uid, each)

    def _while(self, node: ast.While, st: State) -> State:
        t = truth(self.ev(node.test, st.copy()))
        if t is False:
            return self._block(node.orelse, st)
        if t is True and self.unroll:
            return self._concrete_while(node, st)
        return self._generic_loop(node, st, "while", self.uid(), None)

    def _concrete_while(self, node: ast.While, st: State) -> State:
        """A `while` loop whose test is decided by the (concrete) values in every iteration: executed iteration by iteration."""
        frame = self._stack[-1]
        for _ in range(self.unroll + 1):
            t = truth(self.ev(node.test, st))
            if t is False:
                return self._block(node.orelse, st)
            if t is None or _ == self.unroll:
                break
            rec = {"continue": [], "break": [], "pc": st.pc}
            frame.loops.append(rec)
            st = self._block(node.body, st)
            frame.loops.pop()
            if rec["break"]:
                if st.status is None or rec["continue"] or len(rec["break"]) > 1 or rec["break"][0].pc != rec["pc"]:
                    break  # a break under a symbolic condition
                st = rec["break"][0]
                st.status = None
                return st
            if rec["continue"]:
                if st.status is None or len(rec["continue"]) > 1 or rec["continue"][0].pc != rec["pc"]:
                    break
                st = rec["continue"][0]
                st.status = None
            if st.status is not None:
                return st
        # not decided within the bound: everything the loop assigns is unknown
        self.imprecise.append(f"{frame.fn.qual if frame.fn else '?'}: `while {unparse(node.test)[:40]}` is not decided within {self.unroll} concrete iterations")
        for name in sorted(self._assigned_names(node.body)):
            if st.lookup(name) is not None:
                st.store(name, self.unknown(f"`{name}` after an undecided loop"))
        st.status = None
        return st

    def _generic_loop(self, node, st: State, kind: str, uid: int, each) -> State:
        frame = self._stack[-1]
        assigned = self._assigned_names(node.body) | ({n.id for n in ast.walk(node.target) if isinstance(n, ast.Name)} if kind == "foreach" else set())
        info = LoopInfo(node, uid, kind, {}, each=each, pc=st.pc)
        self.loops[id(node)] = info
        accs: dict[str, tuple] = {}
        for name in sorted(assigned):
            old = st.lookup(name)
            if old is None:
                continue
            if old[0] in {"list", "set", "dict"} and not _rebinds(node.body, name):
                accs[name] = old
                marker = ("star", ("carried", name, uid))
                self._replace_everywhere(old, (old[0], old[1] + ((marker, NONE) if old[0] == "dict" else marker,)), st)
            else:
                info.init[name] = old
                st.store(name, ("carried", name, uid))
        n_ev = len(self.events)
        body_st = st.copy()
        if kind == "while":
            test = self.ev(node.test, body_st)
            info.test = test
            t, pos = normal(test)
            body_st.pc = body_st.pc + ((t, pos),)
        else:
            self._assign(node.target, each, body_st)
        rec = {"continue": [], "break": [], "pc": body_st.pc}
        frame.loops.append(rec)
        self._loopctx += (uid,)
        n_yields = len(frame.yields)
        end = self._block(node.body, body_st)
        self._loopctx = self._loopctx[:-1]
        frame.loops.pop()
        info.events = self.events[n_ev:]
        if len(frame.yields) > n_yields:
            # what one generic iteration yields is yielded for every element
            wrap_y = each if each is not None else ("each", ("while", uid), uid)
            frame.yields[n_yields:] = [("foreach", wrap_y, y) for y in frame.yields[n_yields:]]
        live = ([end] if end.status is None else []) + rec["continue"] + rec["break"]
        if live:
            merged = self._merge(live) if len(live) > 1 else live[0]
            for name in info.init:
                v = merged.lookup(name)
                if v is not None:
                    info.end[name] = v
            for name, old in accs.items():
                v = merged.lookup(name)
                marker = ("star", ("carried", name, uid))
                prefix = old[1] + ((marker, NONE) if old[0] == "dict" else marker,)
                if v is not None and v[0] == old[0] and v[1][: len(prefix)] == prefix:
                    info.extras[name] = v[1][len(prefix):]
                else:
                    info.extras[name] = None
        # state after the loop: accumulators = old items + what a generic iteration adds; other carried names are unknown
        after = st
        for name, old in accs.items():
            extra = info.extras.get(name)
            if extra is None and live:
                after.store(name, self.unknown(f"`{name}` is rebuilt inside a loop"))
            else:
                wrap = each if each is not None else ("each", ("while", uid), uid)
                cur = after.lookup(name)
                grown = (old[0], old[1] + tuple((("foreach", wrap, x[0]), x[1]) if old[0] == "dict" else ("foreach", wrap, x) for x in (extra or ())))
                if cur is not None:
                    self._replace_everywhere(cur, grown, after)  # aliases of the accumulator see the same object
                else:
                    after.store(name, grown)
        for name in info.init:
            end_v = info.end.get(name)
            head = ("carried", name, uid)
            if end_v is not None and end_v == head:
                after.store(name, info.init[name])  # not changed by the body
            elif (kind == "foreach" and end_v is not None and not rec["break"] and end_v[0] == "fold" and end_v[2] == head
                  and not contains(("tuple", (end_v[1], end_v[3])), head)
                  and not any(x[0] in {"carried", "carried-out", "unknown"} and x != head and x not in _fold_heads(end_v) for x in subterms(end_v))):
                # a nested accumulation (`for a in xs: for b in f(a): acc = g(acc, b)`): the inner loop folds from the
                # accumulator of the outer one, so both loops are ONE fold over (a, b)
                after.store(name, ("fold", (each, *end_v[1]), info.init[name], end_v[3], end_v[4]))
            elif (kind == "foreach" and end_v is not None and not rec["break"]
                  and not any(x[0] in {"carried", "carried-out", "unknown"} and x != head and x not in _fold_heads(end_v) for x in subterms(end_v))):
                # an accumulation `acc = f(acc, element)`: the left fold of one generic step over the iterable
                after.store(name, ("fold", (each,), info.init[name], end_v, head))
            else:
                after.store(name, ("carried-out", name, uid))
        if live:
            # containers that a callee of the body extended in place (the body only shows a call): what one generic
            # iteration adds is added for every element
            wrap = each if each is not None else ("each", ("while", uid), uid)
            for name, oldv in st.snapshot().items():
                if name in accs or name in info.init or not isinstance(oldv, tuple) or oldv[0] not in {"list", "dict", "set"}:
                    continue
                newv = merged.lookup(name)
                if newv is None or newv is oldv or newv == oldv:
                    continue
                if newv[0] == oldv[0] and newv[1][: len(oldv[1])] == oldv[1]:
                    extra = newv[1][len(oldv[1]):]
                    grown = (oldv[0], oldv[1] + tuple((("foreach", wrap, x[0]), x[1]) if oldv[0] == "dict" else ("foreach", wrap, x) for x in extra))
                else:
                    grown = self.unknown(f"`{name}` is modified inside a loop")
                self._replace_everywhere(oldv, grown, after)
        for name in assigned:
            if name not in accs and name not in info.init:
                after.store(name, ("carried-out", name, uid))
        after.status = None
        after.pc = st.pc
        return self._block(node.orelse, after) if node.orelse else after

    # ------------------------------------------------------------- assignment
    def _assign(self, target, v, st: State) -> None:
        if isinstance(target, ast.Name):
            st.store(target.id, v)
            return
        if isinstance(target, ast.Starred):
            self._assign(target.value, v, st)
            return
        if isinstance(target, (ast.Tuple, ast.List)):
            n = len(target.elts)
            if any(isinstance(t, ast.Starred) for t in target.elts):
                seq = self.as_items(v)
                if seq is None:
                    # `a, b, *rest = v` with v of unknown length: the names in front of the star are the first elements
                    # in iteration order (`item(v, k)`, as for a plain unpacking); the star and what follows it are unknown
                    s = next(i for i, t in enumerate(target.elts) if isinstance(t, ast.Starred))
                    plain = v[0] not in {"phi", "unknown", "const"} and not (v[0] in {"tuple", "list"} and any(x[0] in {"foreach", "star", "when"} for x in v[1]))
                    after = n - s - 1
                    for k, t in enumerate(target.elts):
                        if k < s and plain:
                            self._assign(t, self._item(v, k), st)
                        elif k == s and plain:
                            # the starred name: the slice between the named elements (`*rest, last = xs` -> xs[:-1])
                            self._assign(t, ("sub", v, ("slice", ("const", s) if s else NONE, ("const", -after) if after else NONE, NONE)), st)
                        elif plain:
                            self._assign(t, ("sub", v, ("const", k - n)), st)  # counted from the end
                        else:
                            self._assign(t, self.unknown("starred unpacking of a sequence of unknown length"), st)
                    return
                s = next(i for i, t in enumerate(target.elts) if isinstance(t, ast.Starred))
                after = n - s - 1
                for t, x in zip(target.elts[:s], seq[:s]):
                    self._assign(t, x, st)
                self._assign(target.elts[s], ("list", tuple(seq[s: len(seq) - after])), st)
                for t, x in zip(target.elts[s + 1:], seq[len(seq) - after:]):
                    self._assign(t, x, st)
                return
            items = self.unpack(v, n)
            for t, x in zip(target.elts, items):
                self._assign(t, x, st)
            return
        if isinstance(target, (ast.Subscript, ast.Attribute)):
            base = target.value
            if isinstance(target, ast.Subscript) and isinstance(base, ast.Name):
                cur = st.lookup(base.id)
                key = self.ev(target.slice, st)
                if cur is not None and cur[0] == "dict":
                    # item assignment modifies the object itself, wherever the name is bound (an enclosing scope, an alias)
                    self._rebind_container(base.id, cur, ("dict", tuple((k, x) for k, x in cur[1] if k != key) + ((key, self._cond_item(v, st)),)), st)
                    return
                if cur is not None and cur[0] == "list" and is_const(key, int) and self._plain(cur) is not None and -len(cur[1]) <= key[1] < len(cur[1]):
                    items = list(cur[1])
                    items[key[1]] = v
                    self._rebind_container(base.id, cur, ("list", tuple(items)), st)
                    return
            tv = self.ev(ast.copy_location(_load(target), target), st)
            self._event("store", st, tv, v)
            if isinstance(base, ast.Name) and st.lookup(base.id) is not None and st.lookup(base.id)[0] in {"list", "dict", "set", "tuple"}:
                st.store(base.id, self.unknown(f"`{base.id}` modified through a subscript/attribute store"))
            return
        self.imprecise.append(f"assignment target {type(target).__name__}")

    def unpack(self, v, n: int) -> list:
        """The n values of ``a0, ..., a(n-1) = v`` (also records that v has n elements)."""
        if v[0] in {"tuple", "list"}:
            items = v[1]
            if len(items) == 1 and items[0][0] == "foreach" and not strip_when(items[0][2])[0]:
                each, elt = items[0][1], items[0][2]
                self.lengths[each[1]] = n
                return [subst(elt, {each: self._item(each[1], k)}) for k in range(n)]
            if len(items) == n and not any(x[0] in {"foreach", "star", "when"} for x in items):
                return list(items)
            return [("item", v, k) for k in range(n)]  # k-th element of a sequence with conditional / repeated items
        if v[0] in {"phi", "unknown", "const"}:
            return [("item", v, k) for k in range(n)]
        self.lengths[v] = n
        return [self._item(v, k) for k in range(n)]

    def _item(self, v, k: int):
        if v[0] in {"tuple", "list"} and k < len(v[1]) and not any(x[0] in {"foreach", "star", "when"} for x in v[1]):
            return v[1][k]
        return ("item", v, k)

    def as_items(self, v):
        """The elements of ``v`` in iteration order if they are known (``foreach`` / ``star`` items may occur), else None."""
        if not isinstance(v, tuple):
            return None
        if v[0] in {"tuple", "list"}:
            out = []
            for x in v[1]:
                if x[0] == "star":
                    inner = self.as_items(x[1])
                    if inner is None:
                        out.append(x)
                    else:
                        out += inner
                else:
                    out.append(x)
            return out
        if v[0] == "global":
            c = self.module_constant(v[1])
            return list(c[1]) if c is not None and c[0] == "tuple" else None
        if v[0] == "set" and not any(x[0] in {"foreach", "star", "when"} for x in v[1]) and len(v[1]) <= 1:
            return list(v[1])  # iteration order of a set with at most one element
        if v[0] == "dict" and not any(k[0] in {"foreach", "star", "when"} for k, _ in v[1]):
            return [k for k, _ in v[1]]  # iterating a dict = its keys, in insertion order
        if v in self.lengths:
            return [self._item(v, k) for k in range(self.lengths[v])]
        if v[0] == "call" and v[1][0] == "builtin" and not v[3]:
            name, args = v[1][1], v[2]
            if name in {"list", "tuple", "iter"} and len(args) == 1:
                return self.as_items(args[0])
            if name == "enumerate" and args:
                inner = self._plain(args[0])
                start = args[1][1] if len(args) > 1 and is_const(args[1], int) else 0 if len(args) == 1 else None
                if inner is not None and start is not None:
                    return [("tuple", (("const", i + start), x)) for i, x in enumerate(inner)]
            if name == "zip" and args:
                inners = [self._plain(a) for a in args]
                if all(i is not None for i in inners) and len({len(i) for i in inners}) == 1:
                    return [("tuple", tuple(xs)) for xs in zip(*inners)]
            if name == "reversed" and len(args) == 1:
                inner = self._plain(args[0])
                if inner is not None:
                    return list(reversed(inner))
            if name == "range" and all(is_const(a, int) for a in args) and 1 <= len(args) <= 3:
                return [("const", i) for i in range(*[a[1] for a in args])]
        return None

    def _plain(self, v):
        seq = self.as_items(v)
        if seq is None or any(x[0] in {"foreach", "star", "when"} for x in seq):
            return None
        return seq

    # ------------------------------------------------------------ expressions
    def ev(self, node, st: State):
        m = getattr(self, "_ev_" + type(node).__name__, None)
        if m is None:
            return self.unknown(f"expression {type(node).__name__} `{unparse(node)[:40]}` not modelled")
        v = m(node, st)
        if isinstance(v, tuple) and v not in self.origin:
            try:
                self.origin[v] = node
            except TypeError:
                pass
        return v

    def _ev_Constant(self, node, st):
        return ("const", node.value)

    def _ev_Name(self, node, st):
        v = st.lookup(node.id)
        if v is not None:
            return v
        fn = self._stack[-1].fn if self._stack else self.root
        mod = node._module if hasattr(node, "_module") else (fn.module if fn else None)
        if mod is not None:
            q = self.tree.resolve(mod, node, None)
            c = self.module_constant(q if q is not None else f"{mod.name}::{node.id}")
            if c is not None and c[0] == "const":
                return c  # a module-level name bound once to a number / text literal (`_Z = 3`, `_X, _Y, _Z = 1, 2, 3`)
            if q is not None:
                return ("global", q)
            if c is not None:
                return ("global", f"{mod.name}::{node.id}")
        import builtins

        if hasattr(builtins, node.id):
            return ("builtin", node.id)
        # neither a local, a variable of an enclosing activation, a module-level name, an import nor a builtin: the executor
        # lost the binding (never a made-up global - a rule must not judge such a value)
        return self.unknown(f"name `{node.id}` is not bound where it is read")

    def module_constant(self, qual: str):
        """The literal a module-level name of the package is bound to (exactly once, never rebound): a number / text
        ``("const", v)`` or a tuple / list of literals ``("tuple", ...)``; None if the name is something else.  Scalars replace
        the name; sequences keep their name (rules recognise tables such as index names by it) and are only expanded when
        they are iterated / unpacked (``as_items``)."""
        cache = self.__dict__.setdefault("_modconst", {})
        if qual in cache:
            return cache[qual]
        cache[qual] = None
        if "::" not in qual or "." in qual.split("::", 1)[1]:
            return None
        modname, name = qual.split("::", 1)
        mod = self.tree.modules.get(modname)
        if mod is None:
            return None
        hits = []
        for n in ast.walk(mod.tree):
            if isinstance(n, ast.Name) and n.id == name and isinstance(n.ctx, (ast.Store, ast.Del)):
                hits.append(n)
            elif isinstance(n, ast.Global) and name in n.names:
                return None
            elif isinstance(n, (ast.FunctionDef, ast.AsyncFunctionDef, ast.ClassDef)) and n.name == name:
                return None
        if len(hits) != 1:
            return None
        target = hits[0]
        stmt = getattr(target, "_parent", None)
        while stmt is not None and not isinstance(stmt, (ast.Assign, ast.AnnAssign)):
            if not isinstance(stmt, (ast.Tuple, ast.List)):
                return None
            stmt = getattr(stmt, "_parent", None)
        if stmt is None or stmt not in mod.tree.body or stmt.value is None:
            return None

        def literal(e):
            if isinstance(e, ast.Constant) and isinstance(e.value, (int, float, str, bool, type(None))):
                return ("const", e.value)
            if isinstance(e, ast.UnaryOp) and isinstance(e.op, ast.USub) and isinstance(e.operand, ast.Constant) and isinstance(e.operand.value, (int, float)):
                return ("const", -e.operand.value)
            if isinstance(e, (ast.Tuple, ast.List)):
                items = [literal(x) for x in e.elts]
                return None if None in items else ("tuple", tuple(items))
            if isinstance(e, ast.Call) and isinstance(e.func, ast.Name) and e.func.id == "range" and not e.keywords and 1 <= len(e.args) <= 3:
                # range(<integer literals>) IS the tuple it enumerates (`_E, _X, _Y, _Z = range(4)`), unless the module re-binds `range`
                bounds = [literal(a) for a in e.args]
                if all(b is not None and b[0] == "const" and type(b[1]) is int for b in bounds) and not any(
                    isinstance(n, ast.Name) and n.id == "range" and isinstance(n.ctx, ast.Store) for n in ast.walk(mod.tree)
                ) and (len(bounds) < 3 or bounds[2][1] != 0):
                    numbers = range(*[b[1] for b in bounds])
                    if len(numbers) <= 64:
                        return ("tuple", tuple(("const", i) for i in numbers))
            return None

        value = literal(stmt.value)
        tgt = stmt.targets[0] if isinstance(stmt, ast.Assign) and len(stmt.targets) == 1 else stmt.target if isinstance(stmt, ast.AnnAssign) else None
        if value is None or tgt is None:
            return None
        if isinstance(tgt, (ast.Tuple, ast.List)):
            if value[0] != "tuple" or len(value[1]) != len(tgt.elts) or target not in tgt.elts:
                return None
            value = value[1][tgt.elts.index(target)]
        elif tgt is not target:
            return None
        cache[qual] = value
        return value

    def _ev_Attribute(self, node, st):
        head = node
        while isinstance(head, ast.Attribute):
            head = head.value
        if isinstance(head, ast.Name) and st.lookup(head.id) is None:
            mod = getattr(node, "_module", None)
            if mod is not None:
                q = self.tree.resolve(mod, node, None)
                if q is not None:
                    return ("global", q)
        base = self.ev(node.value, st)
        return self._attr(base, node.attr)

    def _attr(self, base, name: str):
        if base[0] == "phi":
            return ("phi", tuple((p, self._attr(x, name)) for p, x in base[1]))
        if base[0] == "call" and base[1][0] == "global":
            v = self.object_attr(base, name)
            if v is not None:
                return v
        if self.stubs and ("attr", base, name) in self.stubs:
            return self.stubs[("attr", base, name)]
        return ("attr", base, name)

    def _ev_Subscript(self, node, st):
        base = self.ev(node.value, st)
        if isinstance(node.slice, ast.Slice):
            seq = self._plain(base)
            parts = [self.ev(p, st) if p is not None else NONE for p in (node.slice.lower, node.slice.upper, node.slice.step)]
            if seq is not None and all(is_const(p, int) or p == NONE for p in parts):
                return (base[0] if base[0] in {"tuple", "list"} else "tuple", tuple(seq[slice(*[p[1] for p in parts])]))
            return ("sub", base, ("slice", *parts))
        return self._subscript(base, self.ev(node.slice, st))

    def _subscript(self, base, idx):
        if is_const(idx, int):
            seq = self._plain(base) if base[0] != "global" else None  # an entry of a NAMED table keeps the name of the table
            if seq is not None and base[0] != "dict" and -len(seq) <= idx[1] < len(seq):
                return seq[idx[1]]
        if base[0] == "dict":
            for k, x in base[1]:
                if k == idx:
                    return x
        if idx[0] != "tuple":
            seq = self._plain(idx) if idx in self.lengths else None
            if seq is not None:
                idx = ("tuple", tuple(seq))
        return ("sub", base, idx)

    def _ev_Tuple(self, node, st):
        return ("tuple", self._elts(node.elts, st))

    def _ev_List(self, node, st):
        return ("list", tuple(self._cond_item(x, st) for x in self._elts(node.elts, st)))

    def _ev_Set(self, node, st):
        return ("set", self._elts(node.elts, st))

    def _elts(self, elts, st) -> tuple:
        out = []
        for e in elts:
            if isinstance(e, ast.Starred):
                v = self.ev(e.value, st)
                seq = self.as_items(v)
                if seq is None:
                    out.append(("star", v))
                else:
                    out += seq
            else:
                out.append(self.ev(e, st))
        return tuple(out)

    def _ev_Dict(self, node, st):
        items = []
        for k, v in zip(node.keys, node.values):
            if k is None:
                items.append((("star", self.ev(v, st)), NONE))
            else:
                items.append((self.ev(k, st), self.ev(v, st)))
        return ("dict", tuple(items))

    def _ev_Starred(self, node, st):
        return ("star", self.ev(node.value, st))

    def _ev_BinOp(self, node, st):
        return self._binop(BIN.get(type(node.op), "?"), self.ev(node.left, st), self.ev(node.right, st))

    def _binop(self, op: str, a, b):
        if is_const(a, int, float) and is_const(b, int, float) and op in {"+", "-", "*"}:
            return ("const", {"+": a[1] + b[1], "-": a[1] - b[1], "*": a[1] * b[1]}[op])
        if op == "%" and is_const(a, str):
            import re as _re

            holes = _re.findall(r"%[sdir]|%%", a[1])
            vals = list(b[1]) if b[0] == "tuple" else [b]
            if "%" not in _re.sub(r"%[sdir]|%%", "", a[1]) and len([h for h in holes if h != "%%"]) == len(vals) and not any(x[0] in {"star", "foreach"} for x in vals):
                parts, rest, k = [], a[1], 0
                for h in holes:
                    head, rest = rest.split(h, 1)
                    parts.append(("const", head))
                    if h == "%%":
                        parts.append(("const", "%"))
                    else:
                        parts.append(vals[k])
                        k += 1
                parts.append(("const", rest))
                return self._fstr(parts)
        if op == "*":
            fa = a[1] if a[0] == "mul" else (a,)
            fb = b[1] if b[0] == "mul" else (b,)
            return ("mul", fa + fb)
        if op == "+" and a[0] in {"list", "tuple"} and b[0] == a[0]:
            return (a[0], a[1] + b[1])
        if op == "+" and (is_const(a, str) or a[0] == "fstr" or is_const(b, str) or b[0] == "fstr") and a[0] not in {"phi", "unknown"} and b[0] not in {"phi", "unknown"}:
            return self._fstr([a, b])  # text + anything is text (or a TypeError)
        if op == "+" and a[0] == "binop" and a[1] == "+" and is_const(a[3], int) and is_const(b, int):
            return self._binop("+", a[2], ("const", a[3][1] + b[1]))
        return ("binop", op, a, b)

    def _ev_UnaryOp(self, node, st):
        v = self.ev(node.operand, st)
        if isinstance(node.op, ast.Not):
            t = truth(v)
            return ("const", not t) if t is not None else ("not", v)
        if isinstance(node.op, ast.USub):
            if is_const(v, int, float):
                return ("const", -v[1])
            return ("unop", "-", v)
        if isinstance(node.op, ast.UAdd):
            return v
        return ("unop", "~", v)

    def _ev_Compare(self, node, st):
        vals = [self.ev(node.left, st)] + [self.ev(c, st) for c in node.comparators]
        ops = [CMP[type(o)] for o in node.ops]
        if len(ops) == 1:
            return self._cmp(ops[0], vals[0], vals[1])
        return ("and", tuple(self._cmp(o, a, b) for o, a, b in zip(ops, vals, vals[1:])))

    def _cmp(self, op, a, b):
        if is_const(a) and is_const(b):
            try:
                if op in {"==", "!=", "<", "<=", ">", ">="}:
                    import operator

                    f = {"==": operator.eq, "!=": operator.ne, "<": operator.lt, "<=": operator.le, ">": operator.gt, ">=": operator.ge}[op]
                    return ("const", bool(f(a[1], b[1])))
                if op in {"is", "is not"} and (a[1] is None or b[1] is None):
                    return ("const", (a[1] is b[1]) == (op == "is"))
            except TypeError:
                pass
        if op in {"is", "is not"} and b == NONE and a[0] in {"tuple", "list", "dict", "set", "mul", "fstr"}:
            return ("const", op == "is not")
        if op in {"==", "!="} and "sym" in (a[0], b[0]) and a[0] in {"sym", "const"} and b[0] in {"sym", "const"}:
            return ("const", (a == b) == (op == "=="))  # symbols of a concrete instance are pairwise different atoms
        if op in {"is", "is not"} and b == NONE and a[0] == "sym":
            return ("const", op == "is not")
        if op in {"in", "not in"} and a[0] == "sym":
            seq = self._plain(b) if b[0] in {"tuple", "list", "set"} else None
            if seq is not None and all(x[0] in {"sym", "const"} for x in seq):
                return ("const", (a in seq) == (op == "in"))
        if op in {"in", "not in"} and is_const(a):
            seq = self._plain(b) if b[0] in {"tuple", "list", "set"} else None
            if seq is not None and all(is_const(x) for x in seq):
                return ("const", (a in seq) == (op == "in"))
        return ("cmp", op, a, b)

    def _ev_BoolOp(self, node, st):
        vals = [self.ev(v, st) for v in node.values]
        kind = "and" if isinstance(node.op, ast.And) else "or"
        out = []
        for v in vals:
            t = truth(v)
            if t is None:
                out.append(v)
            elif (kind == "and") != t:  # and: a false operand decides; or: a true operand decides
                if not out:
                    return v
                out.append(v)
                break
        if not out:
            return vals[-1]
        if len(out) == 1:
            return out[0]
        return (kind, tuple(out))

    def _ev_IfExp(self, node, st):
        test = self.ev(node.test, st)
        t = truth(test)
        if t is not None:
            return self.ev(node.body if t else node.orelse, st)
        tt, pos = normal(test)
        a, b = self.ev(node.body, st), self.ev(node.orelse, st)
        if a == b:
            return a
        return ("phi", ((((tt, pos),), a), (((tt, not pos),), b)))

    def _ev_JoinedStr(self, node, st):
        parts = []
        for p in node.values:
            if isinstance(p, ast.Constant):
                parts.append(("const", p.value))
            else:
                v = self.ev(p.value, st)
                if p.conversion != -1 or p.format_spec is not None:
                    v = ("call", ("builtin", "format"), (v, ("const", (p.conversion, unparse(p.format_spec) if p.format_spec is not None else ""))), ())
                parts.append(v)
        return self._fstr(parts)

    def _ev_FormattedValue(self, node, st):
        return self.ev(node.value, st)

    def _ev_NamedExpr(self, node, st):
        v = self.ev(node.value, st)
        self._assign(node.target, v, st)
        return v

    def _ev_Lambda(self, node, st):
        uid = self.uid()
        self.lambdas[uid] = (node, st.scopes, self._stack[-1].fn if self._stack else None)
        return ("lambda", unparse(node), uid)

    def _ev_Yield(self, node, st):
        v = self.ev(node.value, st) if node.value is not None else NONE
        self._stack[-1].yields.append(self._cond_item(v, st))
        self._event("yield", st, v)
        return NONE

    def _ev_YieldFrom(self, node, st):
        v = self.ev(node.value, st)
        seq = self.as_items(v)
        items = seq if seq is not None else [("star", v)]
        for x in items:
            self._stack[-1].yields.append(self._cond_item(x, st))
        self._event("yield-from", st, v)
        return NONE

    def _ev_Await(self, node, st):
        return self.ev(node.value, st)

    def _comp(self, node, st, make):
        """Comprehension: unrolled over known sequences, otherwise one generic element per generator."""
        results: list = []

        def rec(gens, st_, conds, eaches):
            if not gens:
                item = make(st_)
                if len(eaches) >= 2 and item == eaches[-1] and not any(contains(c[0], eaches[-1]) for c in conds):
                    # `[x for xs in xss for x in xs]`: the inner loop only passes its elements on = `*xs`
                    item, eaches = ("star", eaches[-1][1]), eaches[:-1]
                for c in reversed(conds):
                    item = ("when", (c,), item)
                for e in reversed(eaches):
                    item = ("foreach", e, item)
                results.append(item)
                return
            g = gens[0]
            it = self.ev(g.iter, st_)
            seq = self._plain(it) if not eaches else None
            if seq is not None:
                for x in seq:
                    s2 = st_.copy()
                    self._assign(g.target, x, s2)
                    ok, cs = True, list(conds)
                    for cond in g.ifs:
                        cv = self.ev(cond, s2)
                        t = truth(cv)
                        if t is False:
                            ok = False
                            break
                        if t is None:
                            cs.append(normal(cv))
                    if ok:
                        rec(gens[1:], s2, cs, eaches)
                return
            each = ("each", it, self.uid())
            s2 = st_.copy()
            self._assign(g.target, each, s2)
            cs = list(conds)
            for cond in g.ifs:
                cv = self.ev(cond, s2)
                t = truth(cv)
                if t is None:
                    cs.append(normal(cv))
                elif t is False:
                    return
            rec(gens[1:], s2, cs, eaches + [each])

        inner = st.copy()
        inner.scopes = [{}] + inner.scopes
        rec(list(node.generators), inner, [], [])
        return tuple(results)

    def _ev_ListComp(self, node, st):
        return ("list", self._comp(node, st, lambda s: self.ev(node.elt, s)))

    _ev_GeneratorExp = _ev_ListComp

    def _ev_SetComp(self, node, st):
        return ("set", self._comp(node, st, lambda s: self.ev(node.elt, s)))

    def _ev_DictComp(self, node, st):
        items = self._comp(node, st, lambda s: ("tuple", (self.ev(node.key, s), self.ev(node.value, s))))
        if all(x[0] == "tuple" for x in items):
            return ("dict", tuple((x[1][0], x[1][1]) for x in items))
        return ("dictcomp", items)

    # ------------------------------------------------------------------ calls
    def _ev_Call(self, node: ast.Call, st: State):
        fn = self._stack[-1].fn if self._stack else self.root
        func = node.func
        # mutation of a local container
        if isinstance(func, ast.Attribute) and isinstance(func.value, ast.Name):
            cur = st.lookup(func.value.id)
            if cur is not None and cur[0] == "list" and func.attr in {"append", "extend"} and len(node.args) == 1 and not node.keywords:
                v = self.ev(node.args[0], st)
                if func.attr == "append":
                    new = cur[1] + (self._cond_item(v, st),)
                else:
                    seq = self.as_items(v)
                    new = cur[1] + (tuple(self._cond_item(x, st) for x in seq) if seq is not None else (("star", v),))
                self._rebind_container(func.value.id, cur, ("list", new), st)
                self._event("grow", st, func.value.id, v)
                return NONE
            if cur is not None and cur[0] == "set" and func.attr == "add" and len(node.args) == 1:
                v = self.ev(node.args[0], st)
                self._rebind_container(func.value.id, cur, ("set", cur[1] + (self._cond_item(v, st),)), st)
                self._event("grow", st, func.value.id, v)
                return NONE
            if cur is not None and cur[0] == "dict" and func.attr == "update" and len(node.args) == 1 and not node.keywords:
                other = self.ev(node.args[0], st)
                if other[0] == "dict":
                    keys = {k for k, _ in other[1]}
                    self._rebind_container(func.value.id, cur, ("dict", tuple((k, x) for k, x in cur[1] if k not in keys) + other[1]), st)
                else:
                    self._rebind_container(func.value.id, cur, ("dict", cur[1] + ((self._cond_item(("star", other), st), NONE),)), st)
                return NONE
            if cur is not None and cur[0] == "dict" and func.attr == "setdefault" and 1 <= len(node.args) <= 2 and not node.keywords:
                key = self.ev(node.args[0], st)
                for k, x in cur[1]:
                    if k == key:
                        return x
                if not any(k[0] in {"star", "foreach", "when"} for k, _ in cur[1]) or True:
                    # the key is not among the known entries: it is added (entries that came in through `update(<unknown>)`
                    # may already hold it - then the earlier value stays, which the rules read as "registered")
                    v = self.ev(node.args[1], st) if len(node.args) == 2 else NONE
                    self._rebind_container(func.value.id, cur, ("dict", cur[1] + ((key, self._cond_item(v, st)),)), st)
                    self._event("grow", st, func.value.id, ("tuple", (key, v)))
                    return v
            if (cur is not None and cur[0] in {"call", "seqop", "attr", "sub", "item", "param"} and not node.keywords
                    and ((func.attr in {"remove", "discard"} and len(node.args) == 1) or (func.attr in {"reverse", "sort"} and not node.args))):
                # in-place list operation on a sequence the executor does not know element by element: a sequence term
                new = ("seqop", func.attr, cur, tuple(self.ev(a, st) for a in node.args))
                self._event("mutate", st, func.value.id, func.attr, new[3])
                self._rebind_container(func.value.id, cur, new, st)
                return NONE
            if cur is not None and cur[0] == "list" and not node.keywords and func.attr in {"remove", "reverse", "pop", "index", "insert", "clear", "copy"}:
                done = self._concrete_list_op(func.value.id, cur, func.attr, [self.ev(a, st) for a in node.args], st)
                if done is not None:
                    return done[0]
            if cur is not None and cur[0] in {"list", "set", "dict"} and func.attr in {"remove", "pop", "clear", "discard", "insert", "sort", "reverse", "popitem", "setdefault", "update", "add"}:
                args = tuple(self.ev(a, st) for a in node.args)
                self._event("mutate", st, func.value.id, func.attr, args)
                st.store(func.value.id, self.unknown(f"`{func.value.id}.{func.attr}(...)`"))
                return self.unknown(f"result of {func.attr}")
        args = self._elts(node.args, st)
        kwargs = []
        for k in node.keywords:
            if k.arg is None:
                kv = self.ev(k.value, st)
                if kv[0] == "dict" and all(is_const(a, str) for a, _ in kv[1]):
                    kwargs += [(a[1], strip_when(b)[1]) for a, b in kv[1]]  # `**shared` of a known dict = its keywords
                else:
                    kwargs.append(("**", kv))
            else:
                kwargs.append((k.arg, self.ev(k.value, st)))
        kwargs = tuple(kwargs)
        mod = getattr(node, "_module", None) or (fn.module if fn else None)
        # resolve the callee
        head = func
        while isinstance(head, ast.Attribute):
            head = head.value
        target_q = None
        self_val = None
        if isinstance(head, ast.Name):
            local = st.lookup(head.id)
            if local is None or (head.id in {"self", "cls"} and isinstance(func, ast.Attribute) and isinstance(func.value, ast.Name)):
                scope = self.tree.func_of(node)
                target_q = self.tree.resolve(mod, func, scope) if mod is not None else None
                if local is not None and target_q is not None:
                    self_val = local
        fv = None
        if target_q is None:
            fv = self.ev(func, st)
            return self.apply(fv, args, kwargs, st, node)
        return self._call(target_q, self_val, fv, args, kwargs, st, node)

    def apply(self, fv, args, kwargs, st: State, node=None):
        """The value of calling the function VALUE ``fv`` (a local/global function, a lambda, a ``functools.partial``,
        a bound method or a callable instance of a package class, a builtin) with evaluated arguments."""
        k = fv[0]
        if k == "partial":
            merged = dict(fv[3])
            merged.update(dict(kwargs))
            return self.apply(fv[1], fv[2] + tuple(args), tuple(merged.items()), st, node)
        if k == "lambda" and fv[2] in self.lambdas:
            lnode, scopes, definer = self.lambdas[fv[2]]
            scopes = self._definer_scopes(definer, st) or scopes  # the variables of its definer as they are NOW
            bound = self._bind_args(lnode.args, args, kwargs, False)
            if bound is None or len(self._stack) > self.inline_depth + 4:
                return ("call", fv, args, kwargs)
            inner = State([dict(zip(_all_params(lnode), bound))] + scopes, st.pc)
            return self.ev(lnode.body, inner)
        if k == "localfunc" or (k == "global" and (fv[1] in self.tree.funcs or fv[1] in self.tree.classes)):
            return self._call(fv[1], None, fv, args, kwargs, st, node)
        if k == "builtin":
            return self._builtin(fv[1], args, kwargs, st)
        if k == "global":
            return self._call(fv[1], None, fv, args, kwargs, st, node)
        if k == "getter" and len(args) == 1 and not kwargs:
            if fv[1] == "attrgetter" and isinstance(fv[2], str):
                out = args[0]
                for part in fv[2].split("."):
                    out = self._attr(out, part)
                return out
            if fv[1] == "itemgetter":
                return self._subscript(args[0], ("const", fv[2]))
            if fv[1] in {"attrgetters", "itemgetters"}:
                return ("tuple", tuple(self.apply(("getter", fv[1][:-1], what), args, (), st, node) for what in fv[2]))
            if fv[1] == "methodcaller" and isinstance(fv[2], str):
                return self.apply(self._attr(args[0], fv[2]), (), (), st, node)
        if k == "attr":
            cq = self.class_of_object(fv[1])
            if cq is not None:
                m = self.tree.lookup_method(self.tree.classes[cq], fv[2])
                if m is not None:
                    return self._call(m.qual, fv[1], fv, args, kwargs, st, node)
            if fv[1] in {("param", "self"), ("param", "cls")} and self.root is not None and self.root.cls is not None and st.lookup(fv[1][1]) == fv[1]:
                # `self.method` of the analysed class held as a value (`map(self.__register, groups)`): the call `self.method(...)`
                m = self.tree.lookup_method(self.root.cls, fv[2])
                if m is not None and "property" not in {unparse(d).split(".")[-1] for d in m.node.decorator_list}:
                    return self._call(m.qual, fv[1], fv, args, kwargs, st, node)
            lib = self._method_of_value(fv[1], fv[2], args, kwargs, st)
            if lib is not None:
                return lib
            if fv[2] == "__getitem__" and len(args) == 1 and not kwargs:
                return self._subscript(fv[1], args[0])
            return ("call", fv, args, kwargs)
        cq = self.class_of_value(fv)
        if cq is not None:
            m = self.tree.lookup_method(self.tree.classes[cq], "__call__")
            if m is not None:
                return self._call(m.qual, fv, fv, args, kwargs, st, node)
        return ("call", fv, args, kwargs)

    def _call(self, target_q, self_val, fv, args, kwargs, st: State, node=None):
        fn = self._stack[-1].fn if self._stack else self.root
        if target_q is not None and target_q in self.tree.classes:
            bound = self.ctor_bind(target_q, args, kwargs, st)
            if bound is not None:
                return ("call", ("global", target_q), bound, ())
            return ("call", ("global", target_q), args, kwargs)
        if target_q is not None and target_q in self.tree.funcs:
            callee = self.tree.funcs[target_q]
            decos = {unparse(d).split(".")[-1].split("(")[0] for d in callee.node.decorator_list}
            is_method = callee.cls is not None and callee.outer is None and "staticmethod" not in decos
            if is_method and "classmethod" in decos:
                # `Cls.make(...)` / `cls.make(...)` / `obj.make(...)`: the first parameter is the class itself
                owner = self.class_of_value(self_val) if self_val is not None else None
                self_val = ("global", owner or callee.cls.qual)
            via_instance = is_method and self_val is not None
            bound = self.bind(callee, args, kwargs, skip_first=via_instance, st=st)
            inline = bound is not None and self._may_inline(callee, fn, self_val) and not (({"property", "singledispatch", "overload"} | (set() if self.inline_cached else {"cache", "lru_cache"})) & decos)
            pnames = _all_params(callee.node)[1 if via_instance else 0:]
            if bound is not None and not inline and any(v[0] in {"list", "dict", "set"} and p in self._assigned_names(callee.node.body) for p, v in zip(pnames, bound)):
                # the callee modifies a container of the caller in place and is not executed here: the container is unknown afterwards
                for p, v in zip(pnames, bound):
                    if v[0] in {"list", "dict", "set"} and p in self._assigned_names(callee.node.body):
                        self._replace_everywhere(v, self.unknown(f"a container may be modified in place by {callee.name}()"), st)
                bound = None
            if inline:
                env = dict(zip(pnames, bound))
                if via_instance:
                    env[_all_params(callee.node)[0]] = self_val
                outer_list = None
                if callee.outer is not None:
                    # nested function: sees (and with nonlocal: writes) the scopes of the running activation of its definer,
                    # also when it is called from somewhere else (handed to a helper, stored in a partial)
                    view = self._definer_view(callee.outer, st)
                    if view is None:
                        # the definer has returned (the closure escaped): the variables of the activation that made it
                        acts = self.escaped.get(callee.qual, [])
                        if len(acts) != 1:
                            return self.unknown(f"{callee.name}() is called outside its definer ({len(acts)} activations of the definer are known)")
                        view = (acts[0], 0)
                    outer_list, off = view
                    scopes = [env] + outer_list[off:]
                else:
                    scopes = [env]
                held = [(sc, k, x) for sc in scopes[1:] for k, x in sc.items() if isinstance(x, tuple) and x and x[0] in {"list", "dict", "set"}]
                n_outer = len(scopes) - 1
                inner = State(scopes, st.pc)
                self._live.append(st)
                try:
                    value, final = self._run_body(callee, inner)
                finally:
                    self._live.pop()
                if outer_list is not None and final.status != "raise" and len(final.scopes) - 1 == n_outer:
                    outer_list[off:] = final.scopes[1:]
                    # the suspended activation of the definer itself (if the view was taken from a descendant's state)
                    fns = [f.fn for f in self._stack]
                    for k in range(len(fns) - 1, -1, -1):
                        if fns[k] is callee.outer and k < len(self._live) and self._live[k].scopes is not outer_list and len(self._live[k].scopes) >= n_outer > 0:
                            self._live[k].scopes[len(self._live[k].scopes) - n_outer:] = final.scopes[1:]
                            break
                    # containers of the definer that the closure modified in place: everything else that holds the identical
                    # object (the caller got it as a second return value, an alias) sees the modification
                    for sc, k, x in held:
                        pos = next((i for i, y in enumerate(scopes) if y is sc), None)
                        now = final.scopes[pos].get(k) if pos is not None and pos < len(final.scopes) else None
                        if now is not None and now is not x:
                            self._replace_everywhere(x, now, st)
                if final.status == "raise":
                    st.status = "raise"
                else:
                    # containers handed in by the caller and modified in place by the callee: the caller (everything that
                    # holds the identical object) sees the modification
                    for p, v in zip(pnames, bound):
                        if v[0] in {"list", "dict", "set"}:
                            after = final.scopes[0].get(p)
                            if after is not None and after is not v:
                                if _rebinds(callee.node.body, p):
                                    after = self.unknown(f"`{p}` is rebound inside {callee.name}()")
                                self._replace_everywhere(v, after, st)
                                value = _replace_identity(value, v, after)
                st.pc = final.pc if len(final.pc) >= len(st.pc) and final.pc[: len(st.pc)] == st.pc else st.pc
                return value
            f = ("method", target_q, self_val) if via_instance else (("localfunc", target_q) if callee.outer is not None else ("global", target_q))
            if bound is not None:
                v = ("call", f, bound, ())
            else:
                v = ("call", f, args, kwargs)
            if self.stubs and v in self.stubs:
                return self.stubs[v]
            if callee.outer is not None or any(fr.fn is callee for fr in self._stack):
                self._event("localcall", st, v, st.snapshot())
                # the body was not executed: what it writes through `nonlocal` is unknown from here on
                written = {name for n in ast.walk(callee.node) if isinstance(n, ast.Nonlocal) for name in n.names}
                # ... and so are the containers of the enclosing scopes that it fills / modifies in place
                own = set(_all_params(callee.node)) | {n.id for n in _walk_own(callee.node) if isinstance(n, ast.Name) and isinstance(n.ctx, ast.Store)}
                written |= {name for name in self._assigned_names(callee.node.body) if name not in own - written
                            and (st.lookup(name) or ("?",))[0] in {"list", "dict", "set"}}
                if written and not any(fr.fn is callee for fr in self._stack):
                    uid = self.uid()
                    for name in sorted(written):
                        for s in st.scopes:
                            if name in s:
                                s[name] = ("carried-out", name, uid)
                                break
            return v
        if target_q is not None:
            name = target_q
            if "." not in name and "::" not in name:
                import builtins

                if hasattr(builtins, name):
                    return self._builtin(name, args, kwargs, st)
            lib = self._library(name, args, kwargs, st)
            if lib is not None:
                return lib
            return ("call", ("global", target_q), args, kwargs)
        return ("call", fv, args, kwargs)

    def _chain_len(self, g: FuncInfo | None) -> int | None:
        """Number of scopes in the chain of an activation of ``g`` (its own + those of its lexical ancestors)."""
        n = 0
        while g is not None:
            if g is self.root and self._root_len is not None:
                return n + self._root_len
            n += 1
            g = g.outer
        return n

    def _definer_view(self, definer: FuncInfo | None, st: State):
        """``(scope list, offset)`` of the scope chain of the running activation of ``definer`` as it is NOW: the tail of the
        current state if the executing function is ``definer`` or nested in it (the current state carries the latest
        version of those scopes), else that of the suspended state of its frame; None if it is not running."""
        if definer is None:
            return None
        fns = [f.fn for f in self._stack]
        n = self._chain_len(definer)
        f = fns[-1] if fns else None
        while f is not None:
            if f is definer:
                if n is not None and len(st.scopes) >= n:
                    return st.scopes, len(st.scopes) - n
                break
            f = f.outer
        for k in range(len(fns) - 1, -1, -1):
            if fns[k] is definer and k < len(self._live):
                lst = self._live[k].scopes
                if n is not None and len(lst) >= n:
                    return lst, len(lst) - n
        return None

    def _definer_scopes(self, definer: FuncInfo | None, st: State):
        view = self._definer_view(definer, st)
        return None if view is None else view[0][view[1]:] if definer is not (self._stack[-1].fn if self._stack else None) else st.scopes

    def _replace_everywhere(self, old, new, st: State) -> None:
        """Everything in the running scopes that holds the identical object ``old`` (also nested in other values) holds ``new``."""
        for s in [st, *self._live]:
            for scope in s.scopes:
                for key, v in list(scope.items()):
                    nv = _replace_identity(v, old, new)
                    if nv is not v:
                        scope[key] = nv

    def _concrete_list_op(self, name: str, cur, op: str, args: list, st: State):
        """In-place operation on a list whose elements are all known: executed.  ``(result,)`` or None if not decidable
        (an element that is looked up must be structurally present, and everything in front of it must be an atom -
        literal or symbol - that is certainly different)."""
        items = self._plain(cur)
        if items is None:
            return None
        atom = lambda x: x[0] in {"const", "sym"}  # noqa: E731

        def position(x):
            for i, it in enumerate(items):
                if it == x:
                    return i
                if not (atom(it) and atom(x)):
                    return None  # could be equal at run time
            return None

        new, result = None, NONE
        if op == "reverse" and not args:
            new = list(reversed(items))
        elif op == "clear" and not args:
            new = []
        elif op == "copy" and not args:
            return (("list", tuple(items)),)
        elif op in {"remove", "index"} and len(args) == 1:
            i = position(args[0])
            if i is None:
                return None
            if op == "index":
                return (("const", i),)
            new = items[:i] + items[i + 1:]
        elif op == "pop" and len(args) <= 1 and items:
            i = args[0][1] if args and is_const(args[0], int) else -1 if not args else None
            if i is None or not -len(items) <= i < len(items):
                return None
            result = items[i]
            new = [x for k, x in enumerate(items) if k != i % len(items)]
        elif op == "insert" and len(args) == 2 and is_const(args[0], int):
            new = list(items)
            new.insert(args[0][1], args[1])
        if new is None:
            return None
        self._event("mutate", st, name, op, tuple(args))
        self._rebind_container(name, cur, ("list", tuple(new)), st)
        return (result,)

    def _rebind_container(self, name: str, old, new, st: State) -> None:
        # aliases (`b = a`) and values that contain the object (a partial that was given the list) hold the identical
        # object: they see the mutation as well
        hit = False
        for s in st.scopes:
            for other, v in list(s.items()):
                if v is old:
                    s[other] = new
                    hit = hit or other == name
                elif isinstance(v, tuple) and v and v[0] in {"partial", "tuple", "call"}:
                    nv = _replace_identity(v, old, new)
                    if nv is not v:
                        s[other] = nv
        if not hit:
            st.store(name, new)

    def _builtin(self, name: str, args, kwargs, st):
        v = ("call", ("builtin", name), args, kwargs)
        if name == "sum" and 1 <= len(args) <= 2 and not (kwargs and (len(args) == 2 or kwargs[0][0] != "start" or len(kwargs) > 1)):
            start = args[1] if len(args) == 2 else kwargs[0][1] if kwargs else ("const", 0)
            return self._fold(lambda acc, x: self._binop("+", acc, x), args[0], start, "sum") or v
        if not kwargs:
            if name == "len" and len(args) == 1:
                seq = self._plain(args[0])
                if seq is not None and args[0][0] in {"tuple", "list"} or args[0] in self.lengths:
                    return ("const", len(seq))
            if name in {"list", "tuple"} and len(args) == 1:
                seq = self.as_items(args[0])
                if seq is not None:
                    return (name, tuple(seq))
            if name in {"list", "tuple", "dict", "set"} and not args:
                return (name, ())
            if name == "dict" and len(args) == 1:
                if args[0][0] == "dict":
                    return ("dict", args[0][1])  # a copy
                seq = self._plain(args[0])
                if seq is not None and all(x[0] == "tuple" and len(x[1]) == 2 for x in seq):
                    out: dict = {}
                    for x in seq:
                        out[x[1][0]] = x[1][1]
                    return ("dict", tuple(out.items()))
                seq = self.as_items(args[0])
                if seq is not None:
                    # dict(chain.from_iterable(m.items() for m in ...)) = the dict that is updated with every m
                    entries = []
                    for x in seq:
                        es, cs, plain = unwrap(x)
                        if plain[0] == "star" and plain[1][0] == "call" and plain[1][1][0] == "attr" and plain[1][1][2] == "items" and not plain[1][2]:
                            k, val = ("star", plain[1][1][1]), NONE
                        elif plain[0] == "tuple" and len(plain[1]) == 2:
                            k, val = plain[1]
                        else:
                            entries = None
                            break
                        if cs:
                            k = ("when", cs, k)
                        for e in reversed(es):
                            k = ("foreach", e, k)
                        entries.append((k, val))
                    if entries is not None:
                        return ("dict", tuple(entries))
            if name == "map" and len(args) >= 2:
                return self._map(args[0], args[1:], st) or v
            if name == "filter" and len(args) == 2:
                return self._filter(args[0], args[1], st) or v
            if name == "str" and len(args) == 1 and (is_const(args[0], str, int) or args[0][0] == "fstr"):
                return ("const", str(args[0][1])) if is_const(args[0]) else args[0]
            if name == "sorted" and len(args) == 1:
                seq = self._plain(args[0])
                if seq is not None and all(is_const(x, int, float, str) for x in seq):
                    try:
                        return ("list", tuple(sorted(seq, key=lambda x: x[1])))
                    except TypeError:
                        pass
            if name == "next" and len(args) == 1 and args[0][0] == "call" and args[0][1] == ("builtin", "iter") and len(args[0][2]) == 1:
                seq = self._plain(args[0][2][0])
                if seq:
                    return seq[0]
        return v

    # ------------------------------------------------- higher-order functions
    def _elements(self, v):
        """``[(wrappers, element)]`` for the elements of an iterable: known elements one by one, the elements of a
        comprehension / generic loop as one generic element below its ``foreach`` / ``when`` wrappers, an unknown iterable
        as ``("each", v, n)``.  None if the iterable contains starred parts of unknown length."""
        seq = self.as_items(v)
        if seq is None:
            if v[0] in {"const", "dict", "set", "phi", "unknown", "carried-out", "fold"}:
                return None
            each = ("each", v, self.uid())
            return [((("foreach", each),), each)]
        out = []
        for x in seq:
            wraps = ()
            while isinstance(x, tuple) and x and x[0] in {"foreach", "when"}:
                wraps += ((x[0], x[1]),)
                x = x[2]
            if x[0] == "star":
                # `[*f(t) for t in ts]` / `chain.from_iterable(map(f, ts))`: one generic element of the starred iterable
                if x[1][0] in {"const", "dict", "set", "phi", "unknown", "carried-out", "fold"}:
                    return None
                inner = ("each", x[1], self.uid())
                wraps += (("foreach", inner),)
                x = inner
            out.append((wraps, x))
        return out

    @staticmethod
    def _wrap(wraps, x):
        for kind, w in reversed(wraps):
            x = (kind, w, x)
        return x

    def _map(self, f, iterables, st):
        cols = [self._elements(it) for it in iterables]
        if any(c is None for c in cols):
            return None
        if len(cols) > 1 and (len({len(c) for c in cols}) != 1 or any(w for c in cols for w, _ in c)):
            return None
        return ("list", tuple(self._wrap(cols[0][i][0], self.apply(f, tuple(c[i][1] for c in cols), (), st)) for i in range(len(cols[0]))))

    def _filter(self, f, iterable, st):
        col = self._elements(iterable)
        if col is None:
            return None
        out = []
        for wraps, x in col:
            test = x if f == NONE else self.apply(f, (x,), (), st)
            t = truth(test)
            if t is False:
                continue
            out.append(self._wrap(wraps + ((("when", (normal(test),)),) if t is None else ()), x))
        return ("list", tuple(out))

    def _fold(self, step, iterable, init, name: str):
        """Left fold of ``step(accumulator, element)`` over an iterable: known elements are applied one after the other,
        the elements of a comprehension / an unknown iterable give ``("fold", eaches, init, step value, head)`` where
        ``head = ("carried", name, n)`` stands for the accumulator before the step."""
        if isinstance(iterable, tuple) and iterable and iterable[0] == "phi":
            # the collection was built differently on different paths (`xs.insert(0, c)` under an `if`): the fold of
            # each alternative, under the condition of that alternative
            return self._per_alternative(iterable, lambda x: self._fold(step, x, init, name))
        col = self._elements(iterable)
        if col is None:
            return None
        acc = init
        for wraps, x in col:
            if not wraps:
                acc = step(acc, x)
                continue
            head = ("carried", f"<{name}>", self.uid())
            value = step(head, x)
            conds = tuple(c for kind, w in wraps if kind == "when" for c in w)
            if conds:
                value = ("when", conds, value)
            acc = ("fold", tuple(w for kind, w in wraps if kind == "foreach"), acc, value, head)
        return acc

    def _per_alternative(self, phi, f, st: "State | None" = None):
        """``f`` applied to every alternative of a conditional value, as the conditional value of the results (None if one
        of them is not read).  What ``f`` does (calls it records) happens under the condition of the alternative."""
        alts = []
        for p, x in phi[1]:
            before = st.pc if st is not None else None
            if st is not None:
                st.pc = before + tuple(c for c in p if c not in before)
            try:
                r = self._per_alternative(x, f, st) if isinstance(x, tuple) and x and x[0] == "phi" else f(x)
            finally:
                if st is not None:
                    st.pc = before
            if r is None:
                return None
            alts.append((p, r))
        if alts and all(r == alts[0][1] for _, r in alts):
            return alts[0][1]
        return ("phi", tuple(alts))

    def _library(self, name: str, args, kwargs, st):
        """Standard-library combinators that only re-spell a loop, a call or a tuple."""
        if name == "functools.partial" and args:
            return ("partial", args[0], tuple(args[1:]), tuple(kwargs))
        if name == "functools.reduce" and 2 <= len(args) <= 3 and not kwargs:
            if args[1][0] == "phi":
                return self._per_alternative(args[1], lambda x: self._library(name, (args[0], x, *args[2:]), kwargs, st), st)
            if len(args) == 2:
                seq = self._plain(args[1])
                if seq is None:
                    # elements not known one by one (a comprehension / an unknown iterable): without an initial value
                    # `reduce(operator.mul, xs)` of a non-empty xs is the fold from the neutral element (an empty xs raises);
                    # what the step function does is probed on two symbols (operator.mul, a lambda, a local def)
                    a, b = ("sym", "<reduce a>"), ("sym", "<reduce b>")
                    probe = self.apply(args[0], (a, b), (), st)
                    neutral = ("const", 1) if probe == ("mul", (a, b)) else ("const", 0) if probe == ("binop", "+", a, b) else None
                    if neutral is None:
                        return None
                    return self._fold(lambda acc, x: self.apply(args[0], (acc, x), (), st), args[1], neutral, "reduce")
                if not seq:
                    return None
                return self._fold(lambda acc, x: self.apply(args[0], (acc, x), (), st), (args[1][0] if args[1][0] in {"list", "tuple"} else "list", tuple(seq[1:])), seq[0], "reduce")
            return self._fold(lambda acc, x: self.apply(args[0], (acc, x), (), st), args[1], args[2], "reduce")
        if name in {"itertools.chain", "itertools.chain.from_iterable"} and not kwargs:
            parts = list(args)
            if name.endswith("from_iterable"):
                if len(args) != 1:
                    return None
                col = self._elements(args[0])
                if col is None:
                    return None
                out = []
                for wraps, x in col:
                    inner = self.as_items(x) if not wraps else None
                    out += inner if inner is not None else [self._wrap(wraps, ("star", x))]
                return ("list", tuple(out))
            out = []
            for x in parts:
                es, cs, plain = unwrap(x)
                inner = self.as_items(plain) if not es and not cs else None
                if inner is not None:
                    out += inner
                else:
                    y = ("star", plain)
                    if cs:
                        y = ("when", cs, y)
                    for e in reversed(es):
                        y = ("foreach", e, y)
                    out.append(y)
            return ("list", tuple(out))
        if name == "itertools.starmap" and len(args) == 2 and not kwargs:
            col = self._elements(args[1])
            if col is None:
                return None
            out = []
            for wraps, x in col:
                xs = self._plain(x)
                if xs is None:
                    n = self._arity(args[0])
                    if n is None or x[0] in {"unknown", "phi", "const"}:
                        return None
                    xs = self.unpack(x, n)  # a generic element: as many components as the function has parameters
                out.append(self._wrap(wraps, self.apply(args[0], tuple(xs), (), st)))
            return ("list", tuple(out))
        if name == "itertools.product" and args and not [k for k, _ in kwargs if k != "repeat"]:
            cols = [self._plain(a) for a in args]
            repeat = dict(kwargs).get("repeat", ("const", 1))
            if all(c is not None for c in cols) and is_const(repeat, int) and 0 < repeat[1] <= 4:
                import itertools

                combos = list(itertools.product(*(cols * repeat[1])))
                if len(combos) <= 256:
                    return ("list", tuple(("tuple", tuple(c)) for c in combos))
            return None
        if name in {"operator.attrgetter", "operator.itemgetter", "operator.methodcaller"} and len(args) == 1 and not kwargs and is_const(args[0]):
            return ("getter", name.split(".")[-1], args[0][1])
        if name in {"operator.attrgetter", "operator.itemgetter"} and len(args) > 1 and not kwargs and all(is_const(a) for a in args):
            # several attributes / items: the getter returns the tuple of them
            return ("getter", name.split(".")[-1] + "s", tuple(a[1] for a in args))
        if name in {"operator.mul", "operator.add", "operator.sub", "operator.matmul", "operator.truediv"} and len(args) == 2 and not kwargs:
            return self._binop({"mul": "*", "add": "+", "sub": "-", "matmul": "@", "truediv": "/"}[name.split(".")[-1]], args[0], args[1])
        if name == "operator.getitem" and len(args) == 2 and not kwargs:
            return self._subscript(args[0], args[1])
        if name == "math.prod" and 1 <= len(args) <= 2:
            start = args[1] if len(args) == 2 else dict(kwargs).get("start", ("const", 1))
            return self._fold(lambda acc, x: self._binop("*", acc, x), args[0], start, "prod")
        return None

    def _arity(self, fv) -> int | None:
        """Number of positional parameters of a function value that takes nothing else."""
        node = None
        if fv[0] == "lambda" and fv[2] in self.lambdas:
            node = self.lambdas[fv[2]][0].args
        elif fv[0] in {"localfunc", "global"} and fv[1] in self.tree.funcs:
            node = self.tree.funcs[fv[1]].node.args
        if node is None or node.vararg or node.kwarg or node.kwonlyargs or node.defaults:
            return None
        return len(node.posonlyargs) + len(node.args)

    def _method_of_value(self, base, attr: str, args, kwargs, st):
        """Methods of known values that the executor folds: ``d.get(k, default)`` / ``d.items()`` ... of a known dict,
        ``sep.join(parts)`` / ``template.format(...)`` of constant strings, ``xs.copy()``; ``dict.fromkeys(keys, v)`` is the
        dict ``{k: v for k in keys}`` (the keys of a comprehension / generator keep their ``foreach`` / ``when`` wrappers)."""
        if base == ("builtin", "dict") and attr == "fromkeys" and 1 <= len(args) <= 2 and not kwargs:
            col = self._elements(args[0])
            if col is not None:
                value = args[1] if len(args) == 2 else NONE
                return ("dict", tuple((self._wrap(wraps, x), value) for wraps, x in col))
        if base[0] == "dict" and not kwargs and not any(k[0] in {"star", "foreach"} for k, _ in base[1]):
            if attr == "get" and 1 <= len(args) <= 2:
                for k, x in base[1]:
                    if k == args[0]:
                        return x
                if is_const(args[0]) and all(is_const(k) for k, _ in base[1]):
                    return args[1] if len(args) == 2 else NONE
            if attr == "items" and not args:
                return ("list", tuple(("tuple", (k, x)) for k, x in base[1]))
            if attr == "keys" and not args:
                return ("list", tuple(k for k, _ in base[1]))
            if attr == "values" and not args:
                return ("list", tuple(x for _, x in base[1]))
        if base[0] in {"list", "dict", "set"} and attr == "copy" and not args and not kwargs:
            return (base[0], base[1])
        cq = self.class_of_value(base)
        if cq is not None and attr in {"_asdict", "_fields"} and not args and not kwargs and not base[3]:
            info = self.ctor_fields(cq)
            if info is not None and len(info[0]) == len(base[2]) and "NamedTuple" in {b.split(".")[-1].split("::")[-1] for b in self.tree.classes[cq].bases}:
                if attr == "_fields":
                    return ("tuple", tuple(("const", n) for n in info[0]))
                return ("dict", tuple((("const", n), x) for n, x in zip(info[0], base[2])))
        if is_const(base, str) and attr == "join" and len(args) == 1 and not kwargs:
            seq = self._plain(args[0])
            if seq is not None:
                parts = []
                for i, x in enumerate(seq):
                    if i and base[1]:
                        parts.append(base)
                    parts.append(x)
                return self._fstr(parts)
        if is_const(base, str) and attr == "format" and not any(k == "**" for k, _ in kwargs) and not any(a[0] == "star" for a in args):
            import string

            try:
                fields = list(string.Formatter().parse(base[1]))
            except ValueError:
                fields = None
            named, parts, auto = dict(kwargs), [], 0
            for literal, field, spec, conv in fields or []:
                if literal:
                    parts.append(("const", literal))
                if field is None:
                    continue
                if spec or conv:
                    parts = None
                    break
                if field == "":
                    field, auto = str(auto), auto + 1
                v = args[int(field)] if field.isdigit() and int(field) < len(args) else named.get(field)
                if v is None:
                    parts = None
                    break
                parts.append(v)
            if fields is not None and parts is not None:
                return self._fstr(parts)
        if base[0] == "getter":
            return None
        return None

    def _fstr(self, parts):
        """Normal form of built text: adjacent constants joined, nested f-strings flattened, ``str(x)`` = ``x``."""
        flat = []
        for x in parts:
            if x[0] == "call" and x[1] == ("builtin", "str") and len(x[2]) == 1 and not x[3]:
                x = x[2][0]
            for y in (x[1] if x[0] == "fstr" else (x,)):
                if is_const(y, str, int) and not isinstance(y[1], bool) and flat and is_const(flat[-1], str):
                    flat[-1] = ("const", flat[-1][1] + str(y[1]))
                elif is_const(y, str, int) and not isinstance(y[1], bool):
                    flat.append(("const", str(y[1])))
                else:
                    flat.append(y)
        flat = [x for x in flat if x != ("const", "")]
        if all(is_const(x, str) for x in flat):
            return ("const", "".join(x[1] for x in flat))
        return ("fstr", tuple(flat))

    def class_of_value(self, v) -> str | None:
        if isinstance(v, tuple) and v[0] == "call" and v[1][0] == "global" and v[1][1] in self.tree.classes:
            return v[1][1]
        return None

    def class_of_object(self, v) -> str | None:
        """The class of an object value: one that was constructed in the analysed code, or one that the instance of the
        analysed class OWNS (``self.<attr>`` where every binding of that attribute in the package is ``self.<attr> =
        Cls(...)`` inside the class hierarchy of the analysed method: the object is a ``Cls``, never a subclass)."""
        cq = self.class_of_value(v)
        if cq is not None:
            return cq
        if isinstance(v, tuple) and len(v) == 3 and v[0] == "attr" and v[1] == ("param", "self") and isinstance(v[2], str):
            return self._owned_class(v[2])
        return None

    def _owned_class(self, attr: str) -> str | None:
        top = self.root
        while top is not None and top.outer is not None:
            top = top.outer
        if top is None or top.cls is None or not top.params or top.params[0] != "self":
            return None
        if any(unparse(d).split(".")[-1] in {"staticmethod", "classmethod"} for d in top.node.decorator_list):
            return None
        cache = self.__dict__.setdefault("_owned_cache", {})
        if attr in cache:
            return cache[attr]
        cls = top.cls
        family = [cls, *self.tree.subclasses(cls), *[k for k in self.tree.mro(cls) if k is not cls]]
        private = attr.startswith("__") and not attr.endswith("__")
        names = {attr} | ({f"_{k.name.lstrip('_')}{attr}" for k in family} if private else set())
        found: set = set()
        inside: set = set()
        for k in family:
            if attr in k.methods or any(isinstance(n, (ast.Assign, ast.AnnAssign)) and any(isinstance(t, ast.Name) and t.id == attr for t in (n.targets if isinstance(n, ast.Assign) else [n.target])) for n in k.node.body):
                found.add(None)  # a property / class attribute of that name: not a plain instance attribute
            for m in k.methods.values():
                for n in ast.walk(m.node):
                    tgts = n.targets if isinstance(n, ast.Assign) else [n.target] if isinstance(n, ast.AnnAssign) and n.value is not None else []
                    for t in tgts:
                        if isinstance(t, ast.Attribute) and t.attr in names and isinstance(t.value, ast.Name) and m.params and t.value.id == m.params[0] and m.outer is None:
                            inside.add(id(t))
                            q = self.tree.resolve(m.module, n.value.func, m) if isinstance(n.value, ast.Call) else None
                            found.add(q if q in self.tree.classes else None)
        # any other binding of an attribute of that name (on any receiver, anywhere in the package) may be this one
        for mod in {f.module.name: f.module for f in self.tree.funcs.values()}.values():
            for n in ast.walk(mod.tree):
                if isinstance(n, ast.Attribute) and n.attr in names and isinstance(n.ctx, (ast.Store, ast.Del)) and id(n) not in inside:
                    found.add(None)
                elif isinstance(n, ast.Call) and isinstance(n.func, (ast.Name, ast.Attribute)) and (n.func.id if isinstance(n.func, ast.Name) else n.func.attr) in {"setattr", "__setattr__", "delattr"}:
                    given = [a.value for a in n.args[:2] if isinstance(a, ast.Constant) and isinstance(a.value, str)]  # (obj, name, ..) / (name, ..)
                    if set(given) & names or (not given and not private):
                        # set by name: by this very name, or by a computed one (a computed name is not taken to spell the
                        # mangled name `_Cls__attr` of a private attribute)
                        found.add(None)
        cache[attr] = next(iter(found)) if len(found) == 1 and None not in found else None
        return cache[attr]

    def _may_inline(self, callee: FuncInfo, caller: FuncInfo | None, self_val=None) -> bool:
        if callee.qual in self.atoms or callee.name in self.atoms:
            return False
        if callee.cls is not None and (callee.cls.qual in self.atoms or callee.cls.name in self.atoms):
            return False
        if len(self._stack) > self.inline_depth + self.unroll:
            return False
        if self.unroll:
            if sum(1 for fr in self._stack if fr.fn is callee) > self.unroll:
                return False  # concrete recursion: bounded number of activations
        elif any(fr.fn is callee for fr in self._stack) or _calls_itself(callee):
            return False
        root = self._stack[0].fn if self._stack else caller
        if callee.outer is not None:
            return True
        if callee.cls is not None and root is not None and root.cls is not None and callee.cls in self.tree.mro(root.cls):
            return True
        if callee.cls is not None and self_val is not None and self.class_of_object(self_val) is not None and root is not None and callee.module is root.module:
            return self.inline_modules  # method of an object that was constructed here (its class lives in the same module)
        if callee.cls is not None and root is not None and callee.module is root.module and self.inline_modules:
            decos = {unparse(d).split(".")[-1].split("(")[0] for d in callee.node.decorator_list}
            if decos & {"classmethod", "staticmethod"} and callee.cls.name.startswith("_"):
                return True  # alternative constructor / static helper of a private helper class of the module
        if self.inline_modules and root is not None and callee.cls is None and callee.module is not root.module:
            # a PRIVATE helper that lives in another module of the package (moved into a `_util` module) is still a helper
            return callee.name.startswith("_") and not callee.name.startswith("__") and callee.qual.split(".")[0] == root.qual.split(".")[0]
        return self.inline_modules and root is not None and callee.module is root.module and callee.cls is None

    def bind(self, callee: FuncInfo, args, kwargs, skip_first: bool, st: State | None = None):
        """Values of the callee's parameters in declaration order (``_all_params``: positional, keyword-only, ``*args`` as a
        tuple, ``**kwargs`` as a dict), or None when the call cannot be bound."""
        return self._bind_args(callee.node.args, args, kwargs, skip_first)

    def _bind_args(self, a: ast.arguments, args, kwargs, skip_first: bool):
        if any(k == "**" for k, _ in kwargs):
            return None
        pos = [x.arg for x in [*a.posonlyargs, *a.args]]
        kwonly = [x.arg for x in a.kwonlyargs]
        defaults: dict[str, ast.AST] = dict(zip(pos[len(pos) - len(a.defaults):], a.defaults))
        defaults.update({n: d for n, d in zip(kwonly, a.kw_defaults) if d is not None})
        if skip_first:
            pos = pos[1:]
        stars = [i for i, x in enumerate(args) if x[0] == "star"]
        if stars and (a.vararg is None or stars[0] < len(pos)):
            return None  # a starred argument of unknown length may fill named parameters
        if len(args) > len(pos) and a.vararg is None:
            return None
        vals: dict[str, object] = dict(zip(pos, args))
        rest = tuple(args[len(pos):])
        extra = []
        for k, v in kwargs:
            if k in vals:
                return None
            if k not in pos + kwonly:
                if a.kwarg is None:
                    return None
                extra.append((("const", k), v))
                continue
            vals[k] = v
        out = []
        for p in pos + kwonly:
            if p in vals:
                out.append(vals[p])
            elif p in defaults:
                d = defaults[p]
                out.append(self.ev(d, State([{}])) if isinstance(d, (ast.Constant, ast.Name, ast.Attribute, ast.UnaryOp, ast.Tuple)) else ("default", p))
            else:
                return None
        if a.vararg is not None:
            out.append(("tuple", rest))
        if a.kwarg is not None:
            out.append(("dict", tuple(extra)))
        return tuple(out)

    # ------------------------------------------------------------- objects
    def ctor_fields(self, cq: str):
        """How instances of the package class ``cq`` are constructed: ``(parameter names, {attribute: value in terms of
        ("param", name)})`` - from ``__init__`` (unconditional ``self.x = <value>`` stores) or from the declared fields of an
        attrs / dataclass / NamedTuple class.  None when the class is not understood."""
        if cq in self._ctor_cache:
            return self._ctor_cache[cq]
        self._ctor_cache[cq] = None
        cinfo = self.tree.classes[cq]
        init = self.tree.lookup_method(cinfo, "__init__")
        result = None
        if init is not None:
            if init.node.args.vararg is None and init.node.args.kwarg is None:
                sub = SymEx(self.tree, atoms=self.atoms, inline_depth=self.inline_depth, inline_modules=self.inline_modules)
                try:
                    _, _ = sub.run(init)
                    me = ("param", _all_params(init.node)[0])
                    attrs_: dict = {}
                    for e in sub.events:
                        if e[0] == "store" and e[2][0] == "attr" and e[2][1] == me:
                            attrs_[e[2][2]] = e[3] if e[1] == () and e[2][2] not in attrs_ else ("unknown", 0, f"self.{e[2][2]} is assigned conditionally / repeatedly")
                    result = (_all_params(init.node)[1:], {} if sub.imprecise else attrs_, init.node.args)
                except Exception:  # noqa: BLE001 - a constructor that cannot be executed symbolically is simply not understood
                    result = (_all_params(init.node)[1:], {}, init.node.args)
        else:
            decos = {unparse(d).split("(")[0].split(".")[-1] for d in cinfo.node.decorator_list}
            bases = {b.split(".")[-1].split("::")[-1] for b in cinfo.bases}
            is_attrs = bool(decos & {"define", "frozen", "mutable", "s", "attrs"})
            if is_attrs or "dataclass" in decos or "NamedTuple" in bases:
                pos, kwonly, attrs_ = [], [], {}
                for c in [x for b in reversed(self.tree.mro(cinfo)) for x in b.node.body]:
                    if not (isinstance(c, ast.AnnAssign) and isinstance(c.target, ast.Name)) or "ClassVar" in unparse(c.annotation):
                        continue
                    name, dflt, in_init, conv, kw = c.target.id, c.value, True, None, False
                    if isinstance(dflt, ast.Call) and unparse(dflt.func).split(".")[-1] in {"field", "ib", "attrib"}:
                        spec = {k.arg: k.value for k in dflt.keywords if k.arg}
                        in_init = not (isinstance(spec.get("init"), ast.Constant) and spec["init"].value is False)
                        conv = spec.get("converter")
                        kw = isinstance(spec.get("kw_only"), ast.Constant) and bool(spec["kw_only"].value)
                        fac = spec.get("factory") or spec.get("default_factory")
                        dflt = spec.get("default") if fac is None else ast.copy_location(ast.Call(func=fac, args=[], keywords=[]), c)
                    if not in_init:
                        attrs_[name] = ("default", name)  # per-object state that the constructor does not receive
                        continue
                    param = name.lstrip("_") if is_attrs else name  # attrs strips the underscores of private attributes
                    val = ("param", param)
                    if conv is not None:
                        val = ("call", self.ev(conv, State([{}])), (val,), ())
                    attrs_[name] = val
                    (kwonly if kw else pos).append((param, dflt))
                tail = []
                for _, d in reversed(pos):
                    if d is None:
                        break
                    tail.insert(0, d)
                a = ast.arguments(posonlyargs=[], args=[ast.arg(arg=n) for n, _ in pos], vararg=None, kwonlyargs=[ast.arg(arg=n) for n, _ in kwonly],
                                  kw_defaults=[d for _, d in kwonly], kwarg=None, defaults=tail)
                result = ([n for n, _ in pos] + [n for n, _ in kwonly], attrs_, a)
        self._ctor_cache[cq] = result
        return result

    def ctor_bind(self, cq: str, args, kwargs, st: State | None = None):
        """Constructor arguments of ``cq(...)`` in the order of ``ctor_fields(cq)[0]`` (keyword / positional / defaults resolved)."""
        info = self.ctor_fields(cq)
        if info is None:
            return None
        return self._bind_args(info[2], args, kwargs, skip_first=self.tree.lookup_method(self.tree.classes[cq], "__init__") is not None)

    def object_attr(self, obj, name: str):
        """``obj.name`` of an object that was constructed in the analysed code (``("call", ("global", <class>), bound, ())``):
        the value the constructor gave it, if no method of the class assigns the attribute again and the value is not a
        mutable container (those are per-object state: left as ``("attr", obj, name)``)."""
        cq = self.class_of_value(obj)
        if cq is None or obj[3]:
            return None
        info = self.ctor_fields(cq)
        if info is None or name not in info[1] or len(info[0]) != len(obj[2]):
            return None
        v = subst(info[1][name], {("param", p): a for p, a in zip(info[0], obj[2])})
        if v[0] in {"list", "dict", "set", "unknown", "default"} or any(x[0] in {"unknown", "default"} for x in subterms(v)):
            return None
        cinfo = self.tree.classes[cq]
        for m in cinfo.methods.values():
            if m.name == "__init__":
                continue
            for n in ast.walk(m.node):
                if isinstance(n, ast.Attribute) and n.attr == name and isinstance(n.ctx, (ast.Store, ast.Del)):
                    return None
        return v


# ---------------------------------------------------------------------------- helpers
def truth(v):
    """Python truth value of a value if it is known."""
    if is_const(v):
        return bool(v[1])
    if isinstance(v, tuple) and v and v[0] in {"tuple", "list", "set", "dict"} and not any(x[0] in {"foreach", "star", "when"} for x in (v[1] if v[0] != "dict" else [k for k, _ in v[1]])):
        return bool(v[1])
    return None


def normal(test):
    """(test in positive normal form, outcome that means "test is true")."""
    pos = True
    while True:
        if test[0] == "not":
            test, pos = test[1], not pos
            continue
        if test[0] == "cmp" and test[1] in NEG:
            test, pos = ("cmp", NEG[test[1]], test[2], test[3]), not pos
            continue
        return test, pos


def _replace_identity(v, old, new):
    """``v`` with the identical object ``old`` (at any depth) replaced by ``new``; ``v`` itself if it does not occur."""
    if v is old:
        return new
    if isinstance(v, tuple):
        out = None
        for i, x in enumerate(v):
            if isinstance(x, tuple):
                nx = _replace_identity(x, old, new)
                if nx is not x:
                    if out is None:
                        out = list(v)
                    out[i] = nx
        if out is not None:
            return tuple(out)
    return v


def _fold_heads(v) -> set:
    """The accumulator symbols that folds inside ``v`` bind themselves (they are not loop-carried names of the caller)."""
    return {t[4] for t in subterms(v) if t[0] == "fold" and len(t) == 5}


def _common(a: tuple, b: tuple) -> tuple:
    n = 0
    for x, y in zip(a, b):
        if x != y:
            break
        n += 1
    return a[:n]


def _merge_lists(vals):
    """Join of containers (list / set / dict) that share a prefix and differ in conditional items added on different paths."""
    if not all(v is not None and v[0] in {"list", "set", "dict"} and v[0] == vals[0][0] for v in vals):
        return None
    kind = vals[0][0]
    prefix = vals[0][1]
    for v in vals[1:]:
        prefix = _common(prefix, v[1])
    tails = [v[1][len(prefix):] for v in vals]
    if kind == "dict":
        if any(x[1][0] not in {"when", "foreach"} and x[0][0] not in {"when", "foreach"} for t in tails for x in t):
            return None
    elif any(x[0] not in {"when", "foreach"} for t in tails for x in t):
        return None
    out = prefix
    for t in tails:
        out += t
    return (kind, out)


def _all_params(fn: ast.FunctionDef) -> list[str]:
    a = fn.args
    out = [x.arg for x in [*a.posonlyargs, *a.args, *a.kwonlyargs]]
    if a.vararg:
        out.append(a.vararg.arg)
    if a.kwarg:
        out.append(a.kwarg.arg)
    return out


def _walk_own(node, include_self: bool = False):
    """Nodes below ``node`` without descending into nested functions, classes and lambdas."""
    todo = list(ast.iter_child_nodes(node))
    if include_self:
        yield node
    while todo:
        n = todo.pop()
        yield n
        if isinstance(n, (ast.FunctionDef, ast.AsyncFunctionDef, ast.ClassDef, ast.Lambda)):
            continue
        todo.extend(ast.iter_child_nodes(n))


def _calls_itself(fn: FuncInfo) -> bool:
    return any(isinstance(n, ast.Call) and isinstance(n.func, ast.Name) and n.func.id == fn.name for n in _walk_own(fn.node))


def _rebinds(body, name: str) -> bool:
    """Is ``name`` assigned (not only appended to) inside the statements?"""
    for s in body:
        for n in ast.walk(s):
            if isinstance(n, ast.Name) and n.id == name and isinstance(n.ctx, ast.Store):
                par = getattr(n, "_parent", None)
                if isinstance(par, ast.AugAssign) and isinstance(par.op, (ast.Add, ast.BitOr)):
                    continue
                return True
            if isinstance(n, ast.Call) and isinstance(n.func, ast.Attribute) and isinstance(n.func.value, ast.Name) and n.func.value.id == name and n.func.attr not in {"append", "extend"}:
                if n.func.attr in {"remove", "pop", "clear", "insert", "sort", "reverse"}:
                    return True
    return False


def _outer_depth(callee: FuncInfo, stack_fns: list) -> int | None:
    """Index into the caller's scope chain at which the scopes of the callee's definer start."""
    # stack_fns[-1] is the caller (innermost frame = scope 0)
    for back, f in enumerate(reversed(stack_fns)):
        if f is callee.outer:
            return back
    return None


def _load(node):
    import copy

    new = copy.copy(node)
    new.ctx = ast.Load()
    return new


# ---------------------------------------------------------------------------- iteration structure of values
def _each_expansion(e):
    """``(eaches, conditions, element)`` if the generic element ``e`` ranges over a list that consists of ONE
    comprehension item ``foreach(e1, foreach(e2, when(pc, x)))`` - then ``e`` IS ``x`` for ``e1, e2`` under ``pc``."""
    if not (isinstance(e, tuple) and len(e) == 3 and e[0] == "each"):
        return None
    it = e[1]
    while isinstance(it, tuple) and it and it[0] == "call" and it[1] in {("builtin", "list"), ("builtin", "tuple"), ("builtin", "iter")} and len(it[2]) == 1 and not it[3]:
        it = it[2][0]
    if not (isinstance(it, tuple) and it and it[0] in {"list", "tuple"} and len(it[1]) == 1):
        return None
    eaches, pcs, x = unwrap(it[1][0])
    if not eaches or (isinstance(x, tuple) and x and x[0] == "star"):
        return None
    return eaches, pcs, x


def flatten_each(v):
    """Iterating a collected iteration is the iteration itself: every generic element ``("each", L, n)`` of a list
    ``L = [x for e1 for e2 if pc]`` (a comprehension, the yields of a generator function, an accumulator filled by a
    loop - then iterated again by a loop, a comprehension, ``sum`` ...) is replaced by ``x``; the ``foreach`` / ``fold``
    that ranged over it ranges over ``e1, e2`` instead and inherits the conditions.  Elements that are not bound inside
    ``v`` (loop variables of an event) are replaced as well: use ``expand_ranges`` for their ranges."""
    for _ in range(64):
        target = next((t for t in subterms(v) if t[0] == "each" and _each_expansion(t) is not None), None)
        if target is None:
            return v
        eaches, pcs, x = _each_expansion(target)

        def rewrite(t):
            if not isinstance(t, tuple):
                return t
            if t == target:
                return x
            if t and t[0] == "foreach" and len(t) == 3 and t[1] == target:
                inner = rewrite(t[2])
                if pcs:
                    inner = ("when", pcs, inner)
                for e in reversed(eaches):
                    inner = ("foreach", e, inner)
                return inner
            if t and t[0] == "fold" and len(t) == 5 and target in t[1]:
                es = tuple(y for e in t[1] for y in (eaches if e == target else (rewrite(e),)))
                step = rewrite(t[3])
                if pcs:
                    step = ("when", pcs + step[1], step[2]) if step[0] == "when" else ("when", pcs, step)
                return ("fold", es, rewrite(t[2]), step, t[4])
            return tuple(rewrite(y) for y in t)

        v = rewrite(v)
    raise Undecided("iteration structure too deep to flatten")


def expand_ranges(eaches):
    """``(eaches, conditions)`` for a sequence of loop elements with every collected iteration expanded (see ``flatten_each``)."""
    out, conds = [], ()
    todo = list(eaches)
    for _ in range(64):
        if not todo:
            return tuple(out), conds
        e = todo.pop(0)
        exp = _each_expansion(e)
        if exp is None:
            e2 = flatten_each(e)
            if e2 not in out:
                out.append(e2)
        else:
            conds += exp[1]
            todo = list(exp[0]) + todo
    raise Undecided("iteration structure too deep to expand")


def free_eaches(v) -> list:
    """The generic elements ``("each", ...)`` that ``v`` depends on and that no ``foreach`` / ``fold`` inside ``v`` binds
    (in order of first occurrence; an element inside the iterable of another element counts)."""
    out: list = []

    def rec(t, bound):
        if not isinstance(t, tuple) or not t:
            return
        if t[0] == "each" and len(t) == 3:
            if t not in bound and t not in out:
                rec(t[1], bound)
                if t not in out:
                    out.append(t)
            return
        if t[0] == "foreach" and len(t) == 3:
            rec(t[1][1], bound)
            rec(t[2], bound | {t[1]})
            return
        if t[0] == "fold" and len(t) == 5:
            inner = set(bound)
            for e in t[1]:
                rec(e[1], inner)
                inner = inner | {e}
            rec(t[2], bound)
            rec(t[3], inner)
            return
        for y in t:
            rec(y, bound)

    rec(v, frozenset())
    return out
