"""E9 - symbolic execution of one function into structural terms (values are nested tuples).

The rules of several properties describe what a function COMPUTES ("the summand is the product of
the amplitude base and one rotation per outer state"), but used to read off HOW it is spelled (one
expression, fixed argument positions, literal index tuples).  ``SymEx`` runs a function body on
symbolic arguments and hands the rule the computed values, so that behaviour-preserving spellings
give the same value:

* temporaries, tuple unpacking (``a, b = f()`` -> ``item(f(), 0)``, ``item(f(), 1)``; the unpacking also
  proves the length of the value, which later lets ``enumerate(v)`` / ``for x in v`` / ``base[v]`` unroll),
* helper functions: nested functions, methods reached through ``self`` and functions of the same module
  are inlined (the rule names the functions it wants to see as opaque atoms); arguments are bound to the
  callee's parameters, so keyword and positional calls give the same value,
* loops over a known sequence (a literal table, ``enumerate`` / ``zip`` / ``range`` of one) are unrolled;
  a loop or comprehension over an unknown iterable is executed once on a generic element
  ``("each", iterable, n)``: what it appends to an accumulator becomes ``("foreach", each, item)``,
* ``if`` on a symbolic test runs both arms; values that differ afterwards become ``("phi", ...)``, things
  that are appended / yielded / returned / stored carry the path condition (``("when", pc, item)``),
* ``while`` loops and other loop-carried names: the value at the loop head is ``("carried", name, n)``;
  ``LoopInfo`` records initial value, value at the end of the body and the loop test, and
  ``refine`` proves relational invariants of the form ``v == G(w)`` by induction (initially true,
  preserved by the body) and substitutes them.

Value grammar (all tuples, hashable):
  ("const", v) ("param", name) ("global", dotted-or-qualname) ("builtin", name) ("localfunc", qual)
  ("call", f, args, kwargs) ("attr", base, name) ("sub", base, index) ("item", iterable, k)
  ("tuple", items) ("list", items) ("set", items) ("dict", ((k, v), ...)) ("star", v)
  ("mul", factors) ("binop", op, l, r) ("unop", op, v) ("cmp", op, l, r) ("and"|"or", items) ("not", v)
  ("fstr", parts) ("phi", ((pc, v), ...)) ("when", pc, v) ("each", iterable, n) ("foreach", each, v)
  ("carried", name, n) ("sym", name) ("unknown", n, why)
where a path condition ``pc`` is a tuple of ``(test value in positive normal form, outcome)``.

Nothing of the analysed code is executed.  Whatever the executor cannot model becomes an
``("unknown", ...)`` value and is listed in ``SymEx.imprecise``: a rule that needs the value fails closed.
"""

from __future__ import annotations

import ast
from dataclasses import dataclass, field

from .loader import AnalysisError, FuncInfo, Tree, unparse

NONE = ("const", None)
LIST_MUTATORS = {"append", "extend", "insert"}
BIN = {ast.Add: "+", ast.Sub: "-", ast.Mult: "*", ast.Div: "/", ast.FloorDiv: "//", ast.Mod: "%", ast.Pow: "**", ast.MatMult: "@",
       ast.BitOr: "|", ast.BitAnd: "&", ast.BitXor: "^", ast.LShift: "<<", ast.RShift: ">>"}
CMP = {ast.Eq: "==", ast.NotEq: "!=", ast.Lt: "<", ast.LtE: "<=", ast.Gt: ">", ast.GtE: ">=", ast.Is: "is", ast.IsNot: "is not", ast.In: "in", ast.NotIn: "not in"}
NEG = {"!=": "==", "is not": "is", "not in": "in"}


class Undecided(AnalysisError):
    pass


# ---------------------------------------------------------------------------- value helpers
def is_const(v, *types) -> bool:
    return isinstance(v, tuple) and len(v) == 2 and v[0] == "const" and (not types or (isinstance(v[1], types) and not (isinstance(v[1], bool) and bool not in types)))


def subterms(v):
    """All sub-values of ``v`` (pre-order), including ``v``."""
    todo = [v]
    while todo:
        x = todo.pop()
        if isinstance(x, tuple):
            if x and isinstance(x[0], str):
                yield x
            todo.extend(reversed([y for y in x if isinstance(y, tuple)]))


def contains(v, sub) -> bool:
    return any(x == sub for x in subterms(v))


def subst(v, mapping: dict):
    """Replace sub-values by ``mapping`` (outermost first)."""
    if not mapping:
        return v
    if isinstance(v, tuple):
        if v in mapping:
            return mapping[v]
        return tuple(subst(x, mapping) for x in v)
    return v


def strip_when(v):
    """(path conditions, value) of a possibly conditional item."""
    pcs = ()
    while isinstance(v, tuple) and v and v[0] == "when":
        pcs += v[1]
        v = v[2]
    return pcs, v


def alternatives(v, pc=()):
    """Flatten phi / when values into ``[(path condition, plain value)]``."""
    if isinstance(v, tuple) and v and v[0] == "phi":
        out = []
        for p, x in v[1]:
            out += alternatives(x, pc + p)
        return out
    if isinstance(v, tuple) and v and v[0] == "when":
        return alternatives(v[2], pc + v[1])
    return [(pc, v)]


def cases(v, limit: int = 64):
    """Distribute phi values that occur anywhere inside ``v``: ``[(path condition, value without phi)]``;
    combinations with contradictory conditions are dropped."""
    out = [((), v)]
    changed = True
    while changed:
        changed = False
        new = []
        for pc, x in out:
            phi = next((t for t in subterms(x) if t[0] == "phi"), None)
            if phi is None:
                new.append((pc, x))
                continue
            changed = True
            for p, alt in phi[1]:
                if not any((t, not o) in pc for t, o in p):
                    new.append((pc + tuple(c for c in p if c not in pc), subst(x, {phi: alt})))
        out = new
        if len(out) > limit:
            raise Undecided(f"more than {limit} combinations of conditional values")
    return out


def calls_of(v, suffix: str):
    """Sub-values that are calls of a function whose (qualified) name ends with ``suffix``."""
    return [x for x in subterms(v) if x[0] == "call" and func_name(x).endswith(suffix)]


def func_name(call) -> str:
    f = call[1]
    if f[0] in {"global", "builtin", "localfunc"}:
        return f[1]
    if f[0] == "method":
        return f[1]
    if f[0] == "attr":
        return "." + f[2]
    return ""


def show(v, depth: int = 0) -> str:
    """Readable text of a value (messages only)."""
    if not isinstance(v, tuple) or not v or not isinstance(v[0], str):
        return repr(v)
    k = v[0]
    if depth > 8:
        return "..."
    s = lambda x: show(x, depth + 1)  # noqa: E731
    if k == "const":
        return repr(v[1])
    if k in {"param", "sym"}:
        return v[1]
    if k in {"global", "builtin", "localfunc"}:
        return v[1].split("::")[-1].split(".")[-1] if k != "global" else v[1].split("::")[-1]
    if k == "call":
        f = v[1]
        name = f[1].split("::")[-1] if f[0] in {"global", "builtin", "localfunc", "method"} else s(f)
        if f[0] == "method":
            name = f"{s(f[2])}.{f[1].split('.')[-1]}"
        return f"{name}({', '.join([s(a) for a in v[2]] + [f'{n}={s(x)}' for n, x in v[3]])})"
    if k == "attr":
        return f"{s(v[1])}.{v[2]}"
    if k == "sub":
        return f"{s(v[1])}[{s(v[2])}]"
    if k == "item":
        return f"{s(v[1])}<{v[2]}>"
    if k in {"tuple", "list", "set"}:
        o, c = {"tuple": "()", "list": "[]", "set": "{}"}[k]
        return o + ", ".join(s(x) for x in v[1]) + c
    if k == "dict":
        return "{" + ", ".join(f"{s(a)}: {s(b)}" for a, b in v[1]) + "}"
    if k == "star":
        return "*" + s(v[1])
    if k == "mul":
        return " * ".join(s(x) for x in v[1])
    if k == "binop":
        return f"({s(v[2])} {v[1]} {s(v[3])})"
    if k == "unop":
        return f"{v[1]}{s(v[2])}"
    if k == "cmp":
        return f"{s(v[2])} {v[1]} {s(v[3])}"
    if k in {"and", "or"}:
        return "(" + f" {k} ".join(s(x) for x in v[1]) + ")"
    if k == "not":
        return f"not {s(v[1])}"
    if k == "fstr":
        return "f'" + "".join(x[1] if is_const(x, str) else "{" + s(x) + "}" for x in v[1]) + "'"
    if k == "phi":
        return "phi(" + "; ".join(f"{show_pc(p)} -> {s(x)}" for p, x in v[1]) + ")"
    if k == "when":
        return f"({s(v[2])} when {show_pc(v[1])})"
    if k == "each":
        return f"each#{v[2]}({s(v[1])})"
    if k == "foreach":
        return f"[{s(v[2])} for {s(v[1])}]"
    if k == "carried":
        return f"{v[1]}@head{v[2]}"
    if k == "unknown":
        return f"?{v[2]}"
    return str(v)


def show_pc(pc) -> str:
    return " and ".join(("" if o else "not ") + "(" + show(t) + ")" for t, o in pc) or "always"


# ---------------------------------------------------------------------------- execution state
class State:
    """Scope chain (innermost first) + path condition.  ``status``: None (running) or why it stopped."""

    __slots__ = ("scopes", "pc", "status", "value", "nonlocals")

    def __init__(self, scopes, pc=(), nonlocals=()):
        self.scopes = scopes
        self.pc = pc
        self.status = None
        self.value = None
        self.nonlocals = set(nonlocals)

    def copy(self) -> "State":
        st = State([dict(s) for s in self.scopes], self.pc, self.nonlocals)
        return st

    def lookup(self, name: str):
        for s in self.scopes:
            if name in s:
                return s[name]
        return None

    def store(self, name: str, value) -> None:
        if name in self.nonlocals:
            for s in self.scopes[1:]:
                if name in s:
                    s[name] = value
                    return
        self.scopes[0][name] = value

    def snapshot(self) -> dict:
        out: dict = {}
        for s in reversed(self.scopes):
            out.update(s)
        return out


@dataclass
class LoopInfo:
    node: ast.AST
    uid: int
    kind: str  # "while" | "foreach"
    init: dict  # carried name -> value before the loop
    end: dict = field(default_factory=dict)  # carried name -> value at the end of the body (merged over continue paths)
    test: object = None  # while: value of the test at the loop head
    each: object = None
    events: list = field(default_factory=list)  # events of one generic iteration
    extras: dict = field(default_factory=dict)  # accumulator name -> items appended by one generic iteration
    pc: tuple = ()
    subst: dict = field(default_factory=dict)  # proven invariants: carried(v) -> G(carried(w))

    def head(self, name: str):
        return ("carried", name, self.uid)

    def refine(self) -> dict:
        """Relational invariants ``v == G(w)`` between carried names, proven by induction: G is the initial
        value of v with the initial value of w replaced by w's head symbol; it must also hold at the end of
        the body (assuming it at the head).  Returns and stores the substitution carried(v) -> G."""
        names = [n for n in self.init if n in self.end]
        proven: dict = {}
        for v in names:
            for w in names:
                if v == w or self.head(w) in proven:
                    continue
                v0, w0 = self.init[v], self.init[w]
                if not contains(v0, w0):
                    continue
                g = subst(v0, {w0: self.head(w)})
                if any(x[0] == "carried" and x != self.head(w) for x in subterms(g)):
                    continue
                trial = {**proven, self.head(v): g}
                end_v = subst(self.end[v], trial)
                end_w = subst(self.end[w], trial)
                if end_v == subst(g, {self.head(w): end_w}):
                    proven = trial
                    break
        self.subst = proven
        return proven

    def value(self, v):
        return subst(v, self.subst)


class _Frame:
    def __init__(self, fn: FuncInfo | None, node):
        self.fn = fn
        self.node = node
        self.returns: list[tuple[State, object]] = []
        self.yields: list = []
        self.loops: list[dict] = []
        self.entry_pc: tuple = ()


class SymEx:
    def __init__(self, tree: Tree, atoms: set[str] | frozenset[str] = frozenset(), inline_depth: int = 4, inline_modules: bool = True):
        self.tree = tree
        self.atoms = set(atoms)
        self.inline_depth = inline_depth
        self.inline_modules = inline_modules
        self.n = 0
        self.lengths: dict = {}
        self.events: list[tuple] = []  # (kind, pc, payload..., loop context)
        self.loops: dict[int, LoopInfo] = {}
        self.imprecise: list[str] = []
        self.origin: dict = {}  # value -> first ast node that evaluated to it
        self._stack: list[_Frame] = []
        self._loopctx: tuple = ()
        self.root: FuncInfo | None = None

    # ------------------------------------------------------------------ api
    def uid(self) -> int:
        self.n += 1
        return self.n

    def unknown(self, why: str):
        self.imprecise.append(why)
        return ("unknown", self.uid(), why)

    def run(self, fn: FuncInfo, args: dict | None = None, closure: dict | None = None, nonlocals: dict | None = None):
        """Execute ``fn`` with parameters bound to ``args`` (default: ("param", name)).
        Returns ``(result value, final State)``; the result of a generator function is the list of what it yields."""
        self.root = self.root or fn
        env = {p: ("param", p) for p in _all_params(fn.node)}
        env.update(args or {})
        scopes = [env]
        if closure is not None:
            scopes.append(dict(closure))
        st = State(scopes)
        return self._run_body(fn, st)

    # ------------------------------------------------------------- functions
    def _run_body(self, fn: FuncInfo, st: State):
        frame = _Frame(fn, fn.node)
        frame.entry_pc = st.pc
        self._stack.append(frame)
        try:
            for n in ast.walk(fn.node):
                if isinstance(n, (ast.Nonlocal, ast.Global)) and self.tree.func_of(n) is fn:
                    st.nonlocals |= set(n.names)
            end = self._block(fn.node.body, st)
        finally:
            self._stack.pop()
        outs = list(frame.returns)
        if end.status is None:
            outs.append((end, NONE))
        is_gen = any(isinstance(n, (ast.Yield, ast.YieldFrom)) for n in _walk_own(fn.node))
        if not outs:
            final = end
            final.status = "raise"
            return (("list", tuple(frame.yields)) if is_gen else self.unknown(f"{fn.qual}: every path raises")), final
        final = self._merge([s for s, _ in outs], frame.entry_pc)
        if is_gen:
            return ("list", tuple(frame.yields)), final
        vals = []
        for s, v in outs:
            rel = s.pc[len(_common(frame.entry_pc, s.pc)):]
            vals.append((rel, v))
        if len(vals) == 1 or all(v == vals[0][1] for _, v in vals):
            return vals[0][1], final
        return ("phi", tuple(vals)), final

    def _merge(self, states: list[State], base_pc=()) -> State:
        live = states
        if len(live) == 1:
            s = live[0]
            s.status = None
            return s
        pcs = [s.pc for s in live]
        common = pcs[0]
        for p in pcs[1:]:
            common = _common(common, p)
        depth = min(len(s.scopes) for s in live)
        scopes = []
        for i in range(1, depth + 1):
            envs = [s.scopes[-i] for s in live]
            out: dict = {}
            for name in {k for e in envs for k in e}:
                vals = [e.get(name) for e in envs]
                if all(v == vals[0] for v in vals):
                    out[name] = vals[0]
                    continue
                merged = _merge_lists(vals)
                if merged is not None:
                    out[name] = merged
                    continue
                alts = tuple((s.pc[len(common):], v if v is not None else ("unknown", 0, f"{name} unbound")) for s, v in zip(live, vals))
                out[name] = ("phi", alts)
            scopes.insert(0, out)
        st = State(scopes, common, set().union(*[s.nonlocals for s in live]))
        return st

    # ------------------------------------------------------------ statements
    def _block(self, stmts, st: State) -> State:
        for s in stmts:
            if st.status is not None:
                break
            st = self._stmt(s, st)
        return st

    def _stmt(self, node, st: State) -> State:
        fn = self._stack[-1].fn
        if isinstance(node, ast.Expr):
            if isinstance(node.value, ast.Constant):
                return st
            v = self.ev(node.value, st)
            if isinstance(v, tuple) and v[0] == "call":
                self._event("call", st, v, st.snapshot())
            return st
        if isinstance(node, ast.Assign):
            v = self.ev(node.value, st)
            for t in node.targets:
                self._assign(t, v, st)
            return st
        if isinstance(node, ast.AnnAssign):
            if node.value is not None:
                self._assign(node.target, self.ev(node.value, st), st)
            return st
        if isinstance(node, ast.AugAssign):
            rhs = self.ev(node.value, st)
            if isinstance(node.target, ast.Name):
                old = st.lookup(node.target.id)
                if old is None:
                    old = self.unknown(f"{node.target.id} read before assignment")
                if isinstance(node.op, ast.Add) and old[0] == "list":
                    seq = self.as_items(rhs)
                    new = ("list", old[1] + tuple(self._cond_item(x, st) for x in seq)) if seq is not None else ("list", old[1] + (("star", rhs),))
                else:
                    new = self._binop(BIN.get(type(node.op), "?"), old, rhs)
                st.store(node.target.id, new)
            else:
                tv = self.ev(node.target, st)
                self._event("store", st, tv, self._binop(BIN.get(type(node.op), "?"), tv, rhs))
            return st
        if isinstance(node, ast.Return):
            v = self.ev(node.value, st) if node.value is not None else NONE
            st.status = "return"
            self._stack[-1].returns.append((st, v))
            return st
        if isinstance(node, ast.Raise):
            st.status = "raise"
            self._event("raise", st, self.ev(node.exc, st) if node.exc is not None else NONE)
            return st
        if isinstance(node, (ast.Continue, ast.Break)):
            loops = self._stack[-1].loops
            if not loops:
                st.status = "raise"
                return st
            st.status = "continue" if isinstance(node, ast.Continue) else "break"
            loops[-1][st.status].append(st)
            return st
        if isinstance(node, ast.If):
            return self._if(node, st)
        if isinstance(node, (ast.For, ast.AsyncFor)):
            return self._for(node, st)
        if isinstance(node, ast.While):
            return self._while(node, st)
        if isinstance(node, (ast.FunctionDef, ast.AsyncFunctionDef)):
            info = self.tree.func_of(node)
            st.store(node.name, ("localfunc", info.qual if info else node.name))
            return st
        if isinstance(node, (ast.Pass, ast.Nonlocal, ast.Global, ast.Assert, ast.Import, ast.ImportFrom, ast.ClassDef)):
            return st
        if isinstance(node, ast.Delete):
            for t in node.targets:
                if isinstance(t, ast.Name):
                    st.scopes[0].pop(t.id, None)
                else:
                    self._event("store", st, self.ev(t, st), ("unknown", 0, "deleted"))
            return st
        if isinstance(node, (ast.With, ast.AsyncWith)):
            for item in node.items:
                v = self.ev(item.context_expr, st)
                if item.optional_vars is not None:
                    self._assign(item.optional_vars, ("call", ("attr", v, "__enter__"), (), ()), st)
            return self._block(node.body, st)
        if isinstance(node, ast.Try):
            before = st.copy()
            base_pc = st.pc
            st = self._block(node.body, st)
            if st.status is None:
                st = self._block(node.orelse, st)
            outs = [st] if st.status is None else []
            # a handler may run after any prefix of the body: what the body binds or modifies is unknown inside the handler
            touched = self._assigned_names(node.body)
            for h in node.handlers:
                hs = before.copy()
                for name in sorted(touched):
                    if hs.lookup(name) is not None or name in {n for n in touched}:
                        hs.store(name, self.unknown(f"`{name}` bound inside a try body that raised"))
                if h.name:
                    hs.store(h.name, ("exception", self.uid()))
                hs.pc = base_pc + ((("raises", unparse(h.type) if h.type is not None else "BaseException", self.uid()), True),)
                hs = self._block(h.body, hs)
                if hs.status is None:
                    outs.append(hs)
            if not outs:
                st.status = st.status or "raise"
                return st
            st = self._merge(outs) if len(outs) > 1 else outs[0]
            st.pc = base_pc if len(outs) > 1 else st.pc
            return self._block(node.finalbody, st)
        self.imprecise.append(f"{fn.qual if fn else '?'}: statement {type(node).__name__} not modelled")
        for n in ast.walk(node):
            if isinstance(n, ast.Name) and isinstance(n.ctx, ast.Store):
                st.store(n.id, self.unknown(f"`{n.id}` bound by {type(node).__name__}"))
        return st

    def _event(self, kind: str, st: State, *payload) -> None:
        ev = (kind, st.pc, *payload, self._loopctx)
        self.events.append(ev)

    def _cond_item(self, item, st: State):
        """An item that enters a container / is yielded under the current path condition (relative to the frame entry)."""
        frame = self._stack[-1]
        base = _common(frame.entry_pc, st.pc)
        if frame.loops:
            base = _common(frame.loops[-1]["pc"], st.pc) if len(frame.loops[-1]["pc"]) >= len(base) else base
        rel = st.pc[len(base):]
        return ("when", rel, item) if rel else item

    def _if(self, node: ast.If, st: State) -> State:
        test = self.ev(node.test, st)
        decided = truth(test)
        if decided is not None:
            return self._block(node.body if decided else node.orelse, st)
        t, pos = normal(test)
        a, b = st, st.copy()
        a.pc = st.pc + ((t, pos),)
        b.pc = b.pc + ((t, not pos),)
        base_pc = st.pc[:-1]
        a = self._block(node.body, a)
        b = self._block(node.orelse, b)
        live = [s for s in (a, b) if s.status is None]
        if not live:
            a.status = a.status or "raise"
            return a
        if len(live) == 1:
            return live[0]  # the rest runs under the surviving arm's condition
        m = self._merge(live)
        m.pc = base_pc
        return m

    # ----------------------------------------------------------------- loops
    def _assigned_names(self, body) -> set[str]:
        out = set()
        for s in body:
            for n in _walk_own(s, include_self=True):
                if isinstance(n, ast.Name) and isinstance(n.ctx, ast.Store):
                    out.add(n.id)
                elif isinstance(n, ast.Call) and isinstance(n.func, ast.Attribute) and isinstance(n.func.value, ast.Name) and n.func.attr in LIST_MUTATORS | {"add", "update", "remove", "pop", "clear", "discard", "setdefault", "sort", "reverse"}:
                    out.add(n.func.value.id)
                elif isinstance(n, (ast.Subscript, ast.Attribute)) and isinstance(n.ctx, ast.Store):
                    b = n
                    while isinstance(b, (ast.Subscript, ast.Attribute)):
                        b = b.value
                    if isinstance(b, ast.Name):
                        out.add(b.id)
        # names written by nested functions through nonlocal
        for s in body:
            for n in ast.walk(s):
                if isinstance(n, ast.Nonlocal):
                    out |= set(n.names)
        return out

    def _for(self, node: ast.For, st: State) -> State:
        it = self.ev(node.iter, st)
        seq = self.as_items(it)
        frame = self._stack[-1]
        if seq is not None and not any(isinstance(x, tuple) and x[0] in {"foreach", "star", "when"} for x in seq):
            for x in seq:
                rec = {"continue": [], "break": [], "pc": st.pc}
                frame.loops.append(rec)
                self._assign(node.target, x, st)
                st = self._block(node.body, st)
                frame.loops.pop()
                live = ([st] if st.status is None else []) + rec["continue"]
                if rec["break"]:
                    if live or len(rec["break"]) > 1 or rec["break"][0].pc != rec["pc"]:
                        self.imprecise.append(f"{frame.fn.qual}: break under a symbolic condition in an unrolled loop")
                    st = self._merge(rec["break"] + live)
                    st.pc = rec["pc"]
                    return st
                if not live:
                    return st
                st = self._merge(live)
                st.pc = _common(rec["pc"], st.pc) if len(live) > 1 else st.pc
            return self._block(node.orelse, st) if st.status is None else st
        uid = self.uid()
        each = ("each", it, uid)
        return self._generic_loop(node, st, "foreach", uid, each)

    def _while(self, node: ast.While, st: State) -> State:
        t = truth(self.ev(node.test, st.copy()))
        if t is False:
            return self._block(node.orelse, st)
        return self._generic_loop(node, st, "while", self.uid(), None)

    def _generic_loop(self, node, st: State, kind: str, uid: int, each) -> State:
        frame = self._stack[-1]
        assigned = self._assigned_names(node.body) | ({n.id for n in ast.walk(node.target) if isinstance(n, ast.Name)} if kind == "foreach" else set())
        info = LoopInfo(node, uid, kind, {}, each=each, pc=st.pc)
        self.loops[id(node)] = info
        accs: dict[str, tuple] = {}
        for name in sorted(assigned):
            old = st.lookup(name)
            if old is None:
                continue
            if old[0] == "list" and not _rebinds(node.body, name):
                accs[name] = old
                st.store(name, ("list", old[1] + (("star", ("carried", name, uid)),)))
            else:
                info.init[name] = old
                st.store(name, ("carried", name, uid))
        n_ev = len(self.events)
        body_st = st.copy()
        if kind == "while":
            test = self.ev(node.test, body_st)
            info.test = test
            t, pos = normal(test)
            body_st.pc = body_st.pc + ((t, pos),)
        else:
            self._assign(node.target, each, body_st)
        rec = {"continue": [], "break": [], "pc": body_st.pc}
        frame.loops.append(rec)
        self._loopctx += (uid,)
        end = self._block(node.body, body_st)
        self._loopctx = self._loopctx[:-1]
        frame.loops.pop()
        info.events = self.events[n_ev:]
        live = ([end] if end.status is None else []) + rec["continue"] + rec["break"]
        if live:
            merged = self._merge(live) if len(live) > 1 else live[0]
            for name in info.init:
                v = merged.lookup(name)
                if v is not None:
                    info.end[name] = v
            for name, old in accs.items():
                v = merged.lookup(name)
                prefix = old[1] + (("star", ("carried", name, uid)),)
                if v is not None and v[0] == "list" and v[1][: len(prefix)] == prefix:
                    info.extras[name] = v[1][len(prefix):]
                else:
                    info.extras[name] = None
        # state after the loop: accumulators = old items + what a generic iteration adds; other carried names are unknown
        after = st
        for name, old in accs.items():
            extra = info.extras.get(name)
            if extra is None and live:
                after.store(name, self.unknown(f"`{name}` is rebuilt inside a loop"))
            else:
                wrap = each if each is not None else ("each", ("while", uid), uid)
                after.store(name, ("list", old[1] + tuple(("foreach", wrap, x) for x in (extra or ()))))
        for name in info.init:
            end_v = info.end.get(name)
            if end_v is not None and end_v == ("carried", name, uid):
                after.store(name, info.init[name])  # not changed by the body
            else:
                after.store(name, ("carried-out", name, uid))
        for name in assigned:
            if name not in accs and name not in info.init:
                after.store(name, ("carried-out", name, uid))
        after.status = None
        after.pc = st.pc
        return self._block(node.orelse, after) if node.orelse else after

    # ------------------------------------------------------------- assignment
    def _assign(self, target, v, st: State) -> None:
        if isinstance(target, ast.Name):
            st.store(target.id, v)
            return
        if isinstance(target, ast.Starred):
            self._assign(target.value, v, st)
            return
        if isinstance(target, (ast.Tuple, ast.List)):
            n = len(target.elts)
            if any(isinstance(t, ast.Starred) for t in target.elts):
                seq = self.as_items(v)
                if seq is None:
                    for t in target.elts:
                        self._assign(t, self.unknown("starred unpacking of a sequence of unknown length"), st)
                    return
                s = next(i for i, t in enumerate(target.elts) if isinstance(t, ast.Starred))
                after = n - s - 1
                for t, x in zip(target.elts[:s], seq[:s]):
                    self._assign(t, x, st)
                self._assign(target.elts[s], ("list", tuple(seq[s: len(seq) - after])), st)
                for t, x in zip(target.elts[s + 1:], seq[len(seq) - after:]):
                    self._assign(t, x, st)
                return
            items = self.unpack(v, n)
            for t, x in zip(target.elts, items):
                self._assign(t, x, st)
            return
        if isinstance(target, (ast.Subscript, ast.Attribute)):
            base = target.value
            if isinstance(target, ast.Subscript) and isinstance(base, ast.Name):
                cur = st.lookup(base.id)
                key = self.ev(target.slice, st)
                if cur is not None and cur[0] == "dict":
                    st.store(base.id, ("dict", tuple((k, x) for k, x in cur[1] if k != key) + ((key, self._cond_item(v, st)),)))
                    return
            tv = self.ev(ast.copy_location(_load(target), target), st)
            self._event("store", st, tv, v)
            if isinstance(base, ast.Name) and st.lookup(base.id) is not None and st.lookup(base.id)[0] in {"list", "dict", "set", "tuple"}:
                st.store(base.id, self.unknown(f"`{base.id}` modified through a subscript/attribute store"))
            return
        self.imprecise.append(f"assignment target {type(target).__name__}")

    def unpack(self, v, n: int) -> list:
        """The n values of ``a0, ..., a(n-1) = v`` (also records that v has n elements)."""
        if v[0] in {"tuple", "list"}:
            items = v[1]
            if len(items) == 1 and items[0][0] == "foreach" and not strip_when(items[0][2])[0]:
                each, elt = items[0][1], items[0][2]
                self.lengths[each[1]] = n
                return [subst(elt, {each: self._item(each[1], k)}) for k in range(n)]
            if len(items) == n and not any(x[0] in {"foreach", "star", "when"} for x in items):
                return list(items)
            return [("item", v, k) for k in range(n)]  # k-th element of a sequence with conditional / repeated items
        if v[0] in {"phi", "unknown", "const"}:
            return [("item", v, k) for k in range(n)]
        self.lengths[v] = n
        return [self._item(v, k) for k in range(n)]

    def _item(self, v, k: int):
        if v[0] in {"tuple", "list"} and k < len(v[1]) and not any(x[0] in {"foreach", "star", "when"} for x in v[1]):
            return v[1][k]
        return ("item", v, k)

    def as_items(self, v):
        """The elements of ``v`` in iteration order if they are known (``foreach`` / ``star`` items may occur), else None."""
        if not isinstance(v, tuple):
            return None
        if v[0] in {"tuple", "list"}:
            out = []
            for x in v[1]:
                if x[0] == "star":
                    inner = self.as_items(x[1])
                    if inner is None:
                        out.append(x)
                    else:
                        out += inner
                else:
                    out.append(x)
            return out
        if v in self.lengths:
            return [self._item(v, k) for k in range(self.lengths[v])]
        if v[0] == "call" and v[1][0] == "builtin" and not v[3]:
            name, args = v[1][1], v[2]
            if name in {"list", "tuple", "iter"} and len(args) == 1:
                return self.as_items(args[0])
            if name == "enumerate" and args:
                inner = self._plain(args[0])
                start = args[1][1] if len(args) > 1 and is_const(args[1], int) else 0 if len(args) == 1 else None
                if inner is not None and start is not None:
                    return [("tuple", (("const", i + start), x)) for i, x in enumerate(inner)]
            if name == "zip" and args:
                inners = [self._plain(a) for a in args]
                if all(i is not None for i in inners) and len({len(i) for i in inners}) == 1:
                    return [("tuple", tuple(xs)) for xs in zip(*inners)]
            if name == "reversed" and len(args) == 1:
                inner = self._plain(args[0])
                if inner is not None:
                    return list(reversed(inner))
            if name == "range" and all(is_const(a, int) for a in args) and 1 <= len(args) <= 3:
                return [("const", i) for i in range(*[a[1] for a in args])]
        return None

    def _plain(self, v):
        seq = self.as_items(v)
        if seq is None or any(x[0] in {"foreach", "star", "when"} for x in seq):
            return None
        return seq

    # ------------------------------------------------------------ expressions
    def ev(self, node, st: State):
        m = getattr(self, "_ev_" + type(node).__name__, None)
        if m is None:
            return self.unknown(f"expression {type(node).__name__} `{unparse(node)[:40]}` not modelled")
        v = m(node, st)
        if isinstance(v, tuple) and v not in self.origin:
            try:
                self.origin[v] = node
            except TypeError:
                pass
        return v

    def _ev_Constant(self, node, st):
        return ("const", node.value)

    def _ev_Name(self, node, st):
        v = st.lookup(node.id)
        if v is not None:
            return v
        fn = self._stack[-1].fn if self._stack else self.root
        mod = node._module if hasattr(node, "_module") else (fn.module if fn else None)
        if mod is not None:
            q = self.tree.resolve(mod, node, None)
            if q is not None:
                return ("global", q)
        import builtins

        if hasattr(builtins, node.id):
            return ("builtin", node.id)
        return ("global", node.id)

    def _ev_Attribute(self, node, st):
        head = node
        while isinstance(head, ast.Attribute):
            head = head.value
        if isinstance(head, ast.Name) and st.lookup(head.id) is None:
            mod = getattr(node, "_module", None)
            if mod is not None:
                q = self.tree.resolve(mod, node, None)
                if q is not None:
                    return ("global", q)
        base = self.ev(node.value, st)
        if base[0] == "phi":
            return ("phi", tuple((p, ("attr", x, node.attr)) for p, x in base[1]))
        return ("attr", base, node.attr)

    def _ev_Subscript(self, node, st):
        base = self.ev(node.value, st)
        if isinstance(node.slice, ast.Slice):
            seq = self._plain(base)
            parts = [self.ev(p, st) if p is not None else NONE for p in (node.slice.lower, node.slice.upper, node.slice.step)]
            if seq is not None and all(is_const(p, int) or p == NONE for p in parts):
                return (base[0] if base[0] in {"tuple", "list"} else "tuple", tuple(seq[slice(*[p[1] for p in parts])]))
            return ("sub", base, ("slice", *parts))
        idx = self.ev(node.slice, st)
        if is_const(idx, int):
            seq = self._plain(base)
            if seq is not None and base[0] != "dict" and -len(seq) <= idx[1] < len(seq):
                return seq[idx[1]]
        if base[0] == "dict":
            for k, x in base[1]:
                if k == idx:
                    return x
        if idx[0] != "tuple":
            seq = self._plain(idx) if idx in self.lengths else None
            if seq is not None:
                idx = ("tuple", tuple(seq))
        return ("sub", base, idx)

    def _ev_Tuple(self, node, st):
        return ("tuple", self._elts(node.elts, st))

    def _ev_List(self, node, st):
        return ("list", tuple(self._cond_item(x, st) for x in self._elts(node.elts, st)))

    def _ev_Set(self, node, st):
        return ("set", self._elts(node.elts, st))

    def _elts(self, elts, st) -> tuple:
        out = []
        for e in elts:
            if isinstance(e, ast.Starred):
                v = self.ev(e.value, st)
                seq = self.as_items(v)
                if seq is None:
                    out.append(("star", v))
                else:
                    out += seq
            else:
                out.append(self.ev(e, st))
        return tuple(out)

    def _ev_Dict(self, node, st):
        items = []
        for k, v in zip(node.keys, node.values):
            if k is None:
                items.append((("star", self.ev(v, st)), NONE))
            else:
                items.append((self.ev(k, st), self.ev(v, st)))
        return ("dict", tuple(items))

    def _ev_Starred(self, node, st):
        return ("star", self.ev(node.value, st))

    def _ev_BinOp(self, node, st):
        return self._binop(BIN.get(type(node.op), "?"), self.ev(node.left, st), self.ev(node.right, st))

    def _binop(self, op: str, a, b):
        if is_const(a, int, float) and is_const(b, int, float) and op in {"+", "-", "*"}:
            return ("const", {"+": a[1] + b[1], "-": a[1] - b[1], "*": a[1] * b[1]}[op])
        if op == "*":
            fa = a[1] if a[0] == "mul" else (a,)
            fb = b[1] if b[0] == "mul" else (b,)
            return ("mul", fa + fb)
        if op == "+" and a[0] in {"list", "tuple"} and b[0] == a[0]:
            return (a[0], a[1] + b[1])
        if op == "+" and a[0] == "binop" and a[1] == "+" and is_const(a[3], int) and is_const(b, int):
            return self._binop("+", a[2], ("const", a[3][1] + b[1]))
        return ("binop", op, a, b)

    def _ev_UnaryOp(self, node, st):
        v = self.ev(node.operand, st)
        if isinstance(node.op, ast.Not):
            t = truth(v)
            return ("const", not t) if t is not None else ("not", v)
        if isinstance(node.op, ast.USub):
            if is_const(v, int, float):
                return ("const", -v[1])
            return ("unop", "-", v)
        if isinstance(node.op, ast.UAdd):
            return v
        return ("unop", "~", v)

    def _ev_Compare(self, node, st):
        vals = [self.ev(node.left, st)] + [self.ev(c, st) for c in node.comparators]
        ops = [CMP[type(o)] for o in node.ops]
        if len(ops) == 1:
            return self._cmp(ops[0], vals[0], vals[1])
        return ("and", tuple(self._cmp(o, a, b) for o, a, b in zip(ops, vals, vals[1:])))

    def _cmp(self, op, a, b):
        if is_const(a) and is_const(b):
            try:
                if op in {"==", "!=", "<", "<=", ">", ">="}:
                    import operator

                    f = {"==": operator.eq, "!=": operator.ne, "<": operator.lt, "<=": operator.le, ">": operator.gt, ">=": operator.ge}[op]
                    return ("const", bool(f(a[1], b[1])))
                if op in {"is", "is not"} and (a[1] is None or b[1] is None):
                    return ("const", (a[1] is b[1]) == (op == "is"))
            except TypeError:
                pass
        if op in {"is", "is not"} and b == NONE and a[0] in {"tuple", "list", "dict", "set", "mul", "fstr"}:
            return ("const", op == "is not")
        if op in {"in", "not in"} and is_const(a):
            seq = self._plain(b) if b[0] in {"tuple", "list", "set"} else None
            if seq is not None and all(is_const(x) for x in seq):
                return ("const", (a in seq) == (op == "in"))
        return ("cmp", op, a, b)

    def _ev_BoolOp(self, node, st):
        vals = [self.ev(v, st) for v in node.values]
        kind = "and" if isinstance(node.op, ast.And) else "or"
        out = []
        for v in vals:
            t = truth(v)
            if t is None:
                out.append(v)
            elif (kind == "and") != t:  # and: a false operand decides; or: a true operand decides
                if not out:
                    return v
                out.append(v)
                break
        if not out:
            return vals[-1]
        if len(out) == 1:
            return out[0]
        return (kind, tuple(out))

    def _ev_IfExp(self, node, st):
        test = self.ev(node.test, st)
        t = truth(test)
        if t is not None:
            return self.ev(node.body if t else node.orelse, st)
        tt, pos = normal(test)
        a, b = self.ev(node.body, st), self.ev(node.orelse, st)
        if a == b:
            return a
        return ("phi", ((((tt, pos),), a), (((tt, not pos),), b)))

    def _ev_JoinedStr(self, node, st):
        parts = []
        for p in node.values:
            if isinstance(p, ast.Constant):
                parts.append(("const", p.value))
            else:
                v = self.ev(p.value, st)
                if p.conversion != -1 or p.format_spec is not None:
                    v = ("call", ("builtin", "format"), (v, ("const", (p.conversion, unparse(p.format_spec) if p.format_spec is not None else ""))), ())
                parts.append(v)
        if all(is_const(p, str, int) for p in parts):
            return ("const", "".join(str(p[1]) for p in parts))
        return ("fstr", tuple(parts))

    def _ev_FormattedValue(self, node, st):
        return self.ev(node.value, st)

    def _ev_NamedExpr(self, node, st):
        v = self.ev(node.value, st)
        self._assign(node.target, v, st)
        return v

    def _ev_Lambda(self, node, st):
        return ("lambda", unparse(node))

    def _ev_Yield(self, node, st):
        v = self.ev(node.value, st) if node.value is not None else NONE
        self._stack[-1].yields.append(self._cond_item(v, st))
        self._event("yield", st, v)
        return NONE

    def _ev_YieldFrom(self, node, st):
        v = self.ev(node.value, st)
        seq = self.as_items(v)
        items = seq if seq is not None else [("star", v)]
        for x in items:
            self._stack[-1].yields.append(self._cond_item(x, st))
        self._event("yield-from", st, v)
        return NONE

    def _ev_Await(self, node, st):
        return self.ev(node.value, st)

    def _comp(self, node, st, make):
        """Comprehension: unrolled over known sequences, otherwise one generic element per generator."""
        results: list = []

        def rec(gens, st_, conds, eaches):
            if not gens:
                item = make(st_)
                for c in reversed(conds):
                    item = ("when", (c,), item)
                for e in reversed(eaches):
                    item = ("foreach", e, item)
                results.append(item)
                return
            g = gens[0]
            it = self.ev(g.iter, st_)
            seq = self._plain(it) if not eaches else None
            if seq is not None:
                for x in seq:
                    s2 = st_.copy()
                    self._assign(g.target, x, s2)
                    ok, cs = True, list(conds)
                    for cond in g.ifs:
                        cv = self.ev(cond, s2)
                        t = truth(cv)
                        if t is False:
                            ok = False
                            break
                        if t is None:
                            cs.append(normal(cv))
                    if ok:
                        rec(gens[1:], s2, cs, eaches)
                return
            each = ("each", it, self.uid())
            s2 = st_.copy()
            self._assign(g.target, each, s2)
            cs = list(conds)
            for cond in g.ifs:
                cv = self.ev(cond, s2)
                t = truth(cv)
                if t is None:
                    cs.append(normal(cv))
                elif t is False:
                    return
            rec(gens[1:], s2, cs, eaches + [each])

        inner = st.copy()
        inner.scopes = [{}] + inner.scopes
        rec(list(node.generators), inner, [], [])
        return tuple(results)

    def _ev_ListComp(self, node, st):
        return ("list", self._comp(node, st, lambda s: self.ev(node.elt, s)))

    _ev_GeneratorExp = _ev_ListComp

    def _ev_SetComp(self, node, st):
        return ("set", self._comp(node, st, lambda s: self.ev(node.elt, s)))

    def _ev_DictComp(self, node, st):
        items = self._comp(node, st, lambda s: ("tuple", (self.ev(node.key, s), self.ev(node.value, s))))
        if all(x[0] == "tuple" for x in items):
            return ("dict", tuple((x[1][0], x[1][1]) for x in items))
        return ("dictcomp", items)

    # ------------------------------------------------------------------ calls
    def _ev_Call(self, node: ast.Call, st: State):
        fn = self._stack[-1].fn if self._stack else self.root
        func = node.func
        # mutation of a local container
        if isinstance(func, ast.Attribute) and isinstance(func.value, ast.Name):
            cur = st.lookup(func.value.id)
            if cur is not None and cur[0] == "list" and func.attr in {"append", "extend"} and len(node.args) == 1 and not node.keywords:
                v = self.ev(node.args[0], st)
                if func.attr == "append":
                    new = cur[1] + (self._cond_item(v, st),)
                else:
                    seq = self.as_items(v)
                    new = cur[1] + (tuple(self._cond_item(x, st) for x in seq) if seq is not None else (("star", v),))
                self._rebind_container(func.value.id, cur, ("list", new), st)
                return NONE
            if cur is not None and cur[0] == "set" and func.attr == "add" and len(node.args) == 1:
                self._rebind_container(func.value.id, cur, ("set", cur[1] + (self._cond_item(self.ev(node.args[0], st), st),)), st)
                return NONE
            if cur is not None and cur[0] == "dict" and func.attr == "update" and len(node.args) == 1 and not node.keywords:
                other = self.ev(node.args[0], st)
                if other[0] == "dict":
                    keys = {k for k, _ in other[1]}
                    self._rebind_container(func.value.id, cur, ("dict", tuple((k, x) for k, x in cur[1] if k not in keys) + other[1]), st)
                else:
                    self._rebind_container(func.value.id, cur, ("dict", cur[1] + ((("star", other), NONE),)), st)
                return NONE
            if cur is not None and cur[0] in {"list", "set", "dict"} and func.attr in {"remove", "pop", "clear", "discard", "insert", "sort", "reverse", "popitem", "setdefault", "update", "add"}:
                args = tuple(self.ev(a, st) for a in node.args)
                self._event("mutate", st, func.value.id, func.attr, args)
                st.store(func.value.id, self.unknown(f"`{func.value.id}.{func.attr}(...)`"))
                return self.unknown(f"result of {func.attr}")
        args = self._elts(node.args, st)
        kwargs = []
        for k in node.keywords:
            if k.arg is None:
                kwargs.append(("**", self.ev(k.value, st)))
            else:
                kwargs.append((k.arg, self.ev(k.value, st)))
        kwargs = tuple(kwargs)
        mod = getattr(node, "_module", None) or (fn.module if fn else None)
        # resolve the callee
        head = func
        while isinstance(head, ast.Attribute):
            head = head.value
        target_q = None
        self_val = None
        if isinstance(head, ast.Name):
            local = st.lookup(head.id)
            if local is None or (head.id in {"self", "cls"} and isinstance(func, ast.Attribute) and isinstance(func.value, ast.Name)):
                scope = self.tree.func_of(node)
                target_q = self.tree.resolve(mod, func, scope) if mod is not None else None
                if local is not None and target_q is not None:
                    self_val = local
                if local is not None and target_q is None:
                    pass
        fv = None
        if target_q is None:
            fv = self.ev(func, st)
            if fv[0] == "localfunc":
                target_q = fv[1]
            elif fv[0] == "global":
                target_q = fv[1]
            elif fv[0] == "attr":
                cq = self.class_of_value(fv[1])
                if cq is not None:
                    m = self.tree.lookup_method(self.tree.classes[cq], fv[2])
                    if m is not None:
                        target_q, self_val = m.qual, fv[1]
            else:
                cq = self.class_of_value(fv)
                if cq is not None:
                    m = self.tree.lookup_method(self.tree.classes[cq], "__call__")
                    if m is not None:
                        target_q, self_val = m.qual, fv
        if target_q is not None and target_q in self.tree.classes:
            cinfo = self.tree.classes[target_q]
            init = self.tree.lookup_method(cinfo, "__init__")
            if init is not None:
                bound = self.bind(init, args, kwargs, skip_first=True, st=st)
                if bound is not None:
                    return ("call", ("global", target_q), bound, ())
            return ("call", ("global", target_q), args, kwargs)
        if target_q is not None and target_q in self.tree.funcs:
            callee = self.tree.funcs[target_q]
            decos = {unparse(d).split(".")[-1].split("(")[0] for d in callee.node.decorator_list}
            is_method = callee.cls is not None and callee.outer is None and "staticmethod" not in decos
            via_instance = is_method and self_val is not None
            bound = self.bind(callee, args, kwargs, skip_first=via_instance, st=st)
            if bound is not None and any(v[0] in {"list", "dict", "set"} and p in self._assigned_names(callee.node.body)
                                         for p, v in zip(_all_params(callee.node)[1 if via_instance else 0:], bound)):
                # the callee modifies a container of the caller in place: not modelled across the call
                for a in node.args:
                    if isinstance(a, ast.Name) and st.lookup(a.id) is not None and st.lookup(a.id)[0] in {"list", "dict", "set"}:
                        st.store(a.id, self.unknown(f"`{a.id}` may be modified in place by {callee.name}()"))
                bound = None
            if bound is not None and self._may_inline(callee, fn) and not ({"property", "cache", "lru_cache", "singledispatch", "overload"} & decos):
                env = dict(zip(_all_params(callee.node)[1 if via_instance else 0:], bound))
                if via_instance:
                    env[_all_params(callee.node)[0]] = self_val
                if callee.outer is not None:
                    # nested function: sees (and with nonlocal: writes) the scopes of its definer
                    depth = _outer_depth(callee, [f.fn for f in self._stack])
                    scopes = [env] + (st.scopes[depth:] if depth is not None else [])
                else:
                    scopes = [env]
                inner = State(scopes, st.pc)
                value, final = self._run_body(callee, inner)
                if callee.outer is not None and depth is not None and final.status != "raise":
                    st.scopes[depth:] = final.scopes[1:]
                if final.status == "raise":
                    st.status = "raise"
                st.pc = final.pc if len(final.pc) >= len(st.pc) and final.pc[: len(st.pc)] == st.pc else st.pc
                return value
            f = ("method", target_q, self_val) if via_instance else (("localfunc", target_q) if callee.outer is not None else ("global", target_q))
            if bound is not None:
                v = ("call", f, bound, ())
            else:
                v = ("call", f, args, kwargs)
            if callee.outer is not None or any(fr.fn is callee for fr in self._stack):
                self._event("localcall", st, v, st.snapshot())
                # the body was not executed: what it writes through `nonlocal` is unknown from here on
                written = {name for n in ast.walk(callee.node) if isinstance(n, ast.Nonlocal) for name in n.names}
                if written and not any(fr.fn is callee for fr in self._stack):
                    uid = self.uid()
                    for name in sorted(written):
                        for s in st.scopes:
                            if name in s:
                                s[name] = ("carried-out", name, uid)
                                break
            return v
        if target_q is not None:
            name = target_q
            if "." not in name and "::" not in name:
                import builtins

                if hasattr(builtins, name):
                    return self._builtin(name, args, kwargs, st)
            return ("call", ("global", target_q), args, kwargs)
        if fv is None:
            fv = self.ev(func, st)
        if fv[0] == "builtin":
            return self._builtin(fv[1], args, kwargs, st)
        return ("call", fv, args, kwargs)

    def _rebind_container(self, name: str, old, new, st: State) -> None:
        # aliases (`b = a`) hold the identical object: they see the mutation as well
        hit = False
        for s in st.scopes:
            for other, v in list(s.items()):
                if v is old:
                    s[other] = new
                    hit = hit or other == name
        if not hit:
            st.store(name, new)

    def _builtin(self, name: str, args, kwargs, st):
        v = ("call", ("builtin", name), args, kwargs)
        if not kwargs:
            if name == "len" and len(args) == 1:
                seq = self._plain(args[0])
                if seq is not None and args[0][0] in {"tuple", "list"} or args[0] in self.lengths:
                    return ("const", len(seq))
            if name in {"list", "tuple"} and len(args) == 1:
                seq = self.as_items(args[0])
                if seq is not None:
                    return (name, tuple(seq))
            if name in {"list", "tuple", "dict", "set"} and not args:
                return (name, ())
        return v

    def class_of_value(self, v) -> str | None:
        if isinstance(v, tuple) and v[0] == "call" and v[1][0] == "global" and v[1][1] in self.tree.classes:
            return v[1][1]
        return None

    def _may_inline(self, callee: FuncInfo, caller: FuncInfo | None) -> bool:
        if callee.qual in self.atoms or callee.name in self.atoms:
            return False
        if len(self._stack) > self.inline_depth:
            return False
        if any(fr.fn is callee for fr in self._stack):
            return False
        if _calls_itself(callee):
            return False
        root = self._stack[0].fn if self._stack else caller
        if callee.outer is not None:
            return True
        if callee.cls is not None and root is not None and root.cls is not None and callee.cls in self.tree.mro(root.cls):
            return True
        return self.inline_modules and root is not None and callee.module is root.module and callee.cls is None

    def bind(self, callee: FuncInfo, args, kwargs, skip_first: bool, st: State | None = None):
        """Values of the callee's parameters in declaration order, or None when the call cannot be bound."""
        a = callee.node.args
        if a.vararg is not None or a.kwarg is not None:
            return None
        if any(x[0] == "star" for x in args) or any(k == "**" for k, _ in kwargs):
            return None
        pos = [x.arg for x in [*a.posonlyargs, *a.args]]
        kwonly = [x.arg for x in a.kwonlyargs]
        defaults: dict[str, ast.AST] = dict(zip(pos[len(pos) - len(a.defaults):], a.defaults))
        defaults.update({n: d for n, d in zip(kwonly, a.kw_defaults) if d is not None})
        if skip_first:
            pos = pos[1:]
        if len(args) > len(pos):
            return None
        vals: dict[str, object] = dict(zip(pos, args))
        for k, v in kwargs:
            if k in vals or k not in pos + kwonly:
                return None
            vals[k] = v
        out = []
        for p in pos + kwonly:
            if p in vals:
                out.append(vals[p])
            elif p in defaults:
                d = defaults[p]
                out.append(self.ev(d, State([{}])) if isinstance(d, (ast.Constant, ast.Name, ast.Attribute, ast.UnaryOp, ast.Tuple)) else ("default", p))
            else:
                return None
        return tuple(out)


# ---------------------------------------------------------------------------- helpers
def truth(v):
    """Python truth value of a value if it is known."""
    if is_const(v):
        return bool(v[1])
    if isinstance(v, tuple) and v and v[0] in {"tuple", "list", "set", "dict"} and not any(x[0] in {"foreach", "star", "when"} for x in (v[1] if v[0] != "dict" else [k for k, _ in v[1]])):
        return bool(v[1])
    return None


def normal(test):
    """(test in positive normal form, outcome that means "test is true")."""
    pos = True
    while True:
        if test[0] == "not":
            test, pos = test[1], not pos
            continue
        if test[0] == "cmp" and test[1] in NEG:
            test, pos = ("cmp", NEG[test[1]], test[2], test[3]), not pos
            continue
        return test, pos


def _common(a: tuple, b: tuple) -> tuple:
    n = 0
    for x, y in zip(a, b):
        if x != y:
            break
        n += 1
    return a[:n]


def _merge_lists(vals):
    if not all(v is not None and v[0] == "list" for v in vals):
        return None
    prefix = vals[0][1]
    for v in vals[1:]:
        prefix = _common(prefix, v[1])
    tails = [v[1][len(prefix):] for v in vals]
    if any(x[0] not in {"when", "foreach"} for t in tails for x in t):
        return None
    out = prefix
    for t in tails:
        out += t
    return ("list", out)


def _all_params(fn: ast.FunctionDef) -> list[str]:
    a = fn.args
    out = [x.arg for x in [*a.posonlyargs, *a.args, *a.kwonlyargs]]
    if a.vararg:
        out.append(a.vararg.arg)
    if a.kwarg:
        out.append(a.kwarg.arg)
    return out


def _walk_own(node, include_self: bool = False):
    """Nodes below ``node`` without descending into nested functions, classes and lambdas."""
    todo = list(ast.iter_child_nodes(node))
    if include_self:
        yield node
    while todo:
        n = todo.pop()
        yield n
        if isinstance(n, (ast.FunctionDef, ast.AsyncFunctionDef, ast.ClassDef, ast.Lambda)):
            continue
        todo.extend(ast.iter_child_nodes(n))


def _calls_itself(fn: FuncInfo) -> bool:
    return any(isinstance(n, ast.Call) and isinstance(n.func, ast.Name) and n.func.id == fn.name for n in _walk_own(fn.node))


def _rebinds(body, name: str) -> bool:
    """Is ``name`` assigned (not only appended to) inside the statements?"""
    for s in body:
        for n in ast.walk(s):
            if isinstance(n, ast.Name) and n.id == name and isinstance(n.ctx, ast.Store):
                par = getattr(n, "_parent", None)
                if isinstance(par, ast.AugAssign) and isinstance(par.op, ast.Add):
                    continue
                return True
            if isinstance(n, ast.Call) and isinstance(n.func, ast.Attribute) and isinstance(n.func.value, ast.Name) and n.func.value.id == name and n.func.attr not in {"append", "extend"}:
                if n.func.attr in {"remove", "pop", "clear", "insert", "sort", "reverse"}:
                    return True
    return False


def _outer_depth(callee: FuncInfo, stack_fns: list) -> int | None:
    """Index into the caller's scope chain at which the scopes of the callee's definer start."""
    # stack_fns[-1] is the caller (innermost frame = scope 0)
    for back, f in enumerate(reversed(stack_fns)):
        if f is callee.outer:
            return back
    return None


def _load(node):
    import copy

    new = copy.copy(node)
    new.ctx = ast.Load()
    return new
