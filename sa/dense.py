"""Explicit small matrices over the rational-function normal form (sa.poly).

Used where a concrete matrix size decides: a closed form that the code special-cases
(``if n_channels == 2: ...``) is evaluated entry by entry on a symbol matrix and compared, as rational
functions of the entries, with the defining formula (``spec_t`` / ``spec_f``); a generic matrix term that
is not in a rule's list of accepted forms is refuted - or not - by the explicit matrices for one and two
channels; and ``formulate`` is run for two channels to see which element is substituted by what.
No code of /repo is run: the functions are interpreted by the model executor (``MatrixModel`` in
sa/ncterms.py, domain ``dense``), so helper functions, closures, loops, ``functools.partial`` ... are
followed like any other spelling."""

from __future__ import annotations

from fractions import Fraction

from .loader import AnalysisError, FuncInfo, Tree
from .poly import RF, I, equal, sym


class DenseError(AnalysisError):
    pass


class Mat:
    def __init__(self, rows: list[list[RF]]):
        self.rows = rows
        self.n = len(rows)
        self.m = len(rows[0]) if rows else 0

    @staticmethod
    def eye(n: int) -> "Mat":
        return Mat([[RF.const(1 if i == j else 0) for j in range(n)] for i in range(n)])

    @staticmethod
    def symbols(name: str, n: int, m: int) -> "Mat":
        return Mat([[sym(f"{name}{i}{j}") for j in range(m)] for i in range(n)])

    def map(self, f) -> "Mat":
        return Mat([[f(x) for x in r] for r in self.rows])

    def __add__(self, o):
        if not isinstance(o, Mat) or (o.n, o.m) != (self.n, self.m):
            raise DenseError("matrix + non-matrix / shape mismatch")
        return Mat([[a + b for a, b in zip(r, s)] for r, s in zip(self.rows, o.rows)])

    def __sub__(self, o):
        return self + o.map(lambda x: -x)

    def __neg__(self):
        return self.map(lambda x: -x)

    def matmul(self, o: "Mat") -> "Mat":
        if self.m != o.n:
            raise DenseError("matrix product shape mismatch")
        out = []
        for i in range(self.n):
            row = []
            for j in range(o.m):
                acc = RF.const(0)
                for k in range(self.m):
                    acc = acc + self.rows[i][k] * o.rows[k][j]
                row.append(acc)
            out.append(row)
        return Mat(out)

    def T(self) -> "Mat":  # noqa: N802
        return Mat([[self.rows[j][i] for j in range(self.n)] for i in range(self.m)])

    def trace(self) -> RF:
        acc = RF.const(0)
        for i in range(min(self.n, self.m)):
            acc = acc + self.rows[i][i]
        return acc

    def minor(self, i: int, j: int) -> "Mat":
        return Mat([[x for jj, x in enumerate(r) if jj != j] for ii, r in enumerate(self.rows) if ii != i])

    def det(self) -> RF:
        if self.n != self.m:
            raise DenseError("det of a non-square matrix")
        if self.n == 1:
            return self.rows[0][0]
        acc = RF.const(0)
        for j in range(self.n):
            term = self.rows[0][j] * self.minor(0, j).det()
            acc = acc + term if j % 2 == 0 else acc - term
        return acc

    def adjugate(self) -> "Mat":
        n = self.n
        if n == 1:
            return Mat([[RF.const(1)]])
        return Mat([[self.minor(j, i).det() * RF.const(1 if (i + j) % 2 == 0 else -1) for j in range(n)] for i in range(n)])

    def inv(self) -> "Mat":
        d = self.det()
        if d.is_zero():
            raise DenseError("inverse of a singular matrix")
        return self.adjugate().map(lambda x: x / d)

    def equals(self, o: "Mat") -> bool:
        return (self.n, self.m) == (o.n, o.m) and all(equal(a, b) for r, s in zip(self.rows, o.rows) for a, b in zip(r, s))

    def show(self) -> str:
        return "[" + "; ".join(", ".join(repr(x)[:60] for x in r) for r in self.rows) + "]"


class DenseEval:
    """One package function interpreted on explicit matrices: ``ints`` binds the size parameters, ``flags`` the
    boolean ones, ``extra`` any other model values; ``cls`` is bound to the class object."""

    def __init__(self, tree: Tree, fn: FuncInfo, ints: dict[str, int], flags: dict[str, bool] | None = None, extra: dict | None = None):
        from .ncterms import MatrixModel

        self.tree, self.fn = tree, fn
        self.model = MatrixModel(tree, "dense")
        self.kwargs: dict[str, object] = {**ints, **(flags or {}), **(extra or {})}
        self.raw = None

    def run(self):
        """The returned value: a ``Mat`` / ``RF``, or a tuple of them."""
        fn = self.fn
        kwargs = dict(self.kwargs)
        a = fn.node.args
        names = [x.arg for x in [*a.posonlyargs, *a.args, *a.kwonlyargs]]
        if names and names[0] in {"cls", "self"} and fn.cls is not None and names[0] not in kwargs:
            kwargs[names[0]] = self.model.class_object(fn.cls.qual)
        self.raw = self.model.call(fn, [], kwargs)
        vals = self.model.results(self.raw)
        return tuple(vals) if isinstance(self.raw, (tuple, list)) or len(vals) != 1 else vals[0]


def deep_symbols(m: "Mat") -> set:
    """The symbol atoms ``("sym", name, assumptions)`` a matrix depends on, also below roots and conjugates."""
    from .poly import D, Poly

    out: set = set()
    seen: set = set()

    def visit(a) -> None:
        if a in seen:
            return
        seen.add(a)
        if isinstance(a, tuple) and a:
            if a[0] == "sym":
                out.add(a)
            elif a[0] == "sqrt" and isinstance(D.radicands.get(a), Poly):
                for x in D.radicands[a].atoms():
                    visit(x)
            elif a[0] == "conj":
                visit(a[1])

    for row in m.rows:
        for x in row:
            for a in x.atoms():
                visit(a)
    return out


def rho_atoms(model, n: int, matrix: "Mat | None" = None) -> list[RF]:
    """The placeholders rho_0 .. rho_{n-1} as the interpreted code constructed them (``Symbol(f"rho{i}")`` with
    whatever name stem and assumptions it gives them; of several families the one ``matrix`` depends on); the
    plain symbols if the code constructed none."""
    import re

    stems: dict = {}
    for a, (name, _) in (model.symbols.items() if model is not None else ()):
        mt = re.fullmatch(r"(.*?)(\d+)", name)
        if mt:
            stems.setdefault(mt.group(1), {}).setdefault(int(mt.group(2)), []).append(a)
    full = {st: idx for st, idx in stems.items() if sorted(idx) == list(range(n))}
    if matrix is not None and len(full) > 0:
        used = deep_symbols(matrix)
        in_matrix = {st: idx for st, idx in full.items() if any(a in used for atoms in idx.values() for a in atoms)}
        for st, idx in in_matrix.items():
            in_matrix[st] = {i: [a for a in atoms if a in used] or atoms for i, atoms in idx.items()}
        full = in_matrix or full
    if len(full) > 1 and "rho" in full:
        full = {"rho": full["rho"]}
    if not full:
        return [RF.atom(("sym", f"rho{i}", ())) for i in range(n)]
    if len(full) > 1:
        raise DenseError(f"several families of indexed placeholders are constructed: {sorted(full)}")
    ((_, idx),) = full.items()
    if any(len(atoms) != 1 for atoms in idx.values()):
        raise DenseError("a placeholder is constructed with different assumptions in one evaluation")
    return [RF.atom(idx[i][0]) for i in range(n)]


def _diag(entries: list[RF]) -> Mat:
    n = len(entries)
    return Mat([[entries[i] if i == j else RF.const(0) for j in range(n)] for i in range(n)])


def spec_t(rel: bool, hat: bool, n: int, model=None, matrix: "Mat | None" = None) -> Mat:
    """T = K (1 - iK)^-1;  T^ = K (1 - i rho K)^-1,  T = conj(sqrt rho) T^ sqrt(rho)  for n channels."""
    from .ncterms import conj_rf

    k = Mat.symbols("K", n, n)
    if not rel:
        return k.matmul((Mat.eye(n) - k.map(lambda x: I * x)).inv())
    rho = rho_atoms(model, n, matrix)
    t_hat = k.matmul((Mat.eye(n) - _diag(rho).matmul(k).map(lambda x: I * x)).inv())
    if hat:
        return t_hat
    sq = [r ** Fraction(1, 2) for r in rho]
    return _diag([conj_rf(x) for x in sq]).matmul(t_hat).matmul(_diag(sq))


def spec_f(rel: bool, hat: bool, n: int, model=None, matrix: "Mat | None" = None) -> Mat:
    """F = (1 - iK)^-1 P;  F^ = (1 - i K^ rho)^-1 P with K^ = conj(sqrt rho)^-1 K sqrt(rho)^-1,  F = sqrt(rho) F^."""
    from .ncterms import conj_rf

    k, p = Mat.symbols("K", n, n), Mat.symbols("P", n, 1)
    if not rel:
        return (Mat.eye(n) - k.map(lambda x: I * x)).inv().matmul(p)
    rho = rho_atoms(model, n, matrix)
    sq = [r ** Fraction(1, 2) for r in rho]
    k_hat = _diag([RF.const(1) / conj_rf(x) for x in sq]).matmul(k).matmul(_diag([RF.const(1) / x for x in sq]))
    f_hat = (Mat.eye(n) - k_hat.matmul(_diag(rho)).map(lambda x: I * x)).inv().matmul(p)
    return f_hat if hat else _diag(sq).matmul(f_hat)


def first_difference(a: Mat, b: Mat) -> str | None:
    """None if the matrices agree entry by entry, else a description of the first entry that differs."""
    if (a.n, a.m) != (b.n, b.m):
        return f"shape {a.n}x{a.m} instead of {b.n}x{b.m}"
    for i in range(a.n):
        for j in range(a.m):
            if not equal(a.rows[i][j], b.rows[i][j]):
                return f"entry [{i},{j}]: {repr(a.rows[i][j])[:200]}  instead of  {repr(b.rows[i][j])[:200]}"
    return None
