"""Explicit small matrices over the rational-function normal form (sa.poly).

Used where the code special-cases a concrete matrix size (``if n_channels == 2: <closed form>``):
the closed form is evaluated entry by entry on a symbol matrix and compared, as rational functions
of the entries, with the defining identity.  No code of /repo is run: this interprets the
statements of one function (assignments, a return, branches decided by the stated assumption)."""

from __future__ import annotations

import ast
from fractions import Fraction

from .loader import AnalysisError, FuncInfo, Tree, unparse
from .poly import RF, I, equal, sym


class DenseError(AnalysisError):
    pass


class Mat:
    def __init__(self, rows: list[list[RF]]):
        self.rows = rows
        self.n = len(rows)
        self.m = len(rows[0]) if rows else 0

    @staticmethod
    def eye(n: int) -> "Mat":
        return Mat([[RF.const(1 if i == j else 0) for j in range(n)] for i in range(n)])

    @staticmethod
    def symbols(name: str, n: int, m: int) -> "Mat":
        return Mat([[sym(f"{name}{i}{j}") for j in range(m)] for i in range(n)])

    def map(self, f) -> "Mat":
        return Mat([[f(x) for x in r] for r in self.rows])

    def __add__(self, o):
        if not isinstance(o, Mat) or (o.n, o.m) != (self.n, self.m):
            raise DenseError("matrix + non-matrix / shape mismatch")
        return Mat([[a + b for a, b in zip(r, s)] for r, s in zip(self.rows, o.rows)])

    def __sub__(self, o):
        return self + o.map(lambda x: -x)

    def __neg__(self):
        return self.map(lambda x: -x)

    def matmul(self, o: "Mat") -> "Mat":
        if self.m != o.n:
            raise DenseError("matrix product shape mismatch")
        out = []
        for i in range(self.n):
            row = []
            for j in range(o.m):
                acc = RF.const(0)
                for k in range(self.m):
                    acc = acc + self.rows[i][k] * o.rows[k][j]
                row.append(acc)
            out.append(row)
        return Mat(out)

    def T(self) -> "Mat":  # noqa: N802
        return Mat([[self.rows[j][i] for j in range(self.n)] for i in range(self.m)])

    def trace(self) -> RF:
        acc = RF.const(0)
        for i in range(min(self.n, self.m)):
            acc = acc + self.rows[i][i]
        return acc

    def minor(self, i: int, j: int) -> "Mat":
        return Mat([[x for jj, x in enumerate(r) if jj != j] for ii, r in enumerate(self.rows) if ii != i])

    def det(self) -> RF:
        if self.n != self.m:
            raise DenseError("det of a non-square matrix")
        if self.n == 1:
            return self.rows[0][0]
        acc = RF.const(0)
        for j in range(self.n):
            term = self.rows[0][j] * self.minor(0, j).det()
            acc = acc + term if j % 2 == 0 else acc - term
        return acc

    def adjugate(self) -> "Mat":
        n = self.n
        if n == 1:
            return Mat([[RF.const(1)]])
        return Mat([[self.minor(j, i).det() * RF.const(1 if (i + j) % 2 == 0 else -1) for j in range(n)] for i in range(n)])

    def inv(self) -> "Mat":
        d = self.det()
        if d.is_zero():
            raise DenseError("inverse of a singular matrix")
        return self.adjugate().map(lambda x: x / d)

    def equals(self, o: "Mat") -> bool:
        return (self.n, self.m) == (o.n, o.m) and all(equal(a, b) for r, s in zip(self.rows, o.rows) for a, b in zip(r, s))

    def show(self) -> str:
        return "[" + "; ".join(", ".join(repr(x)[:60] for x in r) for r in self.rows) + "]"


class DenseEval:
    """Interprets one function on explicit matrices; ``sizes`` binds integer parameters."""

    def __init__(self, tree: Tree, fn: FuncInfo, ints: dict[str, int], flags: dict[str, bool] | None = None):
        self.tree, self.fn = tree, fn
        self.env: dict[str, object] = dict(ints)
        self.env.update(flags or {})

    def run(self):
        r = self._block(self.fn.node.body)
        if r is None:
            raise DenseError(f"{self.fn.qual}: no return reached")
        return r

    def _truth(self, test: ast.AST) -> bool:
        v = self.ev(test)
        if isinstance(v, bool):
            return v
        raise DenseError(f"branch on `{unparse(test)}` cannot be decided for the assumed sizes")

    def _block(self, body):
        for st in body:
            if isinstance(st, ast.Expr) and isinstance(st.value, ast.Constant):
                continue
            if isinstance(st, (ast.Assign, ast.AnnAssign)):
                if st.value is None:
                    continue
                v = self.ev(st.value)
                targets = st.targets if isinstance(st, ast.Assign) else [st.target]
                for t in targets:
                    if isinstance(t, ast.Name):
                        self.env[t.id] = v
                    elif isinstance(t, (ast.Tuple, ast.List)) and isinstance(v, tuple) and len(v) == len(t.elts) and all(isinstance(e, ast.Name) for e in t.elts):
                        for e, x in zip(t.elts, v):
                            self.env[e.id] = x
                    else:
                        raise DenseError(f"assignment target `{unparse(t)}`")
                continue
            if isinstance(st, ast.If):
                r = self._block(st.body if self._truth(st.test) else st.orelse)
                if r is not None:
                    return r
                continue
            if isinstance(st, ast.Return):
                return self.ev(st.value)
            raise DenseError(f"statement `{unparse(st)[:60]}` outside the grammar of the dense evaluator")
        return None

    def ev(self, node):
        if isinstance(node, ast.Constant):
            if isinstance(node.value, bool):
                return node.value
            if isinstance(node.value, int):
                return node.value
            raise DenseError(f"constant `{node.value!r}`")
        if isinstance(node, ast.Name):
            if node.id in self.env:
                return self.env[node.id]
            raise DenseError(f"free name `{node.id}`")
        if isinstance(node, ast.Attribute):
            txt = unparse(node)
            if txt in {"sp.I", "sympy.I"}:
                return I
            if node.attr in {"T"}:
                v = self.ev(node.value)
                if isinstance(v, Mat):
                    return v.T()
            raise DenseError(f"attribute `{txt}`")
        if isinstance(node, ast.Tuple):
            return tuple(self.ev(e) for e in node.elts)
        if isinstance(node, ast.UnaryOp):
            v = self.ev(node.operand)
            if isinstance(node.op, ast.USub):
                return -v if not isinstance(v, int) else -v
            if isinstance(node.op, ast.Not) and isinstance(v, bool):
                return not v
            raise DenseError(f"unary `{unparse(node)}`")
        if isinstance(node, ast.Compare) and len(node.ops) == 1:
            a, b = self.ev(node.left), self.ev(node.comparators[0])
            if isinstance(a, int) and isinstance(b, int):
                op = node.ops[0]
                table = {ast.Eq: a == b, ast.NotEq: a != b, ast.Lt: a < b, ast.LtE: a <= b, ast.Gt: a > b, ast.GtE: a >= b}
                for k, v in table.items():
                    if isinstance(op, k):
                        return v
            raise DenseError(f"comparison `{unparse(node)}`")
        if isinstance(node, ast.BinOp):
            a, b = self.ev(node.left), self.ev(node.right)
            return self._binop(node, a, b)
        if isinstance(node, ast.Subscript):
            v = self.ev(node.value)
            idx = self.ev(node.slice)
            if isinstance(v, Mat) and isinstance(idx, tuple) and len(idx) == 2 and all(isinstance(i, int) for i in idx):
                return v.rows[idx[0]][idx[1]]
            raise DenseError(f"subscript `{unparse(node)}`")
        if isinstance(node, ast.Call):
            return self._call(node)
        raise DenseError(f"expression `{unparse(node)[:60]}`")

    @staticmethod
    def _scalar(x):
        if isinstance(x, int) and not isinstance(x, bool):
            return RF.const(Fraction(x))
        return x

    def _binop(self, node, a, b):
        op = node.op
        if isinstance(a, int) and isinstance(b, int) and not isinstance(op, ast.Div):
            return {ast.Add: a + b, ast.Sub: a - b, ast.Mult: a * b}.get(type(op), None) if type(op) in {ast.Add, ast.Sub, ast.Mult} else (a**b if isinstance(op, ast.Pow) and b >= 0 else self._fail(node))
        a, b = self._scalar(a), self._scalar(b)
        if isinstance(op, (ast.Add, ast.Sub)):
            if isinstance(a, Mat) != isinstance(b, Mat):
                raise DenseError(f"`{unparse(node)[:60]}` adds a scalar and a matrix (SymPy raises)")
            return a + b if isinstance(op, ast.Add) else a - b
        if isinstance(op, (ast.Mult, ast.MatMult)):
            if isinstance(a, Mat) and isinstance(b, Mat):
                return a.matmul(b)
            if isinstance(a, Mat):
                return a.map(lambda x: x * b)
            if isinstance(b, Mat):
                return b.map(lambda x: a * x)
            return a * b
        if isinstance(op, ast.Div):
            if isinstance(b, Mat):
                raise DenseError("division by a matrix")
            if isinstance(a, Mat):
                return a.map(lambda x: x / b)
            return a / b
        if isinstance(op, ast.Pow):
            e = node.right
            ev = self.ev(e)
            if isinstance(ev, int):
                if isinstance(a, Mat):
                    if ev == -1:
                        return a.inv()
                    if ev >= 0:
                        out = Mat.eye(a.n)
                        for _ in range(ev):
                            out = out.matmul(a)
                        return out
                else:
                    return a**ev
        return self._fail(node)

    def _fail(self, node):
        raise DenseError(f"operation `{unparse(node)[:60]}`")

    def _call(self, node: ast.Call):
        f = node.func
        if isinstance(f, ast.Attribute):
            name = unparse(f)
            if name in {"sp.eye", "sympy.eye"} and len(node.args) == 1:
                n = self.ev(node.args[0])
                if isinstance(n, int):
                    return Mat.eye(n)
            if name in {"sp.Matrix", "sympy.Matrix"} and len(node.args) == 1 and isinstance(node.args[0], ast.List):
                rows = [[self._scalar(self.ev(e)) for e in r.elts] for r in node.args[0].elts if isinstance(r, ast.List)]
                if rows and all(len(r) == len(rows[0]) for r in rows):
                    return Mat(rows)
            if name in {"sp.Rational", "sympy.Rational"} and len(node.args) == 2:
                a, b = self.ev(node.args[0]), self.ev(node.args[1])
                if isinstance(a, int) and isinstance(b, int):
                    return RF.const(Fraction(a, b))
            if not name.startswith(("sp.", "sympy.")):
                v = self.ev(f.value)
                if isinstance(v, Mat) and not node.args:
                    if f.attr == "inv":
                        return v.inv()
                    if f.attr == "trace":
                        return v.trace()
                    if f.attr == "det":
                        return v.det()
                    if f.attr in {"transpose"}:
                        return v.T()
                    if f.attr in {"adjugate"}:
                        return v.adjugate()
        callee = self.tree.callee(node, self.fn)
        if callee and callee.endswith("::create_symbol_matrix") and len(node.args) == 3 and isinstance(node.args[0], ast.Constant):
            n, m = self.ev(node.args[1]), self.ev(node.args[2])
            if isinstance(n, int) and isinstance(m, int):
                return Mat.symbols(node.args[0].value, n, m)
        raise DenseError(f"call `{unparse(node)[:60]}` outside the grammar of the dense evaluator")
