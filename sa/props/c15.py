"""C15 - pickle round trip of a model is the identity.

Decides the structural half: what is handed to pickle reconstructs the object.  The hooks that ``@unevaluated``
installs (``__getnewargs__`` or a state hook) and the pickle hook of the deprecated base class are INTERPRETED on
model instances (``sa/rules.object_exec``, see C14) and compared with what pickle needs; how they are spelt is
invisible.  A shape outside the interpreted subset is an ANALYSIS-ERROR, never a violation.
"""

from __future__ import annotations

import ast
import builtins

from ..dataflow import RD
from ..exprmodel import IMPLEMENT_NEW, expression_classes, handwritten_expr_classes
from ..loader import AnalysisError, ClassInfo, FuncInfo, Tree, ancestors, unparse, walk_function
from ..report import Check
from ..rules import MObj, ModelError, ModelRaise, MRef, object_exec
from .c14 import DecoratorWorld, _interpret, _not_iterable, _sig, check_shallow_hooks, installed_by_model

PID = "C15"
PICKLE_HOOKS = {"__reduce__", "__reduce_ex__", "__getstate__", "__setstate__", "__getnewargs__", "__getnewargs_ex__"}
_TUPLE_NAMES = {"sp.Tuple", "Tuple", "sympy.Tuple"}


# ---------------------------------------------------------------------------- R-NEWARGS (hand-written classes)
def new_args_arity(tree: Tree, fn: FuncInfo) -> tuple[int, bool] | None | str:
    """Arity of ``self.args`` as created by ``sp.Expr.__new__(cls, a, b, *rest)`` inside a
    hand-written ``__new__``: (fixed positional count, variadic?).  None: no such call; a string: the reason why the
    arity of a call cannot be determined."""
    rd = RD(fn.node)
    results = []
    for node in walk_function(fn.node):
        if not (isinstance(node, ast.Call) and isinstance(node.func, ast.Attribute) and node.func.attr == "__new__"):
            continue
        if not node.args:
            continue
        fixed, variadic = 0, False
        for a in node.args[1:]:
            if isinstance(a, ast.Starred):
                n = _tuple_len(rd, a.value, fn, 0, tree)
                if n is None:
                    return f"cannot determine the length of `*{unparse(a.value)[:40]}` in `{unparse(node)[:60]}`"
                fixed += n[0]
                variadic |= n[1]
            else:
                fixed += 1
        results.append((fixed, variadic))
    if not results:
        return None
    # several constructor calls: they must agree, otherwise take the loosest
    fixed = min(r[0] for r in results)
    variadic = any(r[1] for r in results) or len({r[0] for r in results}) > 1
    return fixed, variadic


def _tuple_len(rd: RD, expr: ast.AST, fn: FuncInfo, depth: int = 0, tree: Tree | None = None, bound: dict | None = None) -> tuple[int, bool] | None:
    """(number of fixed elements, open-ended?) of a sequence-valued expression; None: unknown."""
    if depth > 16:
        return None
    if isinstance(expr, ast.Call) and isinstance(expr.func, (ast.Attribute, ast.Name)) and not expr.keywords:
        name = expr.func.attr if isinstance(expr.func, ast.Attribute) else expr.func.id
        if name in {"sympify", "_sympify", "tuple", "list", "sorted", "reversed"} and len(expr.args) == 1:
            return _tuple_len(rd, expr.args[0], fn, depth + 1, tree, bound)
        if name == "Tuple":
            return _tuple_len(rd, ast.Tuple(elts=list(expr.args), ctx=ast.Load()), fn, depth + 1, tree, bound)
        if name == "map" and len(expr.args) == 2:
            return _tuple_len(rd, expr.args[1], fn, depth + 1, tree, bound)
    if isinstance(expr, ast.Call) and tree is not None and getattr(expr, "_module", None) is not None:
        # a helper of the package that builds the sequence: what it returns
        callee = tree.funcs.get(tree.callee(expr, tree.func_of(expr) or fn) or "")
        if callee is not None and callee is not fn and depth < 12:
            crd = RD(callee.node)
            # what the caller passes for the helper's parameters (a sequence-valued argument; the extra positional arguments of *args)
            ca = callee.node.args
            named = [p.arg for p in [*ca.posonlyargs, *ca.args]]
            if callee.cls is not None and named[:1] in (["self"], ["cls"]) and isinstance(expr.func, ast.Attribute):
                named = named[1:]
            passed: dict[str, tuple[int, bool] | None] = {}
            if not any(isinstance(a, ast.Starred) for a in expr.args):
                for p, a in zip(named, expr.args):
                    passed[p] = _tuple_len(rd, a, fn, depth + 1, tree, bound)
                if ca.vararg is not None:
                    passed[ca.vararg.arg] = (max(0, len(expr.args) - len(named)), False)
            elif ca.vararg is not None:
                passed[ca.vararg.arg] = _tuple_len(rd, ast.Tuple(elts=list(expr.args[len(named):]), ctx=ast.Load()), fn, depth + 1, tree, bound) if len(expr.args) >= len(named) and not any(isinstance(a, ast.Starred) for a in expr.args[: len(named)]) else None
            for k in expr.keywords:
                if k.arg:
                    passed[k.arg] = _tuple_len(rd, k.value, fn, depth + 1, tree, bound)
            rets = [r for r in walk_function(callee.node, nested=False) if isinstance(r, ast.Return) and r.value is not None]
            lens = {_tuple_len(crd, r.value, callee, depth + 1, tree, passed) for r in rets}
            if len(lens) == 1 and None not in lens:
                return lens.pop()
    if isinstance(expr, (ast.ListComp, ast.GeneratorExp)) and len(expr.generators) == 1 and not expr.generators[0].ifs:
        return _tuple_len(rd, expr.generators[0].iter, fn, depth + 1, tree, bound)
    if isinstance(expr, (ast.Tuple, ast.List)):
        fixed, variadic = 0, False
        for e in expr.elts:
            if isinstance(e, ast.Starred):
                inner = _tuple_len(rd, e.value, fn, depth + 1, tree, bound)
                if inner is None:
                    return None
                fixed += inner[0]
                variadic |= inner[1]
            else:
                fixed += 1
        return fixed, variadic
    if isinstance(expr, ast.BinOp) and isinstance(expr.op, ast.Add):
        left, right = _tuple_len(rd, expr.left, fn, depth + 1, tree, bound), _tuple_len(rd, expr.right, fn, depth + 1, tree, bound)
        if left is None or right is None:
            return None
        return left[0] + right[0], left[1] or right[1]
    if isinstance(expr, ast.Name):
        if bound is not None and expr.id in bound and all(d.kind == "param" for d in rd.reaching(expr)):
            return bound[expr.id]  # a parameter of a helper: what the caller passed
        if fn.node.args.vararg is not None and expr.id == fn.node.args.vararg.arg and all(d.kind == "param" for d in rd.reaching(expr)):
            return 0, True  # the *args of __new__ itself: any number
        defs = rd.reaching(expr)
        grown = any(isinstance(n, ast.Call) and isinstance(n.func, ast.Attribute) and n.func.attr in {"append", "extend", "insert"} and isinstance(n.func.value, ast.Name) and n.func.value.id == expr.id
                    for n in walk_function(fn.node)) or any(isinstance(n, ast.AugAssign) and isinstance(n.target, ast.Name) and n.target.id == expr.id for n in walk_function(fn.node))
        lens = set()
        for d in defs:
            if d.kind in {"store", "aug"}:
                continue  # the growth of an accumulator (judged by `grown`)
            n = _tuple_len(rd, d.value, fn, depth + 1, tree, bound) if d.value is not None and d.kind == "assign" and d.index is None else None
            if n is None and d.kind == "assign" and d.index is not None and d.value is not None and isinstance(d.node, ast.Assign) and len(d.node.targets) == 1:
                # `a, *rest = seq`: the starred target holds what is left after the other targets took one element each
                tgt = d.node.targets[0]
                if isinstance(tgt, (ast.Tuple, ast.List)) and d.index < len(tgt.elts) and isinstance(tgt.elts[d.index], ast.Starred) and isinstance(tgt.elts[d.index].value, ast.Name) \
                        and tgt.elts[d.index].value.id == expr.id and sum(isinstance(e, ast.Starred) for e in tgt.elts) == 1:
                    whole = _tuple_len(rd, d.value, fn, depth + 1, tree, bound)
                    taken = len(tgt.elts) - 1
                    if whole is not None and (whole[0] >= taken):
                        n = (whole[0] - taken, whole[1])
            if n is None and d.kind == "assign" and isinstance(d.value, ast.Call) and isinstance(d.value.func, ast.Name) and d.value.func.id in {"list", "tuple"} and not d.value.args:
                n = (0, False)
            lens.add(n)
        if len(lens) == 1 and None not in lens:
            fixed, variadic = lens.pop()
            return fixed, variadic or grown  # a list that is grown element by element (append in a loop): open-ended
        return None
    return None


def signature_accepts(fn: FuncInfo, fixed: int, variadic: bool) -> str | None:
    a = fn.node.args
    pos = [*a.posonlyargs, *a.args][1:]  # drop cls
    n_defaults = len(a.defaults)
    required = len(pos) - n_defaults
    has_var = a.vararg is not None
    if fixed < required and not variadic:
        return f"__new__ requires {required} positional arguments but self.args has {fixed}"
    if not has_var and (fixed > len(pos) or variadic):
        return f"__new__ accepts at most {len(pos)} positional arguments but self.args has {fixed}{'+' if variadic else ''}"
    return None


# ---------------------------------------------------------------------------- R-STATE
def check_state_hook(ctx: Check, tree: Tree) -> None:
    """Without a custom __getnewargs__ the non-SymPy attributes travel as instance state:
    the state hook must hand out exactly those attributes - never SymPy's own slots, which
    contain the cached hash (`_mhash`, process dependent under hash randomisation).  Decided on the model: the
    installed hook is interpreted on an instance whose class has the slots of its non-SymPy fields and whose base
    (sympy.Basic) has the slots ``_mhash``, ``_args``, ``_assumptions``; the state it returns is inspected."""
    world = DecoratorWorld.of(tree)
    table = installed_by_model(tree)
    state_attrs = [a for a in ("__getstate__", "__reduce__", "__reduce_ex__", "__getnewargs_ex__") if a in table]
    if not state_attrs:
        raise AnalysisError("the decorator installs neither __getnewargs__ nor a state hook: pickling of non-SymPy attributes is outside the rule's grammar")
    basic_slots = ("_mhash", "_args", "_assumptions")
    for attr in state_attrs:
        leaks, incomplete, fine = [], [], 0
        undecided: list[str] = []
        name = where = ""
        for sig, hook in sorted(table[attr].items()):
            cls = world.model_class(sig)
            name, where = world.describe(hook)
            values = [MObj(f"a{i}", {"__iter__": _not_iterable}, kinds={"expr"} if s else {"plain"}, open=False) for i, s in enumerate(sig)]
            basic = MObj("class sympy.Basic", {"__slots__": basic_slots, "__name__": "Basic"}, kinds={"class"}, open=False)
            expr = MObj("class sympy.Expr", {"__slots__": (), "__name__": "Expr"}, kinds={"class"}, open=False)
            me = MObj("self", {f"a{i}": v for i, v in enumerate(values)}, kinds={"expr"}, open=False)
            sympy_values = tuple(v for v, s in zip(values, sig) if s)
            me.attrs.update({"__class__": cls, "args": sympy_values, "_args": sympy_values, "_mhash": 1234567, "_assumptions": MObj("assumptions", open=False), "__iter__": _not_iterable})
            cls.attrs["__mro__"] = (cls, expr, basic, ("builtin", "object"))
            ex = world.exec()
            got = _interpret(f"cls.{attr}", lambda ex=ex, hook=hook, me=me, attr=attr: ex.apply(hook, [me, *([2] if attr == "__reduce_ex__" else [])], {}))
            label = f"fields <{_sig(sig)}>"
            if isinstance(got, tuple) and got and got[0] == "raises":
                raise AnalysisError(f"state hook cls.{attr} = {name}: {got[1]} on the model instance ({label})")
            states = [got] if attr == "__getstate__" else list(got[2:3]) if isinstance(got, tuple) and attr.startswith("__reduce") else [got[1]] if isinstance(got, tuple) and len(got) == 2 else [got]
            flat: dict = {}
            for st in states:
                for part in (st if isinstance(st, tuple) else (st,)):
                    if isinstance(part, dict):
                        flat.update(part)
                    elif part is not None:
                        raise AnalysisError(f"state hook cls.{attr} = {name}: cannot tell which attributes are handed to pickle (returns {got!r} for {label})")
            handed = [k for k in flat if k in basic_slots]
            non_sympy = [f"a{i}" for i, s in enumerate(sig) if not s]
            if handed:
                leaks.append(f"{label}: the state contains {handed}")
            elif attr == "__getstate__" and any(n not in flat for n in non_sympy):
                incomplete.append(f"{label}: the state {sorted(flat)} lacks {[n for n in non_sympy if n not in flat]}")
            elif attr == "__getnewargs_ex__":
                # pickle calls cls.__new__(cls, *args, **kwargs) with the pair: the rebuilt model instance must carry every value again
                new_hook = cls.installed.get("__new__")  # type: ignore[attr-defined]
                if not (isinstance(got, tuple) and len(got) == 2 and isinstance(got[0], (tuple, list)) and isinstance(got[1], dict)) or new_hook is None:
                    raise AnalysisError(f"state hook cls.{attr} = {name}: returns {got!r} for {label}, not a pair (args, kwargs)")
                ex2 = world.exec()
                rebuilt = _interpret("cls.__new__", lambda ex2=ex2, got=got, new_hook=new_hook, cls=cls: ex2.apply(new_hook, [cls, *got[0]], dict(got[1])))
                same = isinstance(rebuilt, MObj) and all(rebuilt.attrs.get(f"a{i}") is v for i, v in enumerate(values)) and \
                    len(rebuilt.attrs.get("args", ())) == len(sympy_values) and all(x is y for x, y in zip(rebuilt.attrs.get("args", ()), sympy_values))
                if same:
                    fine += 1
                else:
                    incomplete.append(f"{label}: cls.__new__(cls, *args, **kwargs) with the returned pair gives {rebuilt!r}, not an instance with the same field values")
            elif attr.startswith("__reduce"):
                undecided.append(f"{label}: returns {got!r}")
            else:
                fine += 1
        key = f"{IMPLEMENT_NEW}::cls.{attr}"
        if leaks:
            ctx.violation("R-STATE", key + "::hands-out-hash-cache", where,
                          f"cls.{attr} = {name.split('::')[-1]}: the state handed to pickle includes the slots of sympy.Basic, among them the cached hash `_mhash` ({leaks[0]})",
                          "Basic.__setstate__ restores the hash of the dumping process: after a cross-process load (different PYTHONHASHSEED) equal expressions hash differently, dict/set lookups and xreplace on the loaded model silently miss")
        if incomplete:
            ctx.violation("R-STATE", key + "::incomplete-state", where, f"cls.{attr} = {name.split('::')[-1]}: the state does not carry every non-SymPy attribute ({incomplete[0]})")
        if not leaks and not incomplete and undecided:
            raise AnalysisError(f"state hook cls.{attr} = {name}: whether the reduction rebuilds an equal instance is outside the rule's model ({undecided[0]})")
        if not leaks and not incomplete:
            ctx.ok("R-STATE", where, f"cls.{attr} = {name.split('::')[-1]}: on {fine} model instances the state is built from the class's own non-SymPy fields")


# ---------------------------------------------------------------------------- R-ATTRIDENTITY
_VALUE_DECORATORS = {"attrs.frozen", "attr.frozen", "attrs.define", "attr.define", "attr.s", "attrs.mutable", "attr.attrs", "dataclasses.dataclass"}
_VALUE_BASES = {"typing.NamedTuple", "NamedTuple", "tuple", "str", "int", "float", "frozenset", "enum.Enum", "enum.IntEnum", "enum.Flag", "enum.StrEnum"}
_NEUTRAL_BASES = {"object", "typing.Protocol", "typing.Generic", "abc.ABC", "typing_extensions.Protocol"}


def _instance_identity(tree: Tree, cls: ClassInfo) -> str:
    """'value' (instances compare by value), 'identity' (plain class: by identity), 'unknown'."""
    if tree.lookup_method(cls, "__eq__") is not None and tree.lookup_method(cls, "__hash__") is not None:
        return "value"
    for c in tree.mro(cls):
        if any(t in _VALUE_DECORATORS for t, _ in c.decorators):
            return "value"
    ext = [b.split("[")[0] for b in tree.external_bases(cls)]
    if any(b in _VALUE_BASES for b in ext):
        return "value"
    if tree.lookup_method(cls, "__eq__") is not None:
        return "unknown"  # __eq__ without __hash__: unhashable, keyed by str()
    if all(b in _NEUTRAL_BASES for b in ext) and not any(c.decorators for c in tree.mro(cls)):
        return "identity"
    return "unknown"


def check_attribute_identity(ctx: Check, tree: Tree) -> None:
    """Values given to non-SymPy fields take part in equality/hash through their identity
    and are pickled with the expression.  A class or function is pickled by reference; an
    instance of a class without __eq__/__hash__ comes back as a different, unequal object; a lambda or a function
    defined inside a function cannot be pickled at all."""
    classes = expression_classes(tree)
    names = {f.name for c in classes.values() for f in c.non_sympy_fields if f.name != "name"}
    if not names:
        raise AnalysisError("no non-SymPy fields found")
    sites: list[tuple] = []
    for mod in tree.modules.values():
        if not mod.name.startswith("ampform"):
            continue
        for node in ast.walk(mod.tree):
            if not isinstance(node, ast.Call):
                continue
            seen = set()
            for k in node.keywords:
                if k.arg in names:
                    sites.append((mod, node, k.arg, k.value))
                    seen.add(k.arg)
            callee = tree.callee(node, tree.func_of(node)) if getattr(node, "_module", None) is not None else None
            ec = classes.get(callee or "")
            if ec is not None and not any(isinstance(a, ast.Starred) for a in node.args):
                for f, a in zip(ec.fields, node.args):  # the same attribute given positionally
                    if f.name in names and f.name not in seen:
                        sites.append((mod, node, f.name, a))
    undecided = []
    for mod, call, field, val in sites:
        where = tree.loc(call)
        what = f"{unparse(call.func)}(..., {field}={unparse(val)[:50]})"
        verdicts = _value_identity(tree, mod, tree.func_of(call), val, 0)
        bad = [v for v in verdicts if v[0] == "bad"]
        unknown = [v for v in verdicts if v[0] == "unknown"]
        if bad:
            ctx.violation("R-ATTRIDENTITY", f"{mod.name}::{what}", where, f"{what}: {bad[0][1]}", bad[0][2])
        elif unknown:
            undecided.append(f"{where}: {what}: {unknown[0][1]}")
        else:
            ctx.ok("R-ATTRIDENTITY", where, f"{what}: {verdicts[0][1] if verdicts else 'forwarded value'}")
    ctx.stats["non_sympy_attribute_sites"] = len(sites)
    if undecided:
        raise AnalysisError("; ".join(undecided[:3]))
    if len(sites) < 3:
        raise AnalysisError(f"only {len(sites)} call sites pass a non-SymPy attribute (10+ confirmed)")


def _value_identity(tree: Tree, mod, scope: FuncInfo | None, val: ast.AST, depth: int) -> list[tuple]:
    """[(verdict 'ok' | 'bad' | 'unknown', what, why)] for a value given to a non-SymPy field."""
    by_value = "the instance is pickled by value: the loaded expression holds a new object, so loaded != original (equality and hash of the expression go through the attribute)"
    if isinstance(val, ast.Constant):
        return [("ok", "a constant", None)]
    if isinstance(val, ast.Lambda):
        return [("bad", "a lambda is used as a non-SymPy attribute", "pickle stores functions by module and qualified name: a lambda cannot be pickled (`Can't pickle <lambda>`), dumps() of every expression that holds it raises")]
    if isinstance(val, ast.IfExp):
        return _value_identity(tree, mod, scope, val.body, depth + 1) + _value_identity(tree, mod, scope, val.orelse, depth + 1)
    if isinstance(val, ast.BoolOp):
        return [v for e in val.values for v in _value_identity(tree, mod, scope, e, depth + 1)]
    if isinstance(val, ast.Attribute):
        target = tree.resolve(mod, val, scope)
        if target in tree.classes or target in tree.funcs and tree.funcs[target].outer is None:
            return [("ok", "a class / function of the package (pickled by reference)", None)]
        return [("ok", "an attribute value that is forwarded", None)]
    if isinstance(val, ast.Name):
        target = tree.resolve(mod, val, scope)
        if target in tree.classes:
            return [("ok", "a class (pickled by reference)", None)]
        if target in tree.funcs:
            if tree.funcs[target].outer is not None:
                return [("bad", f"the function `{val.id}` defined inside `{tree.funcs[target].outer.name}()` is used as a non-SymPy attribute",
                         "pickle cannot find a function-local function by module + qualified name: dumps() of every expression that holds it raises")]
            return [("ok", "a module-level function (pickled by reference)", None)]
        if target is not None:
            return [("ok", "an imported / module-level object (pickled by reference)", None)]
        if scope is not None and depth < 4:
            top = scope
            while top.outer is not None:
                top = top.outer
            rd = RD(top.node)
            try:
                defs = rd.reaching(val)
            except Exception:  # noqa: BLE001
                defs = set()
            out = []
            for d in defs:
                if d.kind == "param":
                    out.append(("ok", "a forwarded parameter", None))
                elif d.kind == "assign" and d.value is not None and d.index is None:
                    out += _value_identity(tree, mod, scope, d.value, depth + 1)
                else:
                    out.append(("ok", "a forwarded value", None))
            if out:
                return out
        return [("ok", "a forwarded value", None)]
    if isinstance(val, ast.Call):
        target = tree.resolve(mod, val.func, scope)
        if target in tree.classes:
            cls = tree.classes[target]
            kind = _instance_identity(tree, cls)
            if kind == "value":
                return [("ok", f"an instance of {cls.name}, which compares by value", None)]
            if kind == "identity":
                return [("bad", f"an instance of {cls.name} is used as a non-SymPy attribute but the class defines no __eq__/__hash__", by_value)]
            return [("unknown", f"an instance of {cls.name}: the rule cannot tell how its instances compare (external base / decorator)", None)]
        if target in {"typing.cast", "typing_extensions.cast"} and len(val.args) == 2:
            return _value_identity(tree, mod, scope, val.args[1], depth + 1)
        if target == "functools.partial":
            return [("bad", "a functools.partial object is used as a non-SymPy attribute", "partial objects compare by identity and are pickled by value: the loaded expression is not equal to the original")]
        if target in tree.funcs and depth < 3:
            callee = tree.funcs[target]
            rets = [r for r in walk_function(callee.node, nested=False) if isinstance(r, ast.Return) and r.value is not None]
            if rets:
                return [v for r in rets for v in _value_identity(tree, callee.module, callee, r.value, depth + 1)]
        return [("unknown", f"the value of the call `{unparse(val)[:50]}` is outside the rule's grammar", None)]
    return [("unknown", f"`{unparse(val)[:50]}` is outside the rule's grammar", None)]


# ---------------------------------------------------------------------------- R-TOPLEVEL
def check_toplevel_classes(ctx: Check, tree: Tree) -> None:
    """R-TOPLEVEL: pickle stores a class by module and __qualname__; an expression class that is
    defined inside a function (a class factory) has the qualname `factory.<locals>.Name` and
    cannot be looked up again: dumps() of any expression that contains an instance raises."""
    n_top = 0
    bad = []
    expr_quals = set(expression_classes(tree)) | set(handwritten_expr_classes(tree))
    for mod in tree.modules.values():
        if not mod.name.startswith("ampform"):
            continue
        for node in ast.walk(mod.tree):
            if not isinstance(node, ast.ClassDef):
                continue
            scope = tree.func_of(node)
            decorated = any((tree.resolve(mod, d.func if isinstance(d, ast.Call) else d, scope) or "").endswith("::unevaluated")
                            or unparse(d).split("(")[0].endswith("unevaluated") for d in node.decorator_list)
            bases = [tree.resolve(mod, b, scope) or unparse(b) for b in node.bases]
            is_expr = decorated or any(b.startswith(("sympy.", "sp.")) or b in expr_quals or b.split("::")[-1] == "NumPyPrintable" for b in bases)
            if not is_expr:
                continue
            enclosing = [a for a in ancestors(node) if isinstance(a, (ast.FunctionDef, ast.AsyncFunctionDef, ast.Lambda))]
            if enclosing:
                bad.append((mod, node, enclosing[0]))
            else:
                n_top += 1
    for mod, node, f in bad:
        ctx.violation("R-TOPLEVEL", f"{mod.name}::{getattr(f, 'name', 'lambda')}.<locals>.{node.name}", f"{mod.relpath}:{node.lineno}",
                      f"{mod.name}: expression class `{node.name}` is defined inside `{getattr(f, 'name', 'lambda')}()`",
                      "pickle cannot find a function-local class by module + qualname: `Can't pickle local object` for every expression that contains an instance (also perform_cached_doit)")
    if n_top < 30:
        raise AnalysisError(f"only {n_top} top-level expression classes found (40+ confirmed)")
    if not bad:
        ctx.ok("R-TOPLEVEL", "src/ampform", f"all {n_top} expression classes of the package are defined at module (or class) level: picklable by reference")


# ---------------------------------------------------------------------------- R-CANONICAL
_INGREDIENTS = {"components", "amplitudes", "parameter_defaults", "kinematic_variables"}


def _ingredient_stores(fn_node: ast.AST, rd: RD):
    """(statement, attribute name, stored value) for ``X.<ingredient>[k] = v``, ``X.<ingredient>.update({k: v} / k=v)``,
    ``X.<ingredient>.setdefault(k, v)`` - also through a local alias of the mapping."""
    def ingredient(base: ast.AST) -> str | None:
        if isinstance(base, ast.Name):  # a local alias `components = self.__ingredients.components`
            adefs = [d for d in rd.reaching(base) if d.value is not None]
            if len(adefs) == 1 and isinstance(adefs[0].value, ast.Attribute):
                base = adefs[0].value
        if isinstance(base, ast.Attribute) and base.attr in _INGREDIENTS:
            return base.attr
        return None

    for st in walk_function(fn_node):
        if isinstance(st, ast.Assign) and isinstance(st.targets[0], ast.Subscript):
            name = ingredient(st.targets[0].value)
            if name:
                yield st, name, st.value
        elif isinstance(st, ast.AugAssign) and isinstance(st.target, ast.Subscript):
            name = ingredient(st.target.value)
            if name:
                yield st, name, st.value
        elif isinstance(st, ast.Expr) and isinstance(st.value, ast.Call) and isinstance(st.value.func, ast.Attribute) and st.value.func.attr in {"update", "setdefault"}:
            call = st.value
            name = ingredient(call.func.value)
            if not name:
                continue
            if call.func.attr == "setdefault" and len(call.args) == 2:
                yield st, name, call.args[1]
            elif call.func.attr == "update":
                for a in call.args:
                    if isinstance(a, ast.Dict):
                        for v in a.values:
                            yield st, name, v
                    elif isinstance(a, ast.DictComp):
                        yield st, name, a.value
                for k in call.keywords:
                    if k.arg:
                        yield st, name, k.value


def check_canonical_nodes(ctx: Check, tree: Tree) -> None:
    """R-CANONICAL: SymPy objects are pickled as (class, args) and rebuilt by calling the constructor,
    which evaluates.  A node created with evaluate=False that is stored AS IS in the model (not
    consumed by further arithmetic, which re-canonicalises) comes back flattened / re-ordered:
    loads(dumps(model)) != model."""
    builder_mod = "ampform.helicity::"
    n_stores = 0
    bad = 0
    for q, fn in sorted(tree.funcs.items()):
        if not q.startswith(builder_mod) or fn.outer is not None:
            continue
        rd = RD(fn.node)
        for st, attr, value in _ingredient_stores(fn.node, rd):
            n_stores += 1
            for origin, consumer in _direct_origins(tree, fn, rd, value, 0):
                if isinstance(origin, ast.Call) and any(k.arg == "evaluate" and isinstance(k.value, ast.Constant) and k.value.value is False for k in origin.keywords):
                    made = unparse(origin.func).split(".")[-1]  # Mul / Add / Pow ...
                    if consumer is not None and consumer == made:
                        continue  # Mul(Mul(a, b, evaluate=False), c) flattens: the node does not survive
                    bad += 1
                    ctx.violation("R-CANONICAL", f"{q}::{attr}::unevaluated-node", tree.loc(st),
                                  f"{q}: `{unparse(st)[:60]}` stores `{unparse(origin)[:60]}` (evaluate=False) in the model as it is",
                                  "after a pickle round trip the node is rebuilt with evaluation: nested Mul flattened / arguments re-ordered, the loaded model is not equal to the original")
    if n_stores < 3:
        raise AnalysisError(f"only {n_stores} stores into the model ingredients found (9 confirmed)")
    if not bad:
        ctx.ok("R-CANONICAL", "src/ampform/helicity/__init__.py", f"{n_stores} stores into components / amplitudes / parameter_defaults: none stores a node built with evaluate=False as it is")


_CONSUMER = {ast.Add: "Add", ast.Sub: "Add", ast.Mult: "Mul", ast.Div: "Mul"}


def _direct_origins(tree: Tree, fn: FuncInfo, rd: RD, expr: ast.AST, depth: int, consumer: str | None = None) -> list[tuple[ast.AST, str | None]]:
    """The nodes that SURVIVE in a value, each with the operation that consumes it directly (None: it is
    the value itself): through pure local aliases, repo calls that return it, and arithmetic.  SymPy
    flattens an unevaluated Mul only when a Mul consumes it (an unevaluated Add only inside an Add); as
    a term of a sum (`0 + x`, `acc.get(k, 0) + x`, `sum([x])`) or a factor of a product of the other
    kind the node stays in the tree as it is."""
    if depth > 4:
        return []
    if isinstance(expr, ast.Name):
        out = []
        for d in rd.reaching(expr):
            if d.kind in {"assign", "aug"} and isinstance(d.value, ast.AST):
                if d.kind == "aug":
                    op = _CONSUMER.get(type(d.node.op)) if isinstance(d.node, ast.AugAssign) else None
                    out += _direct_origins(tree, fn, rd, d.value, depth + 1, op)
                    continue
                out += _direct_origins(tree, fn, rd, d.value, depth + 1, consumer)
        return out
    if isinstance(expr, ast.BinOp) and type(expr.op) in _CONSUMER:
        op = _CONSUMER[type(expr.op)]
        return _direct_origins(tree, fn, rd, expr.left, depth + 1, op) + _direct_origins(tree, fn, rd, expr.right, depth + 1, op)
    if isinstance(expr, ast.Call):
        callee = tree.callee(expr, fn)
        tgt = tree.funcs.get(callee) if callee else None
        if tgt is not None and tgt.outer is None:
            trd = RD(tgt.node)
            out = []
            for ret in [r for r in walk_function(tgt.node, nested=False) if isinstance(r, ast.Return) and r.value is not None]:
                out += _direct_origins(tree, tgt, trd, ret.value, depth + 1, consumer)
            return out
        return [(expr, consumer)]
    if isinstance(expr, ast.IfExp):
        return _direct_origins(tree, fn, rd, expr.body, depth + 1, consumer) + _direct_origins(tree, fn, rd, expr.orelse, depth + 1, consumer)
    if isinstance(expr, ast.NamedExpr):
        return _direct_origins(tree, fn, rd, expr.value, depth + 1, consumer)
    return [(expr, consumer)]


# ---------------------------------------------------------------------------- R-REENTRANT
def _isinstance_tests(test: ast.AST):
    """(subject text, set of class names) of every ``isinstance(x, K)`` inside a test (and / or / not included)."""
    for n in ast.walk(test):
        if isinstance(n, ast.Call) and isinstance(n.func, ast.Name) and n.func.id == "isinstance" and len(n.args) == 2:
            kinds = n.args[1]
            yield unparse(n.args[0]), {unparse(k) for k in (kinds.elts if isinstance(kinds, ast.Tuple) else [kinds])}


def _stores_tuple(stmts: list[ast.stmt]) -> ast.AST | None:
    """The first ``sp.Tuple(...)`` construction inside the statements (assigned, appended or returned)."""
    for st in stmts:
        for n in ast.walk(st):
            if isinstance(n, ast.Call) and unparse(n.func) in _TUPLE_NAMES:
                return n
    return None


def check_reentrant_new(ctx: Check, tree: Tree) -> None:
    """R-REENTRANT: func(*args), pickle, xreplace and subs rebuild a hand-written expression class by
    calling __new__ on its own stored args.  Where __new__ (or a helper it calls) converts an argument of kind K
    (`isinstance(x, K)`) into a SymPy container (sp.Tuple) before storing it, the stored container
    comes back as input: some isinstance test on the same subject must accept sp.Tuple, otherwise it falls
    into the branch for scalars."""
    from ..rules import reach_functions

    hw = handwritten_expr_classes(tree)
    n = 0
    for q, cls in sorted(hw.items()):
        new = cls.methods.get("__new__")
        if new is None:
            continue
        for fn, _path in reach_functions(tree, new, depth=2):
            if fn is not new and not fn.qual.startswith(cls.module.name + "::"):
                continue
            # every isinstance dispatch of the function: subject -> all kinds that some test names
            accepted: dict[str, set[str]] = {}
            for node in walk_function(fn.node):
                if isinstance(node, (ast.If, ast.IfExp, ast.While)):
                    for subject, kinds in _isinstance_tests(node.test):
                        accepted.setdefault(subject, set()).update(kinds)
            for node in walk_function(fn.node):
                if not isinstance(node, ast.If):
                    continue
                tests = list(_isinstance_tests(node.test))
                if not tests or len({s for s, _ in tests}) != 1:
                    continue
                subject, kind_names = tests[0][0], set().union(*[k for _, k in tests])
                test, kind_branch = node.test, node.body
                while isinstance(test, ast.UnaryOp) and isinstance(test.op, ast.Not):  # `if not isinstance(..): <other> else: <kind>`
                    test, kind_branch = test.operand, (node.orelse if kind_branch is node.body else node.body)
                is_call = lambda t: isinstance(t, ast.Call) and unparse(t.func) == "isinstance"  # noqa: E731
                if not (is_call(test) or (isinstance(test, ast.BoolOp) and isinstance(test.op, ast.Or) and all(is_call(v) for v in test.values))):
                    continue  # (a conjunction with other conditions: the branch is not "the branch for kind K")
                stored = _stores_tuple(kind_branch)
                if stored is None:
                    continue
                n += 1
                accepts = bool(accepted.get(subject, set()) & _TUPLE_NAMES)
                where_fn = f"{q}.__new__" if fn is new else fn.qual
                ctx.verdict(accepts, "R-REENTRANT", f"{where_fn}::isinstance({subject}, {sorted(kind_names - _TUPLE_NAMES)})", tree.loc(node),
                            f"{cls.name}.__new__: `{subject}` of kind {sorted(kind_names)} is stored as `{unparse(stored)[:40]}`; the stored sp.Tuple is accepted by the same dispatch when the instance is rebuilt from its args",
                            None if accepts else "the stored sp.Tuple re-enters the branch for scalar indices: with a parent of known shape `-axis_size <= idx` raises TypeError - func(*args), pickle.loads, xreplace and subs of such a slice fail")
    if n == 0:
        ctx.info("R-REENTRANT", "src/ampform/sympy/_array_expressions.py", "no __new__ converts an argument kind into a stored SymPy container")


def _is_none_token(e: ast.AST) -> bool:
    text = unparse(e)
    return text.split(".")[-1] == "none" or text.replace("sp.", "").replace("sympy.", "").startswith("NoneToken(")


def _none_test(test: ast.AST) -> tuple[str, bool] | None:
    """(`p`, True) for `p is None`, (`p`, False) for `p is not None`."""
    if isinstance(test, ast.Compare) and len(test.ops) == 1 and isinstance(test.comparators[0], ast.Constant) and test.comparators[0].value is None and isinstance(test.left, ast.Name):
        if isinstance(test.ops[0], ast.Is):
            return test.left.id, True
        if isinstance(test.ops[0], ast.IsNot):
            return test.left.id, False
    return None


def check_reentrant_none_token(ctx: Check, tree: Tree) -> None:
    """R-REENTRANT (None token): where __new__ of a hand-written expression class stores SymPy's `none` token in place
    of a `None` argument, the stored token comes back as that argument when the instance is rebuilt from its args
    (func(*args), pickle, xreplace, subs).  A guard of the same __new__ that raises for a value that is not None and
    not of the accepted kinds must then accept the token too."""
    hw = handwritten_expr_classes(tree)
    n = 0
    for q, cls in sorted(hw.items()):
        new = cls.methods.get("__new__")
        if new is None:
            continue
        converted: dict[str, ast.AST] = {}
        for node in walk_function(new.node, nested=False):
            if isinstance(node, ast.IfExp):
                nt = _none_test(node.test)
                if nt is not None:
                    token = node.body if nt[1] else node.orelse
                    if _is_none_token(token):
                        converted.setdefault(nt[0], node)
            elif isinstance(node, ast.If):
                nt = _none_test(node.test)
                if nt is not None:
                    branch = node.body if nt[1] else node.orelse
                    for st in branch:
                        if isinstance(st, ast.Assign) and _is_none_token(st.value):
                            converted.setdefault(nt[0], st)
        for param, site in converted.items():
            n += 1
            rejecting = None
            for node in walk_function(new.node, nested=False):
                if not isinstance(node, ast.If) or not any(isinstance(x, ast.Raise) for st in node.body for x in ast.walk(st)):
                    continue
                text = unparse(node.test)
                # `p is not None and not isinstance(p, K)`: raises for everything that is neither None nor of kind K
                kinds = [k for subj, k in _isinstance_tests(node.test) if subj == param]
                if not kinds or f"not isinstance({param}" not in text:
                    continue
                names = set().union(*kinds)
                if any("NoneToken" in k for k in names) or "none" in {x.id for x in ast.walk(node.test) if isinstance(x, ast.Name)} or ".none" in text:
                    continue
                rejecting = node
                break
            ctx.verdict(rejecting is None, "R-REENTRANT", f"{q}.__new__::none-token::{param}", tree.loc(site),
                        f"{cls.name}.__new__: `{param}=None` is stored as SymPy's `none` token; the guards of the same __new__ accept that token when the instance is rebuilt from its args",
                        None if rejecting is None else f"`if {unparse(rejecting.test)[:90]}: raise ...` rejects the stored token: func(*args), pickle.loads, xreplace and subs of such an instance raise")
    if n == 0:
        ctx.info("R-REENTRANT", "src/ampform/sympy/_array_expressions.py", "no __new__ stores the `none` token in place of a None argument (ArraySlice normalises its slice inside a helper that accepts the token)")


# ---------------------------------------------------------------------------- deprecated base class
def check_deprecated_getnewargs(ctx: Check, tree: Tree) -> None:
    """R-NEWARGS (deprecated UnevaluatedExpression): ``__getnewargs_ex__`` returns ``(tuple(self.args), {"name": self._name})`` -
    pickle calls ``cls.__new__(cls, *args, **kwargs)`` with it; the name must travel whatever the signature of the
    subclass's own ``__new__`` (the documented pattern ``__new__(cls, x, y, **hints)`` takes it through ``**hints``).
    Decided by interpreting the hook on model instances of the base class and of two subclasses."""
    dep = tree.cls("ampform.sympy.deprecated::UnevaluatedExpression")
    gna = tree.lookup_method(dep, "__getnewargs_ex__")
    new = tree.lookup_method(dep, "__new__")
    if gna is None or new is None:
        raise AnalysisError("vanished anchor: UnevaluatedExpression.__new__/__getnewargs_ex__")
    kwonly = {a.arg for a in new.node.args.kwonlyargs}
    Instance = object_exec(tree).Instance
    problems = []
    n = 0
    subclasses = [
        ("the base class itself", None),
        ("a subclass with __new__(cls, x, y, n, **hints) (the documented pattern: create_expression(cls, x, y, n, **hints))", [("cls", "pos"), ("x", "pos"), ("y", "pos"), ("n", "pos"), ("hints", "kw")]),
        ("a subclass with __new__(cls, *args, name=None, **hints)", [("cls", "pos"), ("args", "var"), ("name", "kwonly"), ("hints", "kw")]),
    ]
    for label, signature in subclasses:
        for the_name in (MObj("the name", open=False), None):
            args = (MObj("arg x", kinds={"expr"}, open=False), MObj("arg y", kinds={"expr"}, open=False))
            me = Instance("self", dep, {"args": args, "_args": args, "_name": the_name}, kinds={dep.qual, dep.name, "sympy.Expr", "expr"}, open=False)
            if signature is not None:
                me.attrs["__class__"] = MObj("class MyExpression(UnevaluatedExpression)", {"__name__": "MyExpression", "__new__": MObj("MyExpression.__new__", {"__signature__": signature}, kinds={"function"}, open=False)},
                                             kinds={"class"}, open=False)
            ex = object_exec(tree)
            got = _interpret("__getnewargs_ex__", lambda ex=ex, me=me: ex.call_function(gna, [me], {}))
            n += 1
            if not (isinstance(got, tuple) and len(got) == 2 and got[0] != "raises" and isinstance(got[0], (tuple, list)) and isinstance(got[1], dict)):
                problems.append(f"{label}: returns {got!r}, not a pair (args, kwargs)")
                continue
            a, kw = got
            if not (len(a) == len(args) and all(x is y for x, y in zip(a, args))):
                problems.append(f"{label}: the positional part {tuple(a)!r} is not self.args")
            defaults = {a.arg: d for a, d in zip(new.node.args.kwonlyargs, new.node.args.kw_defaults)}
            missing = sorted(k for k in kwonly - {"hints"} if k not in kw
                             and not (k == "name" and the_name is None and isinstance(defaults.get(k), ast.Constant) and defaults[k].value is None))  # name=None is the default: may be left out
            if missing:
                problems.append(f"{label}: the keyword part {sorted(kw)} lacks {missing}")
            elif "name" in kw and kw["name"] is not the_name:
                problems.append(f"{label}: the keyword part carries name={kw['name']!r}, not self._name")
            extra = sorted(k for k in kw if k not in kwonly)
            if extra and new.node.args.kwarg is None:
                problems.append(f"{label}: the keyword part has {extra}, which __new__ does not accept")
    ctx.verdict(not problems, "R-NEWARGS", f"{dep.qual}::__getnewargs_ex__", tree.loc(gna.node),
                f"UnevaluatedExpression.__getnewargs_ex__ returns (self.args, {{'name': self._name}}) for __new__(*args, {sorted(kwonly)}) on {n} model instances",
                {"problems": problems[:3], "why": "missing keyword state or args not self.args: the loaded object differs from the dumped one"} if problems else None)


def run(ctx: Check, tree: Tree) -> None:
    ctx.decided += [
        'R-SHALLOW (arity): __getnewargs__ returns a tuple for classes of every arity',
        "values passed for non-SymPy fields inside the package are classes / functions / forwarded values, or instances of classes with value equality (R-ATTRIDENTITY); a state hook never hands out SymPy's cached hash (R-STATE)",
        "cls.__getnewargs__ installed by @unevaluated is shallow (R-SHALLOW) and returns every field in __new__'s positional order (R-COMPLETE)",
        "hand-written expression classes: the args created in __new__ are valid positional input to the same __new__, or pickle hooks are defined (R-NEWARGS)",
        "deprecated UnevaluatedExpression.__getnewargs_ex__ matches its __new__(*args, name=...)",
        "HelicityModel / ParameterValues define no custom pickle hooks; attrs converters accept their own output",
    ]
    ctx.not_decided += ["equality after a round trip for arbitrary models (pickle semantics of SymPy trusted)", "cross-process determinism"]
    ctx.assumptions += [
        "pickle protocol 2+: object.__reduce_ex__ calls cls.__new__(cls, *obj.__getnewargs__()) and restores __dict__/slots state",
        "sympy.Basic.__getnewargs__ returns self.args",
    ]
    table = ctx.section(installed_by_model, tree)
    if table is not None:
        if "__getnewargs__" in table:
            ctx.section(check_shallow_hooks, ctx, tree, ["__getnewargs__"], need_complete=True)
        else:
            ctx.section(check_state_hook, ctx, tree)
    ctx.section(check_attribute_identity, ctx, tree)
    ctx.section(check_toplevel_classes, ctx, tree)
    ctx.section(check_canonical_nodes, ctx, tree)
    ctx.section(check_reentrant_new, ctx, tree)
    ctx.section(check_reentrant_none_token, ctx, tree)
    ctx.section(check_handwritten_newargs, ctx, tree)
    ctx.section(check_deprecated_getnewargs, ctx, tree)
    ctx.section(check_model_pickle_hooks, ctx, tree)
    ctx.section(check_model_field_equality, ctx, tree)
    ctx.section(check_converters_idempotent, ctx, tree)


def check_handwritten_newargs(ctx: Check, tree: Tree) -> None:
    """R-NEWARGS: a hand-written expression class is rebuilt by pickle as ``cls.__new__(cls, *self.args)``: the args
    created in ``__new__`` must be valid positional input to the same ``__new__`` (or the class defines pickle hooks)."""
    hw = handwritten_expr_classes(tree)
    ctx.stats["handwritten_expr_classes"] = sorted(hw)
    n = 0
    undecided = []
    for q, cls in sorted(hw.items()):
        new = cls.methods.get("__new__")
        if new is None:
            continue
        n += 1
        own_hooks = PICKLE_HOOKS & set(cls.methods)
        key = f"{q}::__new__"
        if own_hooks:
            ctx.ok("R-NEWARGS", tree.loc(new.node), f"{cls.name} defines {sorted(own_hooks)}")
            continue
        arity = new_args_arity(tree, new)
        if arity is None:
            # __new__ that does not go through sp.Expr.__new__ (object.__new__ + _args)
            uses_args = any(isinstance(x, ast.Attribute) and x.attr == "_args" for x in walk_function(new.node))
            if uses_args and new.node.args.vararg is not None:
                ctx.ok("R-NEWARGS", tree.loc(new.node), f"{cls.name}.__new__(*args) stores args verbatim")
                continue
            undecided.append(f"{q}.__new__: cannot determine the arity of self.args")
            continue
        if isinstance(arity, str):
            undecided.append(f"{q}.__new__: {arity}")
            continue
        problem = signature_accepts(new, *arity)
        ctx.verdict(
            problem is None,
            "R-NEWARGS",
            key,
            tree.loc(new.node),
            f"{cls.name}.__new__{unparse(new.node.args)[:60]} creates args of arity {arity[0]}{'+' if arity[1] else ''}",
            problem,
        )
    if undecided:
        raise AnalysisError("; ".join(undecided[:3]))
    if n < 4:
        raise AnalysisError(f"only {n} hand-written expression classes with __new__ found (confirmed 8)")


def check_model_pickle_hooks(ctx: Check, tree: Tree) -> None:
    """R-MODEL-PICKLE: HelicityModel / ParameterValues rely on the default state transfer of attrs/pickle (all fields).  A
    custom pickle hook is outside the rule's model of that transfer: the check then cannot decide (ANALYSIS-ERROR)."""
    undecided = []
    for q in ("ampform.helicity::HelicityModel", "ampform.helicity::ParameterValues"):
        cls = tree.cls(q)
        own = sorted(PICKLE_HOOKS & {m for c in tree.mro(cls) for m in c.methods})
        if own:
            undecided.append(f"{q} defines custom pickle hooks {own}: which state travels is outside the rule's grammar")
        else:
            ctx.ok("R-MODEL-PICKLE", tree.loc(cls.node), f"{cls.name} defines no custom pickle hooks (default attrs/pickle state transfer of all fields)")
    if undecided:
        raise AnalysisError("; ".join(undecided))


def check_model_field_equality(ctx: Check, tree: Tree) -> None:
    """R-FIELDEQ: `loads(dumps(model)) == model` goes through the attrs-generated ``__eq__`` of HelicityModel, which compares
    EVERY field (unless declared ``eq=False``).  A field whose annotated type is a class of the package with identity
    equality (a plain class without ``__eq__``, also when only some subclasses are plain) comes back from pickle as a
    different, unequal object - the round trip is then not the identity although every expression is.  Types from outside
    the package (SymPy, qrules, builtins, collections) are trusted to compare by value (assumption of the evidence)."""
    n = 0
    undecided = []
    for q in ("ampform.helicity::HelicityModel",):
        cls = tree.cls(q)
        for st in cls.node.body:
            if not (isinstance(st, ast.AnnAssign) and isinstance(st.target, ast.Name)):
                continue
            if "ClassVar" in unparse(st.annotation):
                continue
            name = st.target.id
            if isinstance(st.value, ast.Call) and any(k.arg in {"eq", "cmp"} and isinstance(k.value, ast.Constant) and k.value.value is False for k in st.value.keywords):
                ctx.ok("R-FIELDEQ", tree.loc(st), f"{cls.name}.{name}: declared eq=False (does not take part in model equality)")
                continue
            n += 1
            # every class of the package that the annotation names (also inside Optional[...] / unions / containers)
            named = []
            unresolved: list[str] = []
            for node in ast.walk(st.annotation if not isinstance(st.annotation, ast.Constant) else ast.parse(str(st.annotation.value), mode="eval").body):
                if isinstance(node, (ast.Name, ast.Attribute)):
                    if isinstance(getattr(node, "_parent", None), ast.Attribute):
                        continue  # the inner part of a dotted name
                    target = tree.resolve(cls.module, node, None)
                    if target in tree.classes:
                        named.append(tree.classes[target])
                    elif target is None and not (isinstance(node, ast.Name) and hasattr(builtins, node.id)):
                        unresolved.append(unparse(node))
            bad, unknown = [], []
            if unresolved:
                undecided.append(f"{cls.name}.{name}: the type `{unresolved[0]}` of the annotation cannot be resolved")
                continue
            for c in named:
                for k in [c, *tree.subclasses(c)]:
                    if k.node.body and any(unparse(b).split(".")[-1] in {"ABC", "Protocol"} for b in k.node.bases) and tree.subclasses(k):
                        continue  # an abstract base: its concrete subclasses are judged
                    ident = _instance_identity(tree, k)
                    ext = [b.split("[")[0] for b in tree.external_bases(k)]
                    if ident == "unknown" and tree.lookup_method(k, "__eq__") is None and ext and all(
                            b.startswith("sympy.") or b in {"collections.abc.Mapping", "collections.abc.Sequence", "collections.abc.Set", "collections.abc.MutableMapping", "collections.OrderedDict", "dict", "list"} for b in ext):
                        ident = "value"  # SymPy's structural equality / the mixin __eq__ of the collection ABCs
                    if ident == "identity":
                        bad.append(k)
                    elif ident == "unknown":
                        unknown.append(k)
            key = f"{q}::field {name}::equality"
            if bad:
                ctx.violation("R-FIELDEQ", key, tree.loc(st), f"{cls.name}.{name}: `{unparse(st.annotation)[:40]}` admits instances of {bad[0].qual}, a plain class without __eq__ (identity equality)",
                              "pickle creates a new instance, the attrs-generated HelicityModel.__eq__ compares this field, so loads(dumps(model)) != model; give the class value equality or declare the field eq=False")
            elif unknown:
                undecided.append(f"{cls.name}.{name}: how instances of {unknown[0].qual} compare cannot be read")
            else:
                ctx.ok("R-FIELDEQ", tree.loc(st), f"{cls.name}.{name}: `{unparse(st.annotation)[:40]}` " + ("names no class of the package" if not named else f"- {', '.join(sorted({k.name for k in named}))} compare by value"))
    if undecided:
        raise AnalysisError("; ".join(undecided[:3]))
    if n < 5:
        raise AnalysisError(f"HelicityModel: only {n} fields that take part in equality found (6 confirmed)")


_MAPPING_WORDS = ("Mapping", "dict", "Dict", "OrderedDict")


def check_converters_idempotent(ctx: Check, tree: Tree) -> None:
    """Every attrs converter of HelicityModel accepts the type it produces (an
    ``attrs.evolve`` / user re-construction feeds converter output back in).  Read from the declared contract: the
    converter takes a Mapping and returns a Mapping (a dict / OrderedDict or a class of the package that derives
    from Mapping).  A converter without such a contract is interpreted twice on a model mapping; what cannot be
    interpreted is undecided."""
    cls = tree.cls("ampform.helicity::HelicityModel")
    n = 0
    undecided = []
    for st in cls.node.body:
        if not (isinstance(st, ast.AnnAssign) and isinstance(st.value, ast.Call)):
            continue
        conv = next((k.value for k in st.value.keywords if k.arg == "converter"), None)
        if conv is None:
            continue
        n += 1
        target = tree.resolve(cls.module, conv)
        key = f"{cls.qual}::{st.target.id}::converter"
        if target in tree.classes:
            c = tree.classes[target]
            is_mapping = any(b.split("[")[0].split(".")[-1] in {"Mapping", "MutableMapping", "dict", "OrderedDict", "UserDict"} for b in tree.external_bases(c))
            if is_mapping:
                ctx.ok("R-CONVERTER", tree.loc(st), f"HelicityModel.{st.target.id}: converter {c.name} (a Mapping class constructed from a mapping)")
            else:
                undecided.append(f"HelicityModel.{st.target.id}: converter {c.name} is a class that is not a Mapping")
            continue
        if target not in tree.funcs:
            ctx.ok("R-CONVERTER", tree.loc(st), f"HelicityModel.{st.target.id}: converter {unparse(conv)} (external)")
            continue
        fn = tree.funcs[target]
        params = fn.node.args.args
        ann = unparse(params[0].annotation) if params and params[0].annotation is not None else ""
        ret = unparse(fn.node.returns) if fn.node.returns is not None else ""
        takes_mapping = any(w in ann for w in _MAPPING_WORDS)
        ret_cls = tree.resolve(fn.module, fn.node.returns) if isinstance(fn.node.returns, (ast.Name, ast.Attribute)) else None
        gives_mapping = any(w in ret for w in _MAPPING_WORDS) or (
            ret_cls in tree.classes and any(b.split("[")[0].split(".")[-1] in {"Mapping", "MutableMapping", "dict", "OrderedDict", "UserDict"} for b in tree.external_bases(tree.classes[ret_cls])))
        if takes_mapping and gives_mapping:
            ctx.ok("R-CONVERTER", tree.loc(st), f"HelicityModel.{st.target.id}: converter {fn.name}({ann}) -> {ret}")
            continue
        verdict = _converter_twice(tree, fn)
        if verdict == "ok":
            ctx.ok("R-CONVERTER", tree.loc(st), f"HelicityModel.{st.target.id}: converter {fn.name} applied to its own output on a model mapping returns an equal mapping")
        elif verdict == "raises":
            ctx.violation("R-CONVERTER", key, tree.loc(st), f"HelicityModel.{st.target.id}: converter {fn.name}({ann}) -> {ret}", "the converter raises when it is applied to its own output (interpreted on a model mapping)")
        else:
            undecided.append(f"HelicityModel.{st.target.id}: converter {fn.name}({ann}) -> {ret}: {verdict}")
    if undecided:
        raise AnalysisError("; ".join(undecided[:3]))
    if n < 3:
        raise AnalysisError(f"only {n} attrs converters on HelicityModel (confirmed 4)")


def _converter_twice(tree: Tree, fn: FuncInfo) -> str:
    """'ok' / 'raises' / a reason why the converter cannot be interpreted on a model mapping."""
    keys = [MObj(f"key {name}", {"name": name, "__str__": lambda a, k, name=name: name}, kinds={"expr"}, open=False) for name in ("b_{2}", "a_{10}", "a_{2}")]
    mapping = {k: MObj(f"value of {k.label}", open=False) for k in keys}
    ex = object_exec(tree)
    try:
        first = ex.run(fn, [mapping])
    except ModelRaise as exc:
        return f"raises {exc} on a model mapping"
    except ModelError as exc:
        return f"cannot be interpreted ({exc})"
    try:
        second = ex.run(fn, [first])
    except ModelRaise:
        return "raises"
    except ModelError as exc:
        return f"cannot be interpreted on its own output ({exc})"
    return "ok" if ex.compare(ast.Eq(), first, second, None) else "its second application returns something else"
