"""C15 - pickle round trip of a model is the identity.

Decides the structural half: what is handed to pickle reconstructs the object.
"""

from __future__ import annotations

import ast

from ..dataflow import RD
from ..exprmodel import expression_classes, handwritten_expr_classes
from ..loader import AnalysisError, ClassInfo, FuncInfo, Tree, ancestors, unparse, walk_function
from ..report import Check
from .c14 import check_shallow_hooks

PID = "C15"
PICKLE_HOOKS = {"__reduce__", "__reduce_ex__", "__getstate__", "__setstate__", "__getnewargs__", "__getnewargs_ex__"}


def new_args_arity(tree: Tree, fn: FuncInfo) -> tuple[int, bool] | None:
    """Arity of ``self.args`` as created by ``sp.Expr.__new__(cls, a, b, *rest)`` inside a
    hand-written ``__new__``: (fixed positional count, variadic?)."""
    rd = RD(fn.node)
    results = []
    for node in walk_function(fn.node):
        if not (isinstance(node, ast.Call) and isinstance(node.func, ast.Attribute) and node.func.attr == "__new__"):
            continue
        if not node.args:
            continue
        fixed, variadic = 0, False
        for a in node.args[1:]:
            if isinstance(a, ast.Starred):
                n = _tuple_len(rd, a.value)
                if n is None:
                    variadic = True
                else:
                    fixed += n[0]
                    variadic |= n[1]
            else:
                fixed += 1
        results.append((fixed, variadic))
    if not results:
        return None
    # several constructor calls: they must agree, otherwise take the loosest
    fixed = min(r[0] for r in results)
    variadic = any(r[1] for r in results) or len({r[0] for r in results}) > 1
    return fixed, variadic


def _tuple_len(rd: RD, expr: ast.AST, depth: int = 0) -> tuple[int, bool] | None:
    if depth > 5:
        return None
    if isinstance(expr, ast.Call) and expr.args and isinstance(expr.func, (ast.Attribute, ast.Name)):
        name = expr.func.attr if isinstance(expr.func, ast.Attribute) else expr.func.id
        if name in {"sympify", "_sympify", "tuple", "list", "Tuple"} and len(expr.args) == 1:
            return _tuple_len(rd, expr.args[0], depth + 1)
    if isinstance(expr, (ast.Tuple, ast.List)):
        fixed, variadic = 0, False
        for e in expr.elts:
            if isinstance(e, ast.Starred):
                variadic = True
            else:
                fixed += 1
        return fixed, variadic
    if isinstance(expr, ast.Name):
        defs = rd.reaching(expr)
        lens = {_tuple_len(rd, d.value, depth + 1) if d.value is not None and d.kind == "assign" else None for d in defs}
        if len(lens) == 1:
            return lens.pop()
        return None
    return None


def signature_accepts(fn: FuncInfo, fixed: int, variadic: bool) -> str | None:
    a = fn.node.args
    pos = [*a.posonlyargs, *a.args][1:]  # drop cls
    n_defaults = len(a.defaults)
    required = len(pos) - n_defaults
    has_var = a.vararg is not None
    if fixed < required:
        return f"__new__ requires {required} positional arguments but self.args has {fixed}{'+' if variadic else ''}"
    if not has_var and (fixed > len(pos) or variadic):
        return f"__new__ accepts at most {len(pos)} positional arguments but self.args has {fixed}{'+' if variadic else ''}"
    return None


def check_state_hook(ctx: Check, tree: Tree, hooks: dict) -> None:
    """Without a custom __getnewargs__ the non-SymPy attributes travel as instance state:
    the state hook must hand out exactly those attributes - never SymPy's own slots, which
    contain the cached hash (`_mhash`, process dependent under hash randomisation)."""
    impl = tree.func("ampform.sympy._decorator::_implement_new_method")
    state = {k: v for k, v in hooks.items() if k in {"__getstate__", "__reduce__", "__reduce_ex__", "__getnewargs_ex__"}}
    if not state:
        raise AnalysisError("the decorator installs neither __getnewargs__ nor a state hook: pickling of non-SymPy attributes is outside the rule's grammar")
    for attr, (value, cond, resolved) in state.items():
        fn = tree.funcs.get(resolved or "")
        if fn is None:
            raise AnalysisError(f"state hook {attr} = {unparse(value)} cannot be resolved")
        txt = unparse(fn.node)
        uses_slots = "__slots__" in txt
        walks_mro = "__mro__" in txt or ".mro()" in txt
        uses_fields = "_get_fields(" in txt or "dataclasses.fields(" in txt or "get_sympy_fields(" in txt
        key = f"{impl.qual}::cls.{attr}"
        if uses_slots and walks_mro:
            ctx.violation("R-STATE", key + "::hands-out-hash-cache", tree.loc(fn.node),
                          f"cls.{attr} = {unparse(value)}: {fn.qual} collects the values of __slots__ along the MRO, which include sympy.Basic's cached hash `_mhash`",
                          "Basic.__setstate__ restores the hash of the dumping process: after a cross-process load (different PYTHONHASHSEED) equal expressions hash differently, dict/set lookups and xreplace on the loaded model silently miss")
        elif uses_fields or (uses_slots and not walks_mro):
            ctx.ok("R-STATE", tree.loc(fn.node), f"cls.{attr} = {unparse(value)}: state is built from the class's own non-SymPy fields")
        else:
            raise AnalysisError(f"state hook {fn.qual}: cannot tell which attributes are handed to pickle")


def check_attribute_identity(ctx: Check, tree: Tree) -> None:
    """Values given to non-SymPy fields take part in equality/hash through their identity
    and are pickled with the expression.  A class or function is pickled by reference; an
    instance of a class without __eq__/__hash__ comes back as a different, unequal object."""
    classes = expression_classes(tree)
    names = {f.name for c in classes.values() for f in c.non_sympy_fields if f.name != "name"}
    if not names:
        raise AnalysisError("no non-SymPy fields found")
    n = 0
    for q, fn in [*tree.funcs.items(), *[(m.name, None) for m in ()]]:
        pass
    calls = []
    for mod in tree.modules.values():
        if not mod.name.startswith("ampform"):
            continue
        for node in ast.walk(mod.tree):
            if isinstance(node, ast.Call):
                for k in node.keywords:
                    if k.arg in names:
                        calls.append((mod, node, k))
    for mod, call, kw in calls:
        n += 1
        val = kw.value
        where = tree.loc(call)
        what = f"{unparse(call.func)}(..., {kw.arg}={unparse(val)[:50]})"
        if isinstance(val, ast.Call):
            target = tree.resolve(mod, val.func, tree.func_of(call))
            if target in tree.classes:
                cls = tree.classes[target]
                has_eq = tree.lookup_method(cls, "__eq__") is not None and tree.lookup_method(cls, "__hash__") is not None
                value_class = any(t in {"attrs.frozen", "attr.frozen"} or ("dataclass" in t and "frozen=True" in unparse(d)) for t, d in cls.decorators)
                ctx.verdict(has_eq or value_class, "R-ATTRIDENTITY", f"{mod.name}::{what}", where,
                            f"{what}: an instance of {cls.name} is used as a non-SymPy attribute" + ("" if has_eq or value_class else " but the class defines no __eq__/__hash__"),
                            None if has_eq or value_class else "the instance is pickled by value: the loaded expression holds a new object, so loaded != original (equality and hash of the expression go through the attribute)")
                continue
        ctx.ok("R-ATTRIDENTITY", where, f"{what}: class / function / forwarded value (pickled by reference)")
    ctx.stats["non_sympy_attribute_sites"] = n
    if n < 5:
        raise AnalysisError(f"only {n} call sites pass a non-SymPy attribute (10+ confirmed)")


def check_toplevel_classes(ctx: Check, tree: Tree) -> None:
    """R-TOPLEVEL: pickle stores a class by module and __qualname__; an expression class that is
    defined inside a function (a class factory) has the qualname `factory.<locals>.Name` and
    cannot be looked up again: dumps() of any expression that contains an instance raises."""
    n_top = 0
    bad = []
    for mod in tree.modules.values():
        if not mod.name.startswith("ampform"):
            continue
        for node in ast.walk(mod.tree):
            if not isinstance(node, ast.ClassDef):
                continue
            is_expr = any(unparse(d).split("(")[0].endswith("unevaluated") for d in node.decorator_list) or any(
                unparse(b) in {"sp.Expr", "sp.Basic", "sp.Function", "sp.Symbol", "NumPyPrintable", "sp.Sum", "sp.Integral", "sp.MatrixSymbol", "sp.Indexed", "sp.IndexedBase"} for b in node.bases)
            if not is_expr:
                continue
            enclosing = [a for a in ancestors(node) if isinstance(a, (ast.FunctionDef, ast.AsyncFunctionDef, ast.Lambda))]
            if enclosing:
                bad.append((mod, node, enclosing[0]))
            else:
                n_top += 1
    for mod, node, f in bad:
        ctx.violation("R-TOPLEVEL", f"{mod.name}::{getattr(f, 'name', 'lambda')}.<locals>.{node.name}", f"{mod.relpath}:{node.lineno}",
                      f"{mod.name}: expression class `{node.name}` is defined inside `{getattr(f, 'name', 'lambda')}()`",
                      "pickle cannot find a function-local class by module + qualname: `Can't pickle local object` for every expression that contains an instance (also perform_cached_doit)")
    if n_top < 30:
        raise AnalysisError(f"only {n_top} top-level expression classes found (40+ confirmed)")
    if not bad:
        ctx.ok("R-TOPLEVEL", "src/ampform", f"all {n_top} expression classes of the package are defined at module (or class) level: picklable by reference")


def check_canonical_nodes(ctx: Check, tree: Tree) -> None:
    """R-CANONICAL: SymPy objects are pickled as (class, args) and rebuilt by calling the constructor,
    which evaluates.  A node created with evaluate=False that is stored AS IS in the model (not
    consumed by further arithmetic, which re-canonicalises) comes back flattened / re-ordered:
    loads(dumps(model)) != model."""
    builder_mod = "ampform.helicity::"
    n_stores = 0
    bad = 0
    for q, fn in sorted(tree.funcs.items()):
        if not q.startswith(builder_mod) or fn.outer is not None:
            continue
        rd = RD(fn.node)
        for st in walk_function(fn.node):
            if not (isinstance(st, ast.Assign) and isinstance(st.targets[0], ast.Subscript)):
                continue
            base = st.targets[0].value
            if isinstance(base, ast.Name):  # a local alias `components = self.__ingredients.components`
                adefs = [d for d in rd.reaching(base) if d.value is not None]
                if len(adefs) == 1 and isinstance(adefs[0].value, ast.Attribute):
                    base = adefs[0].value
            if not (isinstance(base, ast.Attribute) and base.attr in {"components", "amplitudes", "parameter_defaults", "kinematic_variables"}):
                continue
            n_stores += 1
            for origin, consumer in _direct_origins(tree, fn, rd, st.value, 0):
                if isinstance(origin, ast.Call) and any(k.arg == "evaluate" and isinstance(k.value, ast.Constant) and k.value.value is False for k in origin.keywords):
                    made = unparse(origin.func).split(".")[-1]  # Mul / Add / Pow ...
                    if consumer is not None and consumer == made:
                        continue  # Mul(Mul(a, b, evaluate=False), c) flattens: the node does not survive
                    bad += 1
                    ctx.violation("R-CANONICAL", f"{q}::{base.attr}::unevaluated-node", tree.loc(st),
                                  f"{q}: `{unparse(st)[:60]}` stores `{unparse(origin)[:60]}` (evaluate=False) in the model as it is",
                                  "after a pickle round trip the node is rebuilt with evaluation: nested Mul flattened / arguments re-ordered, the loaded model is not equal to the original")
    if n_stores < 5:
        raise AnalysisError(f"only {n_stores} stores into the model ingredients found (9 confirmed)")
    if not bad:
        ctx.ok("R-CANONICAL", "src/ampform/helicity/__init__.py", f"{n_stores} stores into components / amplitudes / parameter_defaults: none stores a node built with evaluate=False as it is")


_CONSUMER = {ast.Add: "Add", ast.Sub: "Add", ast.Mult: "Mul", ast.Div: "Mul"}


def _direct_origins(tree: Tree, fn: FuncInfo, rd: RD, expr: ast.AST, depth: int, consumer: str | None = None) -> list[tuple[ast.AST, str | None]]:
    """The nodes that SURVIVE in a value, each with the operation that consumes it directly (None: it is
    the value itself): through pure local aliases, repo calls that return it, and arithmetic.  SymPy
    flattens an unevaluated Mul only when a Mul consumes it (an unevaluated Add only inside an Add); as
    a term of a sum (`0 + x`, `acc.get(k, 0) + x`, `sum([x])`) or a factor of a product of the other
    kind the node stays in the tree as it is."""
    if depth > 4:
        return []
    if isinstance(expr, ast.Name):
        out = []
        for d in rd.reaching(expr):
            if d.kind in {"assign", "aug"} and isinstance(d.value, ast.AST):
                if d.kind == "aug":
                    op = _CONSUMER.get(type(d.node.op)) if isinstance(d.node, ast.AugAssign) else None
                    out += _direct_origins(tree, fn, rd, d.value, depth + 1, op)
                    continue
                out += _direct_origins(tree, fn, rd, d.value, depth + 1, consumer)
        return out
    if isinstance(expr, ast.BinOp) and type(expr.op) in _CONSUMER:
        op = _CONSUMER[type(expr.op)]
        return _direct_origins(tree, fn, rd, expr.left, depth + 1, op) + _direct_origins(tree, fn, rd, expr.right, depth + 1, op)
    if isinstance(expr, ast.Call):
        callee = tree.callee(expr, fn)
        tgt = tree.funcs.get(callee) if callee else None
        if tgt is not None and tgt.outer is None:
            trd = RD(tgt.node)
            out = []
            for ret in [r for r in walk_function(tgt.node, nested=False) if isinstance(r, ast.Return) and r.value is not None]:
                out += _direct_origins(tree, tgt, trd, ret.value, depth + 1, consumer)
            return out
        return [(expr, consumer)]
    if isinstance(expr, ast.IfExp):
        return _direct_origins(tree, fn, rd, expr.body, depth + 1, consumer) + _direct_origins(tree, fn, rd, expr.orelse, depth + 1, consumer)
    return [(expr, consumer)]


def check_reentrant_new(ctx: Check, tree: Tree) -> None:
    """R-REENTRANT: func(*args), pickle, xreplace and subs rebuild a hand-written expression class by
    calling __new__ on its own stored args.  Where __new__ converts an argument of kind K
    (`isinstance(x, K)`) into a SymPy container (sp.Tuple) before storing it, the stored container
    comes back as input: the same test must accept it (or another branch must), otherwise it falls
    into the branch for scalars."""
    hw = handwritten_expr_classes(tree)
    n = 0
    for q, cls in sorted(hw.items()):
        new = cls.methods.get("__new__")
        if new is None:
            continue
        for node in walk_function(new.node):
            if not isinstance(node, ast.If):
                continue
            test, kind_branch, other_branch = node.test, node.body, node.orelse
            while isinstance(test, ast.UnaryOp) and isinstance(test.op, ast.Not):  # `if not isinstance(..): <other> else: <kind>`
                test, kind_branch, other_branch = test.operand, other_branch, kind_branch
            if not (isinstance(test, ast.Call) and unparse(test.func) == "isinstance" and len(test.args) == 2):
                continue
            subject = unparse(test.args[0])
            kinds = test.args[1]
            kind_names = {unparse(k) for k in (kinds.elts if isinstance(kinds, ast.Tuple) else [kinds])}
            stored = None
            for st in kind_branch:
                if isinstance(st, ast.Assign) and isinstance(st.value, ast.Call) and unparse(st.value.func) in {"sp.Tuple", "Tuple", "sympy.Tuple"}:
                    stored = st
            if stored is None:
                continue
            n += 1
            accepts = bool(kind_names & {"sp.Tuple", "Tuple", "sympy.Tuple"}) or any(
                isinstance(o, ast.If) and isinstance(o.test, ast.Call) and unparse(o.test.func) == "isinstance" and unparse(o.test.args[0]) == subject
                and {"sp.Tuple", "Tuple", "sympy.Tuple"} & {unparse(k) for k in (o.test.args[1].elts if isinstance(o.test.args[1], ast.Tuple) else [o.test.args[1]])}
                for o in other_branch)
            ctx.verdict(accepts, "R-REENTRANT", f"{q}.__new__::isinstance({subject}, {sorted(kind_names)})", tree.loc(node),
                        f"{cls.name}.__new__: `{subject}` of kind {sorted(kind_names)} is stored as `{unparse(stored.value)[:40]}`; the stored sp.Tuple is accepted by the same dispatch when the instance is rebuilt from its args",
                        None if accepts else "the stored sp.Tuple re-enters the branch for scalar indices: with a parent of known shape `-axis_size <= idx` raises TypeError - func(*args), pickle.loads, xreplace and subs of such a slice fail")
    if n == 0:
        ctx.info("R-REENTRANT", "src/ampform/sympy/_array_expressions.py", "no __new__ converts an argument kind into a stored SymPy container")


def run(ctx: Check, tree: Tree) -> None:
    ctx.decided += [
        'R-SHALLOW (arity): __getnewargs__ returns a tuple for classes of every arity',
        "values passed for non-SymPy fields inside the package are classes / functions / forwarded values, or instances of classes with value equality (R-ATTRIDENTITY); a state hook never hands out SymPy's cached hash (R-STATE)",
        "cls.__getnewargs__ installed by @unevaluated is shallow (R-SHALLOW) and returns every field in __new__'s positional order (R-COMPLETE)",
        "hand-written expression classes: the args created in __new__ are valid positional input to the same __new__, or pickle hooks are defined (R-NEWARGS)",
        "deprecated UnevaluatedExpression.__getnewargs_ex__ matches its __new__(*args, name=...)",
        "HelicityModel / ParameterValues define no custom pickle hooks; attrs converters accept their own output",
    ]
    ctx.not_decided += ["equality after a round trip for arbitrary models (pickle semantics of SymPy trusted)", "cross-process determinism"]
    ctx.assumptions += [
        "pickle protocol 2+: object.__reduce_ex__ calls cls.__new__(cls, *obj.__getnewargs__()) and restores __dict__/slots state",
        "sympy.Basic.__getnewargs__ returns self.args",
    ]
    from ..exprmodel import installed_hooks

    hooks = installed_hooks(tree)
    if "__getnewargs__" in hooks:
        ctx.section(check_shallow_hooks, ctx, tree, ["__getnewargs__"], need_complete=True)
    else:
        ctx.section(check_state_hook, ctx, tree, hooks)
    ctx.section(check_attribute_identity, ctx, tree)
    ctx.section(check_toplevel_classes, ctx, tree)
    ctx.section(check_canonical_nodes, ctx, tree)
    ctx.section(check_reentrant_new, ctx, tree)

    # ---- hand-written classes
    hw = handwritten_expr_classes(tree)
    ctx.stats["handwritten_expr_classes"] = sorted(hw)
    n = 0
    for q, cls in sorted(hw.items()):
        new = cls.methods.get("__new__")
        if new is None:
            continue
        n += 1
        own_hooks = PICKLE_HOOKS & set(cls.methods)
        arity = new_args_arity(tree, new)
        key = f"{q}::__new__"
        if own_hooks:
            ctx.ok("R-NEWARGS", tree.loc(new.node), f"{cls.name} defines {sorted(own_hooks)}")
            continue
        if arity is None:
            # __new__ that does not go through sp.Expr.__new__ (object.__new__ + _args)
            uses_args = any(isinstance(x, ast.Attribute) and x.attr == "_args" for x in walk_function(new.node))
            if uses_args and new.node.args.vararg is not None:
                ctx.ok("R-NEWARGS", tree.loc(new.node), f"{cls.name}.__new__(*args) stores args verbatim")
                continue
            raise AnalysisError(f"{q}.__new__: cannot determine the arity of self.args")
        problem = signature_accepts(new, *arity)
        ctx.verdict(
            problem is None,
            "R-NEWARGS",
            key,
            tree.loc(new.node),
            f"{cls.name}.__new__{unparse(new.node.args)[:60]} creates args of arity {arity[0]}{'+' if arity[1] else ''}",
            problem,
        )
    if n < 6:
        raise AnalysisError(f"only {n} hand-written expression classes with __new__ found (confirmed 8)")

    # ---- deprecated base class
    dep = tree.cls("ampform.sympy.deprecated::UnevaluatedExpression")
    gna = dep.methods.get("__getnewargs_ex__")
    new = dep.methods.get("__new__")
    if gna is None or new is None:
        raise AnalysisError("vanished anchor: UnevaluatedExpression.__new__/__getnewargs_ex__")
    kwonly = {a.arg for a in new.node.args.kwonlyargs}
    keys: set[str] = set()
    rd = RD(gna.node)
    ok_args = False
    for ret, _ in rd.returns:
        if isinstance(ret.value, ast.Tuple) and len(ret.value.elts) == 2:
            a0, a1 = ret.value.elts
            for d in rd.closure(rd.uses(a1)):
                if isinstance(d.value, ast.Dict):
                    keys |= {k.value for k in d.value.keys if isinstance(k, ast.Constant)}
            if isinstance(a1, ast.Dict):
                keys |= {k.value for k in a1.keys if isinstance(k, ast.Constant)}
            txt = unparse(a0) + "".join(unparse(d.value) for d in rd.closure(rd.uses(a0)) if d.value is not None)
            ok_args = "self.args" in txt
    missing = kwonly - keys - {"hints"}
    ctx.verdict(
        ok_args and not missing and keys <= kwonly,
        "R-NEWARGS",
        f"{dep.qual}::__getnewargs_ex__",
        tree.loc(gna.node),
        f"UnevaluatedExpression.__getnewargs_ex__ returns (self.args, {sorted(keys)}) for __new__(*args, {sorted(kwonly)})",
        None if ok_args and not missing else f"missing keyword state {sorted(missing)} or args not self.args",
    )

    # ---- model classes
    for q in ("ampform.helicity::HelicityModel", "ampform.helicity::ParameterValues"):
        cls = tree.cls(q)
        own = PICKLE_HOOKS & set(cls.methods)
        ctx.verdict(
            not own,
            "R-MODEL-PICKLE",
            f"{q}::pickle-hooks",
            tree.loc(cls.node),
            f"{cls.name} defines no custom pickle hooks (default attrs/pickle state transfer of all fields)",
            f"custom hooks {sorted(own)} are outside the rule's grammar" if own else None,
        )
    ctx.section(check_converters_idempotent, ctx, tree)


def check_converters_idempotent(ctx: Check, tree: Tree) -> None:
    """Every attrs converter of HelicityModel accepts the type it produces (an
    ``attrs.evolve`` / user re-construction feeds converter output back in)."""
    cls = tree.cls("ampform.helicity::HelicityModel")
    n = 0
    for st in cls.node.body:
        if not (isinstance(st, ast.AnnAssign) and isinstance(st.value, ast.Call)):
            continue
        conv = next((k.value for k in st.value.keywords if k.arg == "converter"), None)
        if conv is None:
            continue
        n += 1
        target = tree.resolve(cls.module, conv)
        if target in tree.funcs:
            fn = tree.funcs[target]
            # converter must be total on mappings: parameter annotated Mapping / no isinstance-raise on its own output
            ann = unparse(fn.node.args.args[0].annotation) if fn.node.args.args and fn.node.args.args[0].annotation else ""
            ret = unparse(fn.node.returns) if fn.node.returns else ""
            ok = "Mapping" in ann or "dict" in ann.lower() or ann == ""
            ctx.verdict(
                ok,
                "R-CONVERTER",
                f"{cls.qual}::{st.target.id}::converter",
                tree.loc(st),
                f"HelicityModel.{st.target.id}: converter {fn.name}({ann}) -> {ret}",
                None if ok else "converter does not accept a mapping (its own output)",
            )
        else:
            ctx.ok("R-CONVERTER", tree.loc(st), f"HelicityModel.{st.target.id}: converter {unparse(conv)} (external)")
    if n < 3:
        raise AnalysisError(f"only {n} attrs converters on HelicityModel (confirmed 4)")
