"""C03 - parity partners carry exactly the parity sign of the flipped nodes.

R-DEPENDS  the prefactor attached to a chain depends on the node(s) whose coefficient was
           mapped to a partner: every contribution is control-dependent on the per-node test
           "mapped suffix != raw suffix" and data-dependent on that node.
R-PARTNER  the partner suffix reverses both daughter helicities and suppresses the parent's.

The control/data conditions are decided on the PATHS of the functions, not on their text: ``SymExec``
below executes a function symbolically for one generic iteration of every loop (forking at every
``if``), substitutes local definitions and the bodies of package helpers into the branch conditions
and values, and brings list comprehensions and accumulator loops into one normal form.  Guard clauses
(``if c: continue``), nested ifs, hoisted aliases, extracted predicates and ``m.get(k, k)`` versus
``k in m`` / ``m[k]`` therefore all read the same.
"""

from __future__ import annotations

import ast
import copy

from ..dataflow import MUTATORS, RD
from ..loader import AnalysisError, FuncInfo, Tree, ancestors, unparse, walk_function
from ..report import Check

PID = "C03"
BUILDER = "ampform.helicity::HelicityAmplitudeBuilder"
MAPPING = "parity_partner_coefficient_mapping"
RAW_SUFFIX = "generate_two_body_decay_suffix"


def locate_prefactor_function(tree: Tree) -> FuncInfo:
    """The function whose result is multiplied into the sequential amplitude and that reads the
    parity-partner mapping (found from the dataflow of __formulate_sequential_decay, not by name)."""
    seq = tree.func(f"{BUILDER}.__formulate_sequential_decay")
    rd = RD(seq.node)
    candidates = []
    sources: list[ast.AST] = []
    for node in walk_function(seq.node):
        if isinstance(node, ast.AugAssign) and isinstance(node.op, ast.Mult):
            sources.append(node.value)
        if isinstance(node, ast.BinOp) and isinstance(node.op, ast.Mult):
            sources += [node.left, node.right]
    for src in sources:
        for d in rd.closure(rd.uses(src)):
            if d.value is not None and isinstance(d.value, ast.Call):
                callee = tree.callee(d.value, seq)
                if callee in tree.funcs:
                    candidates.append(tree.funcs[callee])
    reads = lambda g: any(isinstance(n, ast.Attribute) and n.attr == MAPPING for n in walk_function(g.node))  # noqa: E731
    for f in candidates:
        if reads(f):
            return f
    # ... or reads it in a helper extracted from it (a function of the same module that it calls; the name
    # generator, which reads the mapping for the coefficient NAME, lives in another module)
    for f in candidates:
        seen, todo = {f.qual}, [f]
        while todo:
            g = todo.pop()
            for _, q in tree.calls_in(g):
                h = tree.funcs.get(q) if q else None
                if h is not None and h.qual not in seen and h.module is f.module:
                    seen.add(h.qual)
                    todo.append(h)
                    if reads(h):
                        return f
    raise AnalysisError("vanished anchor: no function that reads parity_partner_coefficient_mapping is multiplied into the sequential amplitude")


def node_loops(fn: FuncInfo) -> list[ast.For]:
    return [n for n in walk_function(fn.node) if isinstance(n, ast.For) and unparse(n.iter).endswith("topology.nodes")]


# ============================================================================ symbolic execution
class _Unsupported(Exception):
    """A statement the symbolic execution does not model (the caller fails closed)."""


class _State:
    """One path: ``env`` (local name -> symbolic value of the CURRENT frame), the branch ``facts``
    (condition, outcome) met so far (all frames, in terms of the entry function), and for every simple
    statement of the entry function that was executed: the number of facts known at that point and
    the symbolic value of its right-hand side."""

    __slots__ = ("env", "facts", "reached", "appends")

    def __init__(self) -> None:
        self.env: dict = {}
        self.facts: list[tuple[ast.AST, bool]] = []
        self.reached: dict[int, tuple[int, ast.AST | None]] = {}
        self.appends: dict[str, list[ast.AST]] = {}

    def fork(self) -> "_State":
        new = _State()
        new.env = dict(self.env)
        new.facts = list(self.facts)
        new.reached = dict(self.reached)
        new.appends = {k: list(v) for k, v in self.appends.items()}
        return new


class _Frame:
    def __init__(self, fn: FuncInfo, depth: int, chain: str, stack: tuple[str, ...]) -> None:
        self.fn, self.depth, self.chain, self.stack = fn, depth, chain, stack


def _same(a: ast.AST, b: ast.AST) -> bool:
    return ast.dump(a) == ast.dump(b)


def _is_seq(v) -> bool:
    return isinstance(v, ast.ListComp) and getattr(v, "_seq", False)


def _is_empty_list(v) -> bool:
    if isinstance(v, ast.List) and not v.elts:
        return True
    return isinstance(v, ast.Call) and isinstance(v.func, ast.Name) and v.func.id == "list" and not v.args and not v.keywords


def _truth(v: ast.AST) -> bool | None:
    """Truth value of a symbolic condition when it is a constant."""
    if isinstance(v, ast.Constant):
        return bool(v.value)
    if isinstance(v, ast.UnaryOp) and isinstance(v.op, ast.Not):
        t = _truth(v.operand)
        return None if t is None else not t
    if isinstance(v, ast.Compare) and len(v.ops) == 1 and isinstance(v.left, ast.Constant) and isinstance(v.comparators[0], ast.Constant):
        a, b = v.left.value, v.comparators[0].value
        op = v.ops[0]
        if isinstance(op, ast.Eq):
            return a == b
        if isinstance(op, ast.NotEq):
            return a != b
        if isinstance(op, ast.Is) and (a is None or b is None):
            return a is b
        if isinstance(op, ast.IsNot) and (a is None or b is None):
            return a is not b
    return None


MAX_STATES = 4000


class SymExec:
    """Symbolic execution of one function of the package, one generic iteration per loop.

    * every ``if`` forks the path (constant conditions do not); the branch condition - with the local
      definitions of that path substituted - is recorded as a fact of the path;
    * a loop body is executed once for a generic element: ``for x in S`` binds ``x`` to the symbol
      ``<each S>`` (or, if ``S`` is itself a known sequence, to its generic element); names that are
      re-assigned in the body are unknown at the start of the iteration (loop-carried);
    * ``[f(x) for x in S]``, ``list(f(x) for x in S)`` and ``a = []; for x in S: ...; a.append(f(x))``
      all become the sequence value ``[f(<each S>) for <each S> in S]``; iterating / mapping over such a
      value composes the element expressions.  A path that does not append exactly one element per
      item (continue, break, two appends, a filter) is marked in the ``ifs`` of the sequence;
    * calls of package functions are executed the same way (depth-bounded, every path of the callee
      forks the caller) when they sit at a position that is evaluated unconditionally; at conditional
      positions (right operand of and/or, comprehension element) only branch-free helpers are inlined.
      ``generate_two_body_decay_suffix`` stays an atom (the raw suffix of a node).
    Everything else stays symbolic text.  Nothing is executed."""

    def __init__(self, tree: Tree, fn: FuncInfo, max_depth: int = 3) -> None:
        self.tree, self.fn, self.max_depth = tree, fn, max_depth
        self.n_states = 0
        self.opaque_calls: set[str] = set()

    # ------------------------------------------------------------------ public
    def run(self) -> list[tuple[_State, ast.AST]]:
        """Final states of the entry function with the symbolic return value (None constant for a
        bare return / falling off the end); paths that raise are dropped."""
        st = _State()
        frame = _Frame(self.fn, 0, "", (self.fn.qual,))
        try:
            results = self._block(self.fn.node.body, st, frame)
        except _Unsupported as exc:
            raise AnalysisError(f"{self.fn.qual}: the path analysis cannot follow {exc}") from exc
        out = []
        for s, status, val in results:
            if status in {"next", "return"}:
                out.append((s, val if val is not None else ast.Constant(None)))
        return out

    # --------------------------------------------------------------- symbols
    @staticmethod
    def _fresh(name: str, node: ast.AST, fr: _Frame) -> ast.Name:
        return ast.Name(id=f"{name}@{fr.chain}{getattr(node, 'lineno', 0)}", ctx=ast.Load())

    @staticmethod
    def _each(src: ast.AST) -> str:
        return f"<each {unparse(src)}>"

    # ------------------------------------------------------------ expressions
    def ev(self, node, st: _State, fr: _Frame, shadow: frozenset = frozenset()):
        if isinstance(node, list):
            return [self.ev(x, st, fr, shadow) for x in node]
        if not isinstance(node, ast.AST):
            return node
        if isinstance(node, ast.Name):
            if isinstance(node.ctx, ast.Load) and node.id not in shadow and node.id in st.env:
                return st.env[node.id]
            return node
        if isinstance(node, ast.Call):
            done = st.env.get(("call", id(node)))
            if done is not None:
                return done
            if not shadow:
                v = self._inline_branch_free(node, st, fr)
                if v is not None:
                    return v
        if isinstance(node, ast.NamedExpr) and isinstance(node.target, ast.Name):
            v = self.ev(node.value, st, fr, shadow)
            st.env[node.target.id] = v
            return v
        if isinstance(node, (ast.ListComp, ast.GeneratorExp)) and not shadow:
            seq = self._comprehension(node, st, fr)
            if seq is not None:
                return seq
        if isinstance(node, (ast.ListComp, ast.SetComp, ast.GeneratorExp, ast.DictComp)):
            shadow = shadow | {n.id for g in node.generators for n in ast.walk(g.target) if isinstance(n, ast.Name)}
        if isinstance(node, ast.Lambda):
            a = node.args
            shadow = shadow | {x.arg for x in [*a.posonlyargs, *a.args, *a.kwonlyargs, a.vararg, a.kwarg] if x is not None}
        new = copy.copy(node)
        for fld, value in ast.iter_fields(node):
            setattr(new, fld, self.ev(value, st, fr, shadow))
        if (isinstance(new, ast.Call) and isinstance(new.func, ast.Name) and new.func.id in {"list", "tuple"} and new.func.id not in st.env
                and len(new.args) == 1 and not new.keywords and _is_seq(new.args[0])):
            return new.args[0]
        return new

    def _element(self, it: ast.AST):
        """(variable, generic element, source, filters) of iterating the symbolic value ``it``."""
        if _is_seq(it):
            g = it.generators[0]
            return g.target, it.elt, g.iter, list(g.ifs)
        name = self._each(it)
        return ast.Name(id=name, ctx=ast.Store()), ast.Name(id=name, ctx=ast.Load()), it, []

    @staticmethod
    def _seq(elt: ast.AST, var: ast.AST, src: ast.AST, ifs: list) -> ast.ListComp:
        seq = ast.ListComp(elt=elt, generators=[ast.comprehension(target=var, iter=src, ifs=ifs, is_async=0)])
        seq._seq = True  # type: ignore[attr-defined]
        return seq

    def _comprehension(self, node, st: _State, fr: _Frame):
        if len(node.generators) != 1:
            return None
        gen = node.generators[0]
        if gen.is_async or not isinstance(gen.target, ast.Name):
            return None
        var, elem, src, ifs = self._element(self.ev(gen.iter, st, fr))
        name = gen.target.id
        missing = object()
        old = st.env.get(name, missing)
        st.env[name] = elem
        try:
            elt = self.ev(node.elt, st, fr)
            ifs = ifs + [self.ev(c, st, fr) for c in gen.ifs]
        finally:
            if old is missing:
                st.env.pop(name, None)
            else:
                st.env[name] = old
        return self._seq(elt, var, src, ifs)

    # ------------------------------------------------------------------ calls
    def _callee(self, call: ast.Call, fr: _Frame) -> FuncInfo | None:
        if not hasattr(call, "_module"):
            return None
        name = call.func.attr if isinstance(call.func, ast.Attribute) else call.func.id if isinstance(call.func, ast.Name) else None
        if name is None or name == RAW_SUFFIX:
            return None
        q = self.tree.callee(call, fr.fn)
        tgt = self.tree.funcs.get(q) if q else None
        if tgt is None or tgt.qual in fr.stack or fr.depth >= self.max_depth or not isinstance(tgt.node, ast.FunctionDef):
            return None
        decorators = {unparse(d) for d in tgt.node.decorator_list}
        if decorators - {"staticmethod", "override", "typing.override"}:
            return None
        if any(isinstance(n, (ast.Yield, ast.YieldFrom, ast.Await)) for n in walk_function(tgt.node, nested=False)):
            return None
        return tgt

    def _bind(self, call: ast.Call, tgt: FuncInfo, st: _State, fr: _Frame) -> dict | None:
        a = tgt.node.args
        if a.vararg or a.kwarg or any(isinstance(x, ast.Starred) for x in call.args) or any(k.arg is None for k in call.keywords):
            return None
        positional = [x.arg for x in [*a.posonlyargs, *a.args]]
        env: dict = {}
        if tgt.cls is not None and "staticmethod" not in {unparse(d) for d in tgt.node.decorator_list}:
            if not positional or not isinstance(call.func, ast.Attribute):
                return None
            env[positional.pop(0)] = self.ev(call.func.value, st, fr)
        if len(call.args) > len(positional):
            return None
        for p, arg in zip(positional, call.args):
            env[p] = self.ev(arg, st, fr)
        names = set(positional) | {x.arg for x in a.kwonlyargs}
        for k in call.keywords:
            if k.arg not in names or k.arg in env:
                return None
            env[k.arg] = self.ev(k.value, st, fr)
        defaults = dict(zip(reversed([x.arg for x in [*a.posonlyargs, *a.args]]), reversed(a.defaults)))
        defaults.update({x.arg: d for x, d in zip(a.kwonlyargs, a.kw_defaults) if d is not None})
        for p in names:
            if p not in env:
                d = defaults.get(p)
                if not isinstance(d, ast.Constant):
                    return None
                env[p] = d
        return env

    def _inline(self, call: ast.Call, st: _State, fr: _Frame) -> list[_State] | None:
        """Execute the callee on forks of ``st``; every returned state has the value of the call bound."""
        tgt = self._callee(call, fr)
        if tgt is None:
            return None
        env = self._bind(call, tgt, st, fr)
        if env is None:
            return None
        inner = st.fork()
        inner.env, inner.appends = env, {}
        frame = _Frame(tgt, fr.depth + 1, f"{fr.chain}{getattr(call, 'lineno', 0)}:{getattr(call, 'col_offset', 0)}>", (*fr.stack, tgt.qual))
        try:
            results = self._block(tgt.node.body, inner, frame)
        except _Unsupported:
            return None
        out = []
        for s, status, val in results:
            if status not in {"next", "return"}:
                continue
            s.env = dict(st.env)
            s.appends = {k: list(v) for k, v in st.appends.items()}
            s.env[("call", id(call))] = val if val is not None else ast.Constant(None)
            out.append(s)
        return out

    def _inline_branch_free(self, call: ast.Call, st: _State, fr: _Frame):
        res = self._inline(call, st, fr)
        if res is None or len(res) != 1 or len(res[0].facts) != len(st.facts):
            if self._is_package_call(call, fr):
                self.opaque_calls.add(unparse(call.func))
            return None
        return res[0].env[("call", id(call))]

    def _is_package_call(self, call: ast.Call, fr: _Frame) -> bool:
        if not hasattr(call, "_module"):
            return False
        name = call.func.attr if isinstance(call.func, ast.Attribute) else None
        if name == RAW_SUFFIX:
            return False
        q = self.tree.callee(call, fr.fn)
        return bool(q) and q in self.tree.funcs

    @staticmethod
    def _unconditional_calls(expr: ast.AST) -> list[ast.Call]:
        """Calls inside ``expr`` that are evaluated whenever ``expr`` is (post-order: arguments first)."""
        out: list[ast.Call] = []

        def visit(n: ast.AST) -> None:
            if isinstance(n, ast.BoolOp):
                visit(n.values[0])
                return
            if isinstance(n, ast.IfExp):
                visit(n.test)
                return
            if isinstance(n, (ast.ListComp, ast.SetComp, ast.GeneratorExp, ast.DictComp)):
                visit(n.generators[0].iter)
                return
            if isinstance(n, ast.Lambda):
                return
            for c in ast.iter_child_nodes(n):
                visit(c)
            if isinstance(n, ast.Call):
                out.append(n)

        visit(expr)
        return out

    def _prepare(self, exprs: list, st: _State, fr: _Frame) -> list[_State]:
        """Fork ``st`` over the paths of the package functions called (unconditionally) in ``exprs``."""
        states = [st]
        for e in exprs:
            if e is None:
                continue
            for call in self._unconditional_calls(e):
                nxt = []
                for s in states:
                    res = self._inline(call, s, fr)
                    nxt += [s] if res is None else res
                states = nxt
        return states

    # -------------------------------------------------------------- statements
    def _block(self, stmts: list[ast.stmt], st: _State, fr: _Frame):
        states = [(st, "next", None)]
        for stmt in stmts:
            nxt = []
            for s, status, val in states:
                if status != "next":
                    nxt.append((s, status, val))
                else:
                    nxt += self._stmt(stmt, s, fr)
            states = nxt
            self.n_states = max(self.n_states, len(states))
            if len(states) > MAX_STATES:
                raise AnalysisError(f"{self.fn.qual}: path explosion in the symbolic execution")
        return states

    def _assign(self, target: ast.AST, value: ast.AST, st: _State, fr: _Frame, stmt: ast.stmt) -> None:
        if isinstance(target, ast.Name):
            st.env[target.id] = value
        elif isinstance(target, (ast.Tuple, ast.List)):
            plain = not any(isinstance(t, ast.Starred) for t in target.elts)
            for i, t in enumerate(target.elts):
                if plain and isinstance(value, (ast.Tuple, ast.List)) and len(value.elts) == len(target.elts) and not any(isinstance(e, ast.Starred) for e in value.elts):
                    self._assign(t, value.elts[i], st, fr, stmt)
                elif plain:
                    self._assign(t, ast.Subscript(value=value, slice=ast.Constant(i), ctx=ast.Load()), st, fr, stmt)
                else:
                    for n in ast.walk(t):
                        if isinstance(n, ast.Name):
                            st.env[n.id] = self._fresh(n.id, stmt, fr)
        elif isinstance(target, (ast.Subscript, ast.Attribute)):
            base = target
            while isinstance(base, (ast.Subscript, ast.Attribute)):
                base = base.value
            if isinstance(base, ast.Name) and base.id in st.env and base.id != "self":
                st.env[base.id] = self._fresh(base.id, stmt, fr)  # the object changed: what was known about it is void

    def _stmt(self, stmt: ast.stmt, st: _State, fr: _Frame):
        top = fr.depth == 0

        def reached(s: _State, value) -> None:
            if top:
                s.reached[id(stmt)] = (len(s.facts), value)

        if isinstance(stmt, (ast.Assign, ast.AnnAssign)):
            if stmt.value is None:
                return [(st, "next", None)]
            out = []
            for s in self._prepare([stmt.value], st, fr):
                v = self.ev(stmt.value, s, fr)
                reached(s, v)
                for t in stmt.targets if isinstance(stmt, ast.Assign) else [stmt.target]:
                    self._assign(t, v, s, fr, stmt)
                out.append((s, "next", None))
            return out
        if isinstance(stmt, ast.AugAssign):
            out = []
            for s in self._prepare([stmt.value], st, fr):
                v = self.ev(stmt.value, s, fr)
                reached(s, v)
                if isinstance(stmt.target, ast.Name):
                    name = stmt.target.id
                    if name in s.appends and isinstance(stmt.op, ast.Add) and isinstance(v, (ast.List, ast.Tuple)):
                        s.appends[name] += list(v.elts)
                    else:
                        s.env[name] = ast.BinOp(left=s.env.get(name, ast.Name(id=name, ctx=ast.Load())), op=stmt.op, right=v)
                else:
                    self._assign(stmt.target, v, s, fr, stmt)
                out.append((s, "next", None))
            return out
        if isinstance(stmt, ast.Expr):
            out = []
            for s in self._prepare([stmt.value], st, fr):
                v = self.ev(stmt.value, s, fr)
                reached(s, v)
                c = stmt.value
                if isinstance(c, ast.Call) and isinstance(c.func, ast.Attribute) and isinstance(c.func.value, ast.Name) and c.func.attr in MUTATORS:
                    name = c.func.value.id
                    if name in s.appends and c.func.attr == "append" and len(c.args) == 1 and not c.keywords:
                        s.appends[name].append(v.args[0] if isinstance(v, ast.Call) else self.ev(c.args[0], s, fr))
                    elif name in s.env:
                        s.env[name] = self._fresh(name, stmt, fr)
                out.append((s, "next", None))
            return out
        if isinstance(stmt, ast.Return):
            out = []
            for s in self._prepare([stmt.value], st, fr):
                v = self.ev(stmt.value, s, fr) if stmt.value is not None else ast.Constant(None)
                reached(s, v)
                out.append((s, "return", v))
            return out
        if isinstance(stmt, ast.If):
            out = []
            for s in self._prepare([stmt.test], st, fr):
                test = self.ev(stmt.test, s, fr)
                known = _truth(test)
                for outcome, body in ((True, stmt.body), (False, stmt.orelse)):
                    if known is not None and known != outcome:
                        continue
                    b = s.fork() if known is None else s
                    b.facts.append((test, outcome))
                    out += self._block(body, b, fr)
            return out
        if isinstance(stmt, ast.For):
            return self._for(stmt, st, fr)
        if isinstance(stmt, ast.With):
            for item in stmt.items:
                if item.optional_vars is not None:
                    for n in ast.walk(item.optional_vars):
                        if isinstance(n, ast.Name):
                            st.env[n.id] = self._fresh(n.id, stmt, fr)
            return self._block(stmt.body, st, fr)
        if isinstance(stmt, ast.Raise):
            return [(st, "raise", None)]
        if isinstance(stmt, ast.Continue):
            return [(st, "continue", None)]
        if isinstance(stmt, ast.Break):
            return [(st, "break", None)]
        if isinstance(stmt, (ast.Pass, ast.Assert, ast.Import, ast.ImportFrom, ast.Global, ast.Nonlocal)):
            return [(st, "next", None)]
        if isinstance(stmt, ast.Delete):
            for t in stmt.targets:
                if isinstance(t, ast.Name):
                    st.env.pop(t.id, None)
            return [(st, "next", None)]
        if isinstance(stmt, (ast.FunctionDef, ast.ClassDef)):
            st.env[stmt.name] = self._fresh(stmt.name, stmt, fr)
            return [(st, "next", None)]
        raise _Unsupported(f"a `{type(stmt).__name__.lower()}` statement ({self.tree.loc(stmt)})")

    def _for(self, loop: ast.For, st: _State, fr: _Frame):
        out = []
        stored: set[str] = set()
        appended: set[str] = set()
        for n in walk_function(loop):
            if isinstance(n, ast.Name) and isinstance(n.ctx, ast.Store):
                stored.add(n.id)
            if isinstance(n, ast.Call) and isinstance(n.func, ast.Attribute) and n.func.attr in MUTATORS and isinstance(n.func.value, ast.Name):
                appended.add(n.func.value.id)
            if isinstance(n, ast.AugAssign) and isinstance(n.target, ast.Name):
                appended.add(n.target.id)
        targets = {n.id for n in ast.walk(loop.target) if isinstance(n, ast.Name)}
        for s in self._prepare([loop.iter], st, fr):
            var, elem, src, ifs = self._element(self.ev(loop.iter, s, fr))
            accs = {a for a in appended if _is_empty_list(s.env.get(a))}
            for name in stored - targets:
                if name not in accs:
                    s.env[name] = self._fresh(name, loop, fr)  # loop-carried: value of an earlier iteration
            if isinstance(loop.target, ast.Name):
                s.env[loop.target.id] = elem
            else:
                for name in targets:
                    s.env[name] = self._fresh(name, loop, fr)
            outer = s.appends
            s.appends = {a: [] for a in accs}
            for b, status, val in self._block(loop.body, s, fr):
                if status in {"return", "raise"}:
                    out.append((b, status, val))
                    continue
                for a in accs:
                    items = b.appends.get(a, [])
                    if status != "break" and len(items) == 1:
                        b.env[a] = self._seq(items[0], var, src, list(ifs))
                    else:
                        why = ast.Name(id=f"<{len(items)} elements on a path{' that leaves the loop' if status == 'break' else ''}>", ctx=ast.Load())
                        b.env[a] = self._seq(items[0] if items else ast.Constant(None), var, src, [*ifs, why])
                b.appends = {k: list(v) for k, v in outer.items()}
                if status != "break" and loop.orelse:
                    out += self._block(loop.orelse, b, fr)
                else:
                    out.append((b, "next", None))
        return out


# ---------------------------------------------------------------- facts about the partner mapping
def atoms(facts) -> list[tuple[ast.AST, bool]]:
    """Atomic conditions that certainly hold on a path: `not`, a true `and`, a false `or` are split."""
    out: list[tuple[ast.AST, bool]] = []

    def split(test: ast.AST, outcome: bool) -> None:
        if isinstance(test, ast.UnaryOp) and isinstance(test.op, ast.Not):
            split(test.operand, not outcome)
        elif isinstance(test, ast.BoolOp) and isinstance(test.op, ast.And if outcome else ast.Or):
            for v in test.values:
                split(v, outcome)
        else:
            out.append((test, outcome))

    for test, outcome in facts:
        split(test, outcome)
    return out


def is_mapping(e: ast.AST) -> bool:
    """`<object>.parity_partner_coefficient_mapping` (the public accessor or the private attribute)."""
    return isinstance(e, ast.Attribute) and e.attr.split("__")[-1] == MAPPING


def is_raw(e: ast.AST) -> bool:
    return isinstance(e, ast.Call) and (e.func.attr if isinstance(e.func, ast.Attribute) else getattr(e.func, "id", None)) == RAW_SUFFIX


def raw_node(e: ast.Call) -> ast.AST | None:
    """The node argument of generate_two_body_decay_suffix(transition, node_id)."""
    if len(e.args) >= 2:
        return e.args[1]
    return next((k.value for k in e.keywords if k.arg == "node_id"), None)


def mentions_mapping(e: ast.AST) -> bool:
    return any(is_mapping(n) for n in ast.walk(e))


def _asserts(at, left_pred, op_pos, op_neg, right_pred) -> bool | None:
    """Does the atom assert (True) / deny (False) `left <op_pos> right`?  None: another atom."""
    test, outcome = at
    if isinstance(test, ast.Compare) and len(test.ops) == 1 and left_pred(test.left) and right_pred(test.comparators[0]):
        if isinstance(test.ops[0], op_pos):
            return outcome
        if isinstance(test.ops[0], op_neg):
            return not outcome
    return None


def registered(raw: ast.AST, ats) -> bool | None:
    """Is `raw in <mapping>` known on the path?"""
    for at in ats:
        r = _asserts(at, lambda x: _same(x, raw), ast.In, ast.NotIn, is_mapping)
        if r is not None:
            return r
    return None


def mapped_value(m: ast.AST, raw: ast.AST, ats) -> bool:
    """Is ``m`` the coefficient suffix the mapping gives for ``raw`` - ``raw`` itself if it is not registered?
    `mapping[raw]` (raises for an unregistered suffix), `mapping.get(raw, raw)`, and `mapping.get(raw)` on a
    path where the result is known not to be None / the suffix is known to be registered."""
    if isinstance(m, ast.Subscript) and is_mapping(m.value) and _same(m.slice, raw):
        return True
    if isinstance(m, ast.Call) and isinstance(m.func, ast.Attribute) and m.func.attr == "get" and is_mapping(m.func.value) and not m.keywords and m.args and _same(m.args[0], raw):
        if len(m.args) == 2 and _same(m.args[1], raw):
            return True
        if len(m.args) == 1 or (isinstance(m.args[1], ast.Constant) and m.args[1].value is None):
            if registered(raw, ats):
                return True
            is_none = lambda x: isinstance(x, ast.Constant) and x.value is None  # noqa: E731
            return any(_asserts(at, lambda x: _same(x, m), ast.IsNot, ast.Is, is_none) for at in ats)
    return False


def flip_atom(at, ats) -> tuple[bool, ast.Call] | None:
    """(is the node flipped?, raw suffix) if the atom compares the mapped suffix of a node with its raw suffix."""
    test, outcome = at
    if not (isinstance(test, ast.Compare) and len(test.ops) == 1 and isinstance(test.ops[0], (ast.Eq, ast.NotEq))):
        return None
    for m, raw in ((test.left, test.comparators[0]), (test.comparators[0], test.left)):
        if is_raw(raw) and mapped_value(m, raw, ats):
            return (isinstance(test.ops[0], ast.NotEq)) == outcome, raw
    return None


def flip_status(facts, what: str) -> tuple[bool, list[ast.Call]]:
    """Is the node of the iteration known to be mapped to its partner (`mapped suffix != raw suffix`) on a
    path with these facts?  Returns (flipped, raw suffixes compared).  A condition on the partner mapping
    that is not understood cannot be judged: AnalysisError."""
    ats = atoms(facts)
    verdicts, raws, unknown = [], [], []
    for at in ats:
        f = flip_atom(at, ats)
        if f is not None:
            verdicts.append(f[0])
            raws.append(f[1])
            continue
        test = at[0]
        if not mentions_mapping(test):
            continue
        if isinstance(test, ast.Compare) and len(test.ops) == 1 and isinstance(test.ops[0], (ast.In, ast.NotIn)) and is_mapping(test.comparators[0]):
            continue  # registered / not registered: says nothing about the partner
        if isinstance(test, ast.Compare) and len(test.ops) == 1 and isinstance(test.ops[0], (ast.Is, ast.IsNot)):
            continue
        unknown.append(unparse(test))
    if any(verdicts):
        return True, raws
    if unknown:
        raise AnalysisError(f"{what}: cannot decide whether the condition `{unknown[0]}` on the partner mapping is the flip test `mapped suffix != raw suffix`")
    return False, raws


class PathFacts:
    """The paths of one function (SymExec) queried by statement."""

    def __init__(self, tree: Tree, fn: FuncInfo) -> None:
        self.tree, self.fn = tree, fn
        self.sym = SymExec(tree, fn)
        self.finals = self.sym.run()
        if not self.finals:
            raise AnalysisError(f"{fn.qual}: no path returns")
        self.raws: list[ast.Call] = []

    def at(self, node: ast.AST) -> list[tuple[list, ast.AST | None]]:
        """(facts, symbolic right-hand side) for every path on which the statement of ``node`` runs."""
        stmt = node if isinstance(node, ast.stmt) else next(a for a in ancestors(node) if isinstance(a, ast.stmt))
        out, seen = [], set()
        for st, _ in self.finals:
            hit = st.reached.get(id(stmt))
            if hit is None:
                continue
            facts = st.facts[: hit[0]]
            key = (tuple((ast.dump(t), o) for t, o in facts), ast.dump(hit[1]) if hit[1] is not None else None)
            if key not in seen:
                seen.add(key)
                out.append((facts, hit[1]))
        if not out:
            raise AnalysisError(f"{self.fn.qual}: `{unparse(stmt)}` is on no path of the function")
        return out

    def flipped_on_every_path(self, node: ast.AST) -> bool:
        ok = True
        for facts, _ in self.at(node):
            flipped, raws = flip_status(facts, self.fn.qual)
            self.raws += raws
            ok = ok and flipped
        return ok


def check_selection_product(ctx: Check, tree: Tree, fn: FuncInfo, param: str) -> None:
    """The helper multiplies interaction.parity_prefactor over EXACTLY the nodes in ``param``."""
    rd = RD(fn.node)
    loops = [n for n in walk_function(fn.node) if isinstance(n, ast.For)]
    key = f"{fn.qual}::product-over-selection"
    if len(loops) != 1:
        raise AnalysisError(f"{fn.qual}: expected one loop over the selected nodes, found {len(loops)}")
    loop = loops[0]
    it = loop.iter
    exact = isinstance(it, ast.Name) and it.id == param and all(d.kind == "param" for d in rd.reaching(it))
    problems = []
    if not exact:
        if isinstance(it, ast.BoolOp) or isinstance(it, ast.IfExp):
            problems.append(f"iterates `{unparse(it)}`: an EMPTY selection (a chain without flipped node) falls back to another node set")
        else:
            problems.append(f"iterates `{unparse(it)}`, not exactly the selection `{param}`")
    var = unparse(loop.target)
    upd = [n for n in walk_function(loop) if isinstance(n, ast.AugAssign) and isinstance(n.op, ast.Mult)]
    if not upd:
        problems.append("no product update in the loop")
    for u in upd:
        txt = unparse(u.value) + "".join(unparse(d.value) for d in rd.closure(rd.uses(u.value)) if d.value is not None)
        loop_defs = {d for d in rd.defs if d.kind == "for" and d.node is loop}
        if "parity_prefactor" not in txt or not (rd.closure(rd.uses(u.value)) & loop_defs):
            problems.append(f"`{unparse(u)}` is not the parity factor of the node `{var}`")
    ctx.verdict(not problems, "R-DEPENDS", key, tree.loc(loop), f"{fn.qual}: product of interaction.parity_prefactor over exactly the nodes in `{param}`", problems or None)


def check_none_means_one(ctx: Check, tree: Tree, fn: FuncInfo, loop: ast.For, paths: "PathFacts") -> None:
    """R-DEPENDS: the product is handed out whenever it is not 1 - `None` (no prefactor) only stands for +1.
    Every path that answers None after the loop knows `X == 1` for the value X that the other paths hand out;
    a path that answers None although it knows `X != 1` loses the sign.  A None under other conditions is not decided."""
    is_none = lambda v: isinstance(v, ast.Constant) and v.value is None  # noqa: E731
    is_one = lambda v: isinstance(v, ast.Constant) and not isinstance(v.value, bool) and v.value in {1, 1.0}  # noqa: E731
    anything = lambda v: True  # noqa: E731
    handed_out = [ast.dump(v) for _, v in paths.finals if not is_none(v)]
    if not handed_out:
        return
    returns = [n for n in walk_function(fn.node, nested=False) if isinstance(n, ast.Return)]
    lost, undecided, n_none = [], [], 0
    for st, v in paths.finals:
        if not is_none(v) or any(id(r) in st.reached and any(a is loop for a in ancestors(r)) for r in returns):
            continue  # (a None from inside the loop is reported as leaving the loop early)
        n_none += 1
        known = None
        for at in atoms(st.facts):
            for holds, x in ((_asserts(at, anything, ast.Eq, ast.NotEq, is_one), at[0].left if isinstance(at[0], ast.Compare) else None),
                             (_asserts(at, is_one, ast.Eq, ast.NotEq, anything), at[0].comparators[0] if isinstance(at[0], ast.Compare) else None)):
                if holds is not None and x is not None and (is_one(x) or any(ast.dump(x) in h for h in handed_out)):
                    known = holds if known is None else (known and holds)
        path = " and ".join(f"{'' if o else 'not '}({unparse(t)})" for t, o in st.facts[-2:]) or "unconditionally"
        if known is False:
            lost.append(path)
        elif known is None:
            undecided.append(path)
    where = next((g for r in returns if not any(a is loop for a in ancestors(r)) for g in ancestors(r) if isinstance(g, ast.If)), fn.node)
    key = f"{fn.qual}::returned-iff-not-one"
    if lost or not undecided:
        ctx.verdict(not lost, "R-DEPENDS", key, tree.loc(where),
                    "the accumulated prefactor is handed out whenever it differs from 1 (None stands for +1 only): every path that answers None knows `prefactor == 1`",
                    None if not lost else {"a product of -1 is answered with None: the chain loses its parity sign. None is answered on the path(s)": sorted(set(lost))[:3]})
    if undecided:
        raise AnalysisError(f"{fn.qual}: None (no prefactor) is answered on a path that does not compare the product with 1 ({sorted(set(undecided))[0][:200]}): cannot decide whether the product is 1 there")


def check_daughter_order(ctx: Check, tree: Tree) -> None:
    """R-PARTNER: the order in which the two daughters appear in a coefficient name must not depend
    on their helicities - otherwise (+l, -l) and (-l, +l) of two identical daughters get the same
    name (one coefficient, relative factor +1 instead of eta).  get_sorted_states sorts by particle
    name only; ties keep the order of the state ids (sorted() is stable)."""
    fn = tree.func("ampform.helicity.decay::get_sorted_states")
    calls = [c for c in walk_function(fn.node) if isinstance(c, ast.Call) and unparse(c.func) == "sorted"]
    problems = []
    if len(calls) != 1:
        raise AnalysisError(f"{fn.qual}: expected one sorted(...) call")
    key = next((k.value for k in calls[0].keywords if k.arg == "key"), None)
    if key is None:
        problems.append("no sort key: State objects are ordered by all their fields, including the spin projection")
    else:
        body = key.body if isinstance(key, ast.Lambda) else key
        attrs = {n.attr for n in ast.walk(body) if isinstance(n, ast.Attribute)}
        if attrs & {"spin_projection", "helicity"}:
            problems.append(f"the sort key `{unparse(body)}` depends on the spin projection")
        if "name" not in attrs and "latex" not in attrs:
            problems.append(f"the sort key `{unparse(body)}` is not the particle name")
    ctx.verdict(not problems, "R-PARTNER", f"{fn.qual}::order-independent-of-helicity", tree.loc(fn.node),
                "get_sorted_states orders the daughters by particle name only (never by helicity)", problems or None)


def check_partner_key_flags(ctx: Check, tree: Tree) -> None:
    """R-PARTNER (flags): which chains share a coefficient AND whether a chain is the flipped partner
    are both decided by comparing strings: the chain's own suffix (generate_two_body_decay_suffix) with
    the partner suffix that __generate_amplitude_coefficient_couple builds.  The partner suffix always
    carries the daughter helicities and a plain arrow.  An own suffix whose daughter helicities or whose
    arrow depend on a *display* flag changes the physics with the flag:
      - daughters without helicities: reversed chains collapse onto one name and are never recognised as
        partners - one coefficient, no parity sign;
      - canonical names with a plain arrow: the partner IS recognised and the prefactor is applied on top
        of the Clebsch-Gordan coefficients that already carry the parity relation.
    (insert_parent_helicities only splits coefficients - chains that do not share a coefficient are
    outside the premise of the property - and is exempt.)"""
    mod = "ampform.helicity.naming"
    couple = tree.func(f"{mod}::HelicityAmplitudeNameGenerator.__generate_amplitude_coefficient_couple")
    own_calls = [c for c in walk_function(couple.node) if isinstance(c, ast.Call) and unparse(c.func).endswith("generate_two_body_decay_suffix")]
    if not own_calls:
        raise AnalysisError(f"{couple.qual}: the own suffix is no longer generate_two_body_decay_suffix(...) - rule shape unknown")
    # every implementation (overrides included) on the own-suffix path
    names = {"generate_two_body_decay_suffix", "_get_coefficient_components"}
    path = sorted((q for q, f in tree.funcs.items() if q.startswith(mod + "::") and f.name in names and f.cls is not None), key=str)
    if len(path) < 3:
        raise AnalysisError(f"only {len(path)} implementations on the own-suffix path (3 confirmed: generate_two_body_decay_suffix and two _get_coefficient_components)")
    exempt = {"insert_parent_helicities": "only adds the parent's helicity to the own name: chains stop sharing a coefficient, none shares one without the sign"}
    found: dict[str, list] = {}
    for q in path:
        fn = tree.funcs[q]
        for n in walk_function(fn.node):
            if isinstance(n, ast.Attribute) and isinstance(n.value, ast.Name) and n.value.id == "self":
                flag = n.attr.split("__")[-1]
                if flag.startswith("insert_"):
                    found.setdefault(flag, []).append((fn, n))
    ctx.stats["display_flags_on_partner_key_path"] = len(found)
    if not found:
        ctx.ok("R-PARTNER", tree.loc(couple.node), "the suffix that decides coefficient sharing and the parity flip does not depend on a display flag")
    for flag, sites in sorted(found.items()):
        fn, node = sites[0]
        key = f"{couple.qual}::partner-key-depends-on-display-flag::{flag}"
        if flag in exempt:
            ctx.ok("R-PARTNER", tree.loc(node), f"display flag `{flag}` enters the own suffix: {exempt[flag]}")
            continue
        ctx.violation("R-PARTNER", key, tree.loc(node),
                      f"the own suffix compared with the partner suffix depends on the display flag `{flag}` ({fn.qual.split('::')[-1]}): with the non-default value, chains that differ by reversing the daughter helicities share a coefficient without / with a doubled parity sign",
                      {"read at": [tree.loc(n_) for _, n_ in sites][:3], "partner suffix": "always `parent -> child_{-l1} child_{-l2}` (helicities, plain arrow)"})


def run(ctx: Check, tree: Tree) -> None:
    ctx.decided += [
        'R-PARTNER (display flags): the strings that decide coefficient sharing and the parity flip do not depend on display flags of the name generator',
        "R-DEPENDS: every non-trivial value returned by the parity-prefactor function depends on the node loop variable, and every contribution inside the node loop is guarded by the per-node test `mapped suffix != raw suffix` and takes the parity factor of that node (decided on the paths of the function: guard clauses, nested ifs, extracted predicates / per-node helpers and `mapping.get(raw, raw)` read the same); the node loop is never left early; None is answered only where the product is known to be 1",
        "R-TERM (shared with C02): the canonical expansion used by the equivalence clause is CG(L,0;S,d|J,d) * CG(s1,l1;s2,-l2|S,d) on every path",
        "R-PARTNER: the partner suffix is built with make_parity_partner=True for both daughters and without the parent helicity; _state_to_str negates the helicity; the sequential suffix joins, for EVERY node, the suffix the partner mapping gives for the node's raw suffix (the raw suffix itself if unregistered) - loop or comprehension; the accessor of the mapping is not memoised while the mapping is re-bound",
    ]
    ctx.not_decided += ["equivalence with the canonical formalism for all LS coefficient values (numerical)", "which interactions qrules marks with a parity prefactor"]
    ctx.assumptions += ["qrules InteractionProperties.parity_prefactor is eta = P P1 P2 (-1)^(J-s1-s2) of that node"]
    fn = locate_prefactor_function(tree)
    rd = RD(fn.node)
    loops = node_loops(fn)
    if not loops:
        # no per-node decision at all: whatever is returned cannot know which nodes were flipped
        n_ret = 0
        for ret, _ in rd.returns:
            if ret.value is None or (isinstance(ret.value, ast.Constant) and ret.value.value is None):
                continue
            n_ret += 1
            ctx.violation("R-DEPENDS", f"{fn.qual}::return {unparse(ret.value)}", tree.loc(ret),
                          f"{fn.qual}: `{unparse(ret)}` is computed without looking at the individual nodes of the chain (no loop over transition.topology.nodes)",
                          "a value computed from the whole transition (the product over ALL nodes) cannot tell which node was flipped: for two parity-constrained nodes of unlike eta of which one is flipped the chain gets the wrong sign")
        if not n_ret:
            raise AnalysisError(f"{fn.qual}: no loop over the nodes and no non-None return")
        ctx.section(check_partner_suffix, ctx, tree)
        ctx.section(check_partner_key_flags, ctx, tree)
        return
    if len(loops) != 1:
        raise AnalysisError(f"{fn.qual}: expected one loop over transition.topology.nodes, found {len(loops)}")
    loop = loops[0]
    loop_defs = {d for d in rd.defs if d.kind == "for" and d.node is loop}
    loop_var = unparse(loop.target)
    paths = PathFacts(tree, fn)  # every path of the function, one generic node per loop
    ctx.stats["paths"] = len(paths.finals)

    def mentions_node(value: ast.AST | None) -> bool:
        return value is not None and any(isinstance(n, ast.Name) and n.id.startswith("<each ") and n.id.endswith("topology.nodes>") for n in ast.walk(value))

    def depends_on_loop(expr: ast.AST) -> bool:
        return bool(rd.closure(rd.uses(expr)) & loop_defs)

    # ---- returns
    n_checked = 0
    for ret, _ in rd.returns:
        if ret.value is None or (isinstance(ret.value, ast.Constant) and ret.value.value is None):
            continue
        n_checked += 1
        key = f"{fn.qual}::return {unparse(ret.value)}"
        dep = depends_on_loop(ret.value)
        deps_txt = sorted({d.name for d in rd.closure(rd.uses(ret.value))})
        if not dep:
            ctx.violation(
                "R-DEPENDS", key, tree.loc(ret),
                f"{fn.qual}: `{unparse(ret)}` does not depend on the node `{loop_var}` whose coefficient was mapped to its partner (depends on {deps_txt} only)",
                "a value computed from the whole transition (the product over ALL nodes) cannot tell which node was flipped: for two parity-constrained nodes of unlike eta of which one is flipped the chain gets the wrong sign",
            )
            continue
        inside = any(a is loop for a in ancestors(ret))
        if inside:
            # a value handed out from inside the node loop never saw the remaining nodes: whatever it is, it is
            # not the product over ALL flipped nodes of the chain (and without the flip test not even of this one)
            guarded = paths.flipped_on_every_path(ret)
            ctx.verdict(False, "R-DEPENDS", key + "::guard", tree.loc(ret), f"{fn.qual}: in-loop `{unparse(ret)}` is guarded by the flip test of that node and is the product over all flipped nodes",
                        "returned before the remaining nodes of the chain were looked at: the parity factors of flipped nodes that come later are dropped" if guarded
                        else "returned for a node that was not mapped to a partner")
        else:
            ctx.ok("R-DEPENDS", tree.loc(ret), f"{fn.qual}: `{unparse(ret)}` depends on the node loop variable `{loop_var}`")
    if n_checked == 0:
        raise AnalysisError(f"{fn.qual}: no non-None return")
    # ---- the node loop runs over ALL nodes: leaving it early drops the parity factors of the flipped nodes that follow
    in_loop = lambda n: any(a is loop for a in ancestors(n))  # noqa: E731
    nearest_loop = lambda n: next((a for a in ancestors(n) if isinstance(a, (ast.For, ast.While))), None)  # noqa: E731
    for node in walk_function(loop, nested=False):
        early = (isinstance(node, ast.Break) and nearest_loop(node) is loop) or (isinstance(node, ast.Return) and (node.value is None or (isinstance(node.value, ast.Constant) and node.value.value is None)))
        if early:
            ctx.violation("R-DEPENDS", f"{fn.qual}::loop-left-early::{unparse(node)}", tree.loc(node),
                          f"{fn.qual}: `{unparse(node)}` leaves the loop over the nodes of the chain before all nodes were looked at",
                          "the parity factors of flipped nodes that come later in the chain are dropped (a guard clause of a per-node test is `continue`)")
    ctx.section(check_none_means_one, ctx, tree, fn, loop, paths)

    # ---- contributions inside the loop: accumulator updates that reach a return
    returned_names = set()
    for ret, _ in rd.returns:
        if ret.value is not None:
            returned_names |= {d.name for d in rd.closure(rd.uses(ret.value))}
    n_updates = 0
    for node in walk_function(loop):
        target = None
        value = None
        if isinstance(node, ast.AugAssign) and isinstance(node.target, ast.Name):
            target, value = node.target.id, node.value
        elif isinstance(node, ast.Assign) and len(node.targets) == 1 and isinstance(node.targets[0], ast.Name):
            t = node.targets[0].id
            if any(isinstance(n, ast.Name) and n.id == t for n in ast.walk(node.value)):
                target, value = t, node.value
        if target is None or target not in returned_names:
            continue
        n_updates += 1
        key = f"{fn.qual}::update {unparse(node)}"
        # judged per path, on the value the factor has there (helpers and local definitions substituted):
        # a factor that is the constant 1 contributes nothing; every other factor needs the flip test of its node
        guarded = dep = takes_factor = True
        for facts, factor in paths.at(node):
            if factor is not None and isinstance(factor, ast.Constant) and not isinstance(factor.value, bool) and factor.value in {1, 1.0}:
                continue
            flipped, raws = flip_status(facts, fn.qual)
            paths.raws += raws
            guarded = guarded and flipped
            dep = dep and mentions_node(factor)
            takes_factor = takes_factor and any(isinstance(n, ast.Attribute) and n.attr == "parity_prefactor" for n in ast.walk(factor))
        dep = dep and depends_on_loop(value)
        problems = []
        if not guarded:
            problems.append("applied to nodes that were NOT mapped to a partner (not under `mapped != raw`)")
        if not dep:
            problems.append(f"the factor does not depend on `{loop_var}`")
        if not takes_factor:
            if paths.sym.opaque_calls:
                raise AnalysisError(f"{fn.qual}: the factor of `{unparse(node)}` comes out of `{sorted(paths.sym.opaque_calls)[0]}(...)`, which the path analysis could not follow")
            problems.append("the factor is not interaction.parity_prefactor")
        ctx.verdict(not problems, "R-DEPENDS", key, tree.loc(node), f"{fn.qual}: `{unparse(node)}` multiplies the parity factor of exactly the flipped node", problems or None)
    ctx.stats["in_loop_updates"] = n_updates

    # ---- delegation: the loop only COLLECTS the flipped nodes and a helper multiplies their factors
    n_collect = 0
    for node in walk_function(loop):
        coll = None
        if isinstance(node, ast.Call) and isinstance(node.func, ast.Attribute) and node.func.attr in {"append", "add"} and isinstance(node.func.value, ast.Name) and len(node.args) == 1:
            coll, item = node.func.value.id, node.args[0]
        elif isinstance(node, ast.AugAssign) and isinstance(node.op, ast.Add) and isinstance(node.target, ast.Name) and isinstance(node.value, (ast.List, ast.Tuple)) and len(node.value.elts) == 1:
            coll, item = node.target.id, node.value.elts[0]
        if coll is None or coll not in returned_names:
            continue
        n_collect += 1
        key = f"{fn.qual}::collect {unparse(node)}"
        problems = []
        if not paths.flipped_on_every_path(node):
            problems.append("nodes are collected that were NOT mapped to a partner (not under `mapped != raw`)")
        if unparse(item) != loop_var:
            problems.append(f"collects `{unparse(item)}`, not the node `{loop_var}`")
        ctx.verdict(not problems, "R-DEPENDS", key, tree.loc(node), f"{fn.qual}: `{unparse(node)}` collects exactly the flipped nodes", problems or None)
        # every repo function that receives the collection and feeds the result must multiply over exactly that selection
        consumers = 0
        for call in [c for c in walk_function(fn.node) if isinstance(c, ast.Call)]:
            pos = [i for i, a in enumerate(call.args) if isinstance(a, ast.Name) and a.id == coll]
            kws = [k.arg for k in call.keywords if isinstance(k.value, ast.Name) and k.value.id == coll and k.arg]
            if not pos and not kws:
                continue
            callee = tree.callee(call, fn)
            tgt = tree.funcs.get(callee) if callee else None
            if tgt is None:
                if isinstance(call.func, ast.Attribute) and call.func.attr in {"append", "add"}:
                    continue
                raise AnalysisError(f"{fn.qual}: the collected nodes are handed to `{unparse(call.func)}`, which is not a function of the package")
            params = tgt.params[1:] if tgt.cls is not None and tgt.params[:1] in (["self"], ["cls"]) else tgt.params
            pname = kws[0] if kws else params[pos[0]]
            consumers += 1
            check_selection_product(ctx, tree, tgt, pname)
        if not consumers:
            raise AnalysisError(f"{fn.qual}: collected nodes `{coll}` reach the result through an unknown shape")
    if n_updates + n_collect == 0:
        raise AnalysisError(f"{fn.qual}: neither an in-loop product nor a collection of flipped nodes found - the rule would pass vacuously")

    # ---- the raw suffix that is looked up is the suffix of that node
    # (the suffixes that the flip tests on the paths compare - wherever they are computed: in the loop, in a helper)
    lookups = [n for n in walk_function(loop) if is_raw(n)]
    ok = bool(paths.raws or lookups) and all(raw_node(c) is not None and mentions_node(raw_node(c)) and isinstance(raw_node(c), ast.Name) for c in paths.raws)
    ok = ok and all(raw_node(c) is not None and unparse(raw_node(c)) == loop_var for c in lookups)
    ctx.verdict(ok, "R-DEPENDS", f"{fn.qual}::raw-suffix-of-node", tree.loc(loop), f"the raw suffix is generate_two_body_decay_suffix(transition, {loop_var}) of the loop's node")

    ctx.section(check_partner_suffix, ctx, tree)
    ctx.section(check_partner_key_flags, ctx, tree)
    ctx.section(check_daughter_order, ctx, tree)
    # the per-chain components A_{...} are an observation point of the property: they must be the complete
    # chain amplitude including the parity sign (rule shared with C02)
    from .c02 import check_products

    ctx.section(check_products, ctx, tree, symmetrisation=False)  # (the symmetrisation clause of the components belongs to C02)
    # "equivalently ... the Clebsch-Gordan expansion reproduces the canonical intensity": the expansion is the two-CG product of C02
    from .c02 import check_cg

    ctx.section(check_cg, ctx, tree)


def check_partner_suffix(ctx: Check, tree: Tree) -> None:
    cls = tree.cls("ampform.helicity.naming::HelicityAmplitudeNameGenerator")
    couple = cls.methods.get("__generate_amplitude_coefficient_couple")
    if couple is None:
        raise AnalysisError("vanished anchor: __generate_amplitude_coefficient_couple")
    calls = [c for c in walk_function(couple.node) if isinstance(c, ast.Call) and isinstance(c.func, ast.Name) and c.func.id == "_state_to_str"]
    partner_calls = [c for c in calls if any(k.arg == "make_parity_partner" and isinstance(k.value, ast.Constant) and k.value.value is True for k in c.keywords)]
    parent_calls = [c for c in calls if any(k.arg == "use_helicity" and isinstance(k.value, ast.Constant) and k.value.value is False for k in c.keywords)]
    ok = False
    if len(partner_calls) == 1 and len(parent_calls) == 1:
        # the partner call sits in a generator over both outgoing states; incoming/outgoing
        # come from get_helicity_info(transition, node_id) (tuple positions 0 / 1)
        crd = RD(couple.node)
        gen = next((a for a in ancestors(partner_calls[0]) if isinstance(a, ast.GeneratorExp)), None)

        def helicity_info_index(name_node):
            idx = set()
            for d in crd.reaching(name_node) if isinstance(name_node, ast.Name) else ():
                if d.value is not None and "get_helicity_info(" in unparse(d.value):
                    idx.add(d.index)
            return idx

        ok = (
            gen is not None
            and not gen.generators[0].ifs
            and helicity_info_index(gen.generators[0].iter) == {1}
            and helicity_info_index(parent_calls[0].args[0]) == {0}
            and isinstance(gen.generators[0].target, ast.Name)
            and unparse(partner_calls[0].args[0]) == gen.generators[0].target.id
        )
    ctx.verdict(ok, "R-PARTNER", f"{couple.qual}::partner-suffix", tree.loc(couple.node),
                "partner suffix = parent (no helicity) -> both daughters with make_parity_partner=True", None if ok else [unparse(c) for c in calls])
    sts = tree.func("ampform.helicity.naming::_state_to_str")
    # the value rendered as helicity under make_parity_partner / otherwise: `if flag: a else: b`,
    # `if not flag: b else: a` and `a if flag else b` are the same thing
    flag, when = "make_parity_partner", {}
    for n in walk_function(sts.node):
        test = getattr(n, "test", None)
        if not isinstance(n, (ast.If, ast.IfExp)) or test is None:
            continue
        positive = unparse(test) == flag
        negative = isinstance(test, ast.UnaryOp) and isinstance(test.op, ast.Not) and unparse(test.operand) == flag
        if not (positive or negative):
            continue
        if isinstance(n, ast.IfExp):
            a, b = n.body, n.orelse
        elif len(n.body) == 1 and len(n.orelse) == 1 and all(isinstance(x, ast.Assign) for x in (n.body[0], n.orelse[0])) and unparse(n.body[0].targets[0]) == unparse(n.orelse[0].targets[0]):
            a, b = n.body[0].value, n.orelse[0].value
        else:
            continue
        when = {True: a, False: b} if positive else {True: b, False: a}
    ok = bool(when) and unparse(when[True]).replace(" ", "") in {"-1*state.spin_projection", "-state.spin_projection", "state.spin_projection*-1"} and unparse(when[False]) == "state.spin_projection"
    ctx.verdict(ok, "R-PARTNER", f"{sts.qual}::negated-helicity", tree.loc(sts.node), "_state_to_str: make_parity_partner renders the negated helicity, otherwise the helicity itself")
    seq = cls.methods.get("generate_sequential_amplitude_suffix")
    if seq is None:
        raise AnalysisError("vanished anchor: generate_sequential_amplitude_suffix")
    # on every path the result is `sep.join(...)` over ALL nodes (one element per node, no filter) of the
    # coefficient suffix of the node: mapping.get(raw, raw) == (mapping[raw] if raw in mapping else raw)
    problems = []
    for st, value in PathFacts(tree, seq).finals:
        ats = atoms(st.facts)
        joined = value.args[0] if (isinstance(value, ast.Call) and isinstance(value.func, ast.Attribute) and value.func.attr == "join"
                                   and isinstance(value.func.value, ast.Constant) and len(value.args) == 1 and not value.keywords) else None
        if not _is_seq(joined):
            problems.append(f"returns `{unparse(value)[:120]}`, not a separator joined over the nodes")
            continue
        gen = joined.generators[0]
        if not unparse(gen.iter).endswith("topology.nodes"):
            problems.append(f"the joined sequence ranges over `{unparse(gen.iter)}`, not over transition.topology.nodes")
        if gen.ifs:
            problems.append(f"not every node contributes exactly one suffix: {', '.join(unparse(c) for c in gen.ifs)}")
        elt = joined.elt
        raw = elt if is_raw(elt) else elt.slice if isinstance(elt, ast.Subscript) else elt.args[0] if isinstance(elt, ast.Call) and elt.args else None
        if raw is None or not is_raw(raw) or raw_node(raw) is None or not _same(raw_node(raw), ast.Name(id=gen.target.id, ctx=ast.Load())):
            problems.append(f"the element `{unparse(elt)[:120]}` is not derived from the raw suffix of the node")
        elif elt is raw:
            if registered(raw, ats) is not False:
                problems.append("the raw suffix of a node is used although it may be registered with a partner (not mapped)")
        elif isinstance(elt, ast.Subscript):
            if not (mapped_value(elt, raw, ats) and registered(raw, ats) is True):
                problems.append(f"`{unparse(elt)[:120]}` on a path where the suffix is not known to be registered")
        elif not (mapped_value(elt, raw, ats) and len(elt.args) == 2):
            problems.append(f"`{unparse(elt)[:120]}` is not the mapped suffix with the raw suffix as fallback")
    ctx.verdict(not problems, "R-PARTNER", f"{seq.qual}::maps-each-node", tree.loc(seq.node), "generate_sequential_amplitude_suffix maps the suffix of every node through the partner mapping",
                sorted(set(problems)) or None)
    check_mapping_accessor(ctx, tree, cls)
    reg = cls.methods.get("__register_amplitude_coefficient_name")
    conts = [n for n in walk_function(reg.node) if isinstance(n, ast.If) and "parity_prefactor is None" in unparse(n.test) and any(isinstance(s, ast.Continue) for s in n.body)]
    ctx.verdict(len(conts) == 1, "R-PARTNER", f"{reg.qual}::only-parity-nodes", tree.loc(reg.node), "only nodes with a parity prefactor take part in the partner mapping")


def check_mapping_accessor(ctx: Check, tree: Tree, cls) -> None:
    """R-PARTNER: the mapping the builder reads through `naming.parity_partner_coefficient_mapping` is the one
    the names are generated from.  `_register_amplitude_coefficients` RE-BINDS the private attribute whenever
    a naming flag changes, so an accessor that memoises its result keeps answering with the mapping of an
    earlier configuration: coefficient names follow the new mapping, the parity signs the old one."""
    private = lambda n: isinstance(n, ast.Attribute) and n.attr.startswith("_") and is_mapping(n) and isinstance(n.value, ast.Name) and n.value.id == "self"  # noqa: E731
    accessors = [c.methods[MAPPING] for c in [cls, *tree.subclasses(cls)] if MAPPING in c.methods]
    if not accessors:
        raise AnalysisError(f"vanished anchor: {cls.qual}.{MAPPING}")
    # is the attribute re-bound after construction?  (a method other than __init__ stores it and is called by a method other than __init__)
    family = [cls, *tree.subclasses(cls)]
    called_after_init = {q for c in family for g in c.methods.values() if g.name != "__init__" for _, q in tree.calls_in(g) if q}
    rebinders = []
    for c in family:
        for m in c.methods.values():
            stores = [n for n in walk_function(m.node) if isinstance(n, (ast.Assign, ast.AnnAssign)) and getattr(n, "value", None) is not None
                      and any(private(t) for t in (n.targets if isinstance(n, ast.Assign) else [n.target]))]
            if stores and m.name != "__init__" and (m.qual in called_after_init or not m.name.startswith("_")):
                rebinders.append(m)
    for acc in accessors:
        decorators = [unparse(d) for d in acc.node.decorator_list]
        memoised = [d for d in decorators if "cache" in d.lower()]
        key = f"{acc.qual}::live-mapping"
        if memoised and rebinders:
            ctx.violation("R-PARTNER", key, tree.loc(acc.node),
                          f"the accessor `{MAPPING}` is memoised (`@{memoised[0]}`) but `{rebinders[0].name}` re-binds the mapping whenever a naming flag changes: the builder keeps reading the mapping of an earlier configuration while the coefficient names follow the new one",
                          {"re-bound in": [tree.loc(m.node) for m in rebinders][:3]})
            continue
        if set(decorators) - {"property", "override", "typing.override"} - set(memoised):
            raise AnalysisError(f"{acc.qual}: unknown decorator(s) {decorators} on the accessor of the partner mapping")
        values = [v for _, v in PathFacts(tree, acc).finals]
        live = all(any(private(n) for n in ast.walk(v)) for v in values)
        if not live:
            raise AnalysisError(f"{acc.qual}: returns `{unparse(values[0])[:100]}` - cannot decide whether that is the current partner mapping")
        ctx.ok("R-PARTNER", tree.loc(acc.node), f"{acc.qual}: every read of `{MAPPING}` evaluates the current `self.__{MAPPING}` (not memoised" + (", never re-bound)" if not rebinders else ")"))
