"""C03 - parity partners carry exactly the parity sign of the flipped nodes.

R-DEPENDS  the prefactor attached to a chain depends on the node(s) whose coefficient was
           mapped to a partner: every contribution is control-dependent on the per-node test
           "mapped suffix != raw suffix" and data-dependent on that node.
R-PARTNER  the partner suffix reverses both daughter helicities and suppresses the parent's.
"""

from __future__ import annotations

import ast

from ..dataflow import RD, Def
from ..loader import AnalysisError, FuncInfo, Tree, ancestors, unparse, walk_function
from ..report import Check

PID = "C03"
BUILDER = "ampform.helicity::HelicityAmplitudeBuilder"
MAPPING = "parity_partner_coefficient_mapping"


def locate_prefactor_function(tree: Tree) -> FuncInfo:
    """The function whose result is multiplied into the sequential amplitude and that reads the
    parity-partner mapping (found from the dataflow of __formulate_sequential_decay, not by name)."""
    seq = tree.func(f"{BUILDER}.__formulate_sequential_decay")
    rd = RD(seq.node)
    candidates = []
    sources: list[ast.AST] = []
    for node in walk_function(seq.node):
        if isinstance(node, ast.AugAssign) and isinstance(node.op, ast.Mult):
            sources.append(node.value)
        if isinstance(node, ast.BinOp) and isinstance(node.op, ast.Mult):
            sources += [node.left, node.right]
    for src in sources:
        for d in rd.closure(rd.uses(src)):
            if d.value is not None and isinstance(d.value, ast.Call):
                callee = tree.callee(d.value, seq)
                if callee in tree.funcs:
                    candidates.append(tree.funcs[callee])
    for f in candidates:
        if any(isinstance(n, ast.Attribute) and n.attr == MAPPING for n in walk_function(f.node)):
            return f
    raise AnalysisError("vanished anchor: no function that reads parity_partner_coefficient_mapping is multiplied into the sequential amplitude")


def node_loops(fn: FuncInfo) -> list[ast.For]:
    return [n for n in walk_function(fn.node) if isinstance(n, ast.For) and unparse(n.iter).endswith("topology.nodes")]


def is_flip_test(test: ast.AST, rd: RD) -> bool:
    """`mapped != raw` where one side derives from the partner mapping."""
    for c in ast.walk(test):
        if isinstance(c, ast.Compare) and len(c.ops) == 1 and isinstance(c.ops[0], ast.NotEq):
            sides = [c.left, c.comparators[0]]
            derives = []
            for s in sides:
                txt = unparse(s) + "".join(unparse(d.value) for d in rd.closure(rd.uses(s)) if d.value is not None)
                derives.append(MAPPING in txt)
            if any(derives):
                return True
    return False


def under_flip_test(node: ast.AST, loop: ast.For, rd: RD) -> bool:
    child = node
    for a in ancestors(node):
        if a is loop:
            return False
        if isinstance(a, ast.If) and any(child is s or any(x is child for x in ast.walk(s)) for s in a.body) and is_flip_test(a.test, rd):
            return True
        child = a
    return False


def check_selection_product(ctx: Check, tree: Tree, fn: FuncInfo, param: str) -> None:
    """The helper multiplies interaction.parity_prefactor over EXACTLY the nodes in ``param``."""
    rd = RD(fn.node)
    loops = [n for n in walk_function(fn.node) if isinstance(n, ast.For)]
    key = f"{fn.qual}::product-over-selection"
    if len(loops) != 1:
        raise AnalysisError(f"{fn.qual}: expected one loop over the selected nodes, found {len(loops)}")
    loop = loops[0]
    it = loop.iter
    exact = isinstance(it, ast.Name) and it.id == param and all(d.kind == "param" for d in rd.reaching(it))
    problems = []
    if not exact:
        if isinstance(it, ast.BoolOp) or isinstance(it, ast.IfExp):
            problems.append(f"iterates `{unparse(it)}`: an EMPTY selection (a chain without flipped node) falls back to another node set")
        else:
            problems.append(f"iterates `{unparse(it)}`, not exactly the selection `{param}`")
    var = unparse(loop.target)
    upd = [n for n in walk_function(loop) if isinstance(n, ast.AugAssign) and isinstance(n.op, ast.Mult)]
    if not upd:
        problems.append("no product update in the loop")
    for u in upd:
        txt = unparse(u.value) + "".join(unparse(d.value) for d in rd.closure(rd.uses(u.value)) if d.value is not None)
        loop_defs = {d for d in rd.defs if d.kind == "for" and d.node is loop}
        if "parity_prefactor" not in txt or not (rd.closure(rd.uses(u.value)) & loop_defs):
            problems.append(f"`{unparse(u)}` is not the parity factor of the node `{var}`")
    ctx.verdict(not problems, "R-DEPENDS", key, tree.loc(loop), f"{fn.qual}: product of interaction.parity_prefactor over exactly the nodes in `{param}`", problems or None)


def check_daughter_order(ctx: Check, tree: Tree) -> None:
    """R-PARTNER: the order in which the two daughters appear in a coefficient name must not depend
    on their helicities - otherwise (+l, -l) and (-l, +l) of two identical daughters get the same
    name (one coefficient, relative factor +1 instead of eta).  get_sorted_states sorts by particle
    name only; ties keep the order of the state ids (sorted() is stable)."""
    fn = tree.func("ampform.helicity.decay::get_sorted_states")
    calls = [c for c in walk_function(fn.node) if isinstance(c, ast.Call) and unparse(c.func) == "sorted"]
    problems = []
    if len(calls) != 1:
        raise AnalysisError(f"{fn.qual}: expected one sorted(...) call")
    key = next((k.value for k in calls[0].keywords if k.arg == "key"), None)
    if key is None:
        problems.append("no sort key: State objects are ordered by all their fields, including the spin projection")
    else:
        body = key.body if isinstance(key, ast.Lambda) else key
        attrs = {n.attr for n in ast.walk(body) if isinstance(n, ast.Attribute)}
        if attrs & {"spin_projection", "helicity"}:
            problems.append(f"the sort key `{unparse(body)}` depends on the spin projection")
        if "name" not in attrs and "latex" not in attrs:
            problems.append(f"the sort key `{unparse(body)}` is not the particle name")
    ctx.verdict(not problems, "R-PARTNER", f"{fn.qual}::order-independent-of-helicity", tree.loc(fn.node),
                "get_sorted_states orders the daughters by particle name only (never by helicity)", problems or None)


def check_partner_key_flags(ctx: Check, tree: Tree) -> None:
    """R-PARTNER (flags): which chains share a coefficient AND whether a chain is the flipped partner
    are both decided by comparing strings: the chain's own suffix (generate_two_body_decay_suffix) with
    the partner suffix that __generate_amplitude_coefficient_couple builds.  The partner suffix always
    carries the daughter helicities and a plain arrow.  An own suffix whose daughter helicities or whose
    arrow depend on a *display* flag changes the physics with the flag:
      - daughters without helicities: reversed chains collapse onto one name and are never recognised as
        partners - one coefficient, no parity sign;
      - canonical names with a plain arrow: the partner IS recognised and the prefactor is applied on top
        of the Clebsch-Gordan coefficients that already carry the parity relation.
    (insert_parent_helicities only splits coefficients - chains that do not share a coefficient are
    outside the premise of the property - and is exempt.)"""
    mod = "ampform.helicity.naming"
    couple = tree.func(f"{mod}::HelicityAmplitudeNameGenerator.__generate_amplitude_coefficient_couple")
    own_calls = [c for c in walk_function(couple.node) if isinstance(c, ast.Call) and unparse(c.func).endswith("generate_two_body_decay_suffix")]
    if not own_calls:
        raise AnalysisError(f"{couple.qual}: the own suffix is no longer generate_two_body_decay_suffix(...) - rule shape unknown")
    # every implementation (overrides included) on the own-suffix path
    names = {"generate_two_body_decay_suffix", "_get_coefficient_components"}
    path = sorted((q for q, f in tree.funcs.items() if q.startswith(mod + "::") and f.name in names and f.cls is not None), key=str)
    if len(path) < 3:
        raise AnalysisError(f"only {len(path)} implementations on the own-suffix path (3 confirmed: generate_two_body_decay_suffix and two _get_coefficient_components)")
    exempt = {"insert_parent_helicities": "only adds the parent's helicity to the own name: chains stop sharing a coefficient, none shares one without the sign"}
    found: dict[str, list] = {}
    for q in path:
        fn = tree.funcs[q]
        for n in walk_function(fn.node):
            if isinstance(n, ast.Attribute) and isinstance(n.value, ast.Name) and n.value.id == "self":
                flag = n.attr.split("__")[-1]
                if flag.startswith("insert_"):
                    found.setdefault(flag, []).append((fn, n))
    ctx.stats["display_flags_on_partner_key_path"] = len(found)
    if not found:
        ctx.ok("R-PARTNER", tree.loc(couple.node), "the suffix that decides coefficient sharing and the parity flip does not depend on a display flag")
    for flag, sites in sorted(found.items()):
        fn, node = sites[0]
        key = f"{couple.qual}::partner-key-depends-on-display-flag::{flag}"
        if flag in exempt:
            ctx.ok("R-PARTNER", tree.loc(node), f"display flag `{flag}` enters the own suffix: {exempt[flag]}")
            continue
        ctx.violation("R-PARTNER", key, tree.loc(node),
                      f"the own suffix compared with the partner suffix depends on the display flag `{flag}` ({fn.qual.split('::')[-1]}): with the non-default value, chains that differ by reversing the daughter helicities share a coefficient without / with a doubled parity sign",
                      {"read at": [tree.loc(n_) for _, n_ in sites][:3], "partner suffix": "always `parent -> child_{-l1} child_{-l2}` (helicities, plain arrow)"})


def run(ctx: Check, tree: Tree) -> None:
    ctx.decided += [
        'R-PARTNER (display flags): the strings that decide coefficient sharing and the parity flip do not depend on display flags of the name generator',
        "R-DEPENDS: every non-trivial value returned by the parity-prefactor function depends on the node loop variable, and every contribution inside the node loop is guarded by the per-node test `mapped suffix != raw suffix` and takes the parity factor of that node",
        "R-TERM (shared with C02): the canonical expansion used by the equivalence clause is CG(L,0;S,d|J,d) * CG(s1,l1;s2,-l2|S,d) on every path",
        "R-PARTNER: the partner suffix is built with make_parity_partner=True for both daughters and without the parent helicity; _state_to_str negates the helicity; each node suffix is mapped through the partner mapping",
    ]
    ctx.not_decided += ["equivalence with the canonical formalism for all LS coefficient values (numerical)", "which interactions qrules marks with a parity prefactor"]
    ctx.assumptions += ["qrules InteractionProperties.parity_prefactor is eta = P P1 P2 (-1)^(J-s1-s2) of that node"]
    fn = locate_prefactor_function(tree)
    rd = RD(fn.node)
    loops = node_loops(fn)
    if not loops:
        # no per-node decision at all: whatever is returned cannot know which nodes were flipped
        n_ret = 0
        for ret, _ in rd.returns:
            if ret.value is None or (isinstance(ret.value, ast.Constant) and ret.value.value is None):
                continue
            n_ret += 1
            ctx.violation("R-DEPENDS", f"{fn.qual}::return {unparse(ret.value)}", tree.loc(ret),
                          f"{fn.qual}: `{unparse(ret)}` is computed without looking at the individual nodes of the chain (no loop over transition.topology.nodes)",
                          "a value computed from the whole transition (the product over ALL nodes) cannot tell which node was flipped: for two parity-constrained nodes of unlike eta of which one is flipped the chain gets the wrong sign")
        if not n_ret:
            raise AnalysisError(f"{fn.qual}: no loop over the nodes and no non-None return")
        ctx.section(check_partner_suffix, ctx, tree)
        ctx.section(check_partner_key_flags, ctx, tree)
        return
    if len(loops) != 1:
        raise AnalysisError(f"{fn.qual}: expected one loop over transition.topology.nodes, found {len(loops)}")
    loop = loops[0]
    loop_defs = {d for d in rd.defs if d.kind == "for" and d.node is loop}
    loop_var = unparse(loop.target)

    def depends_on_loop(expr: ast.AST) -> bool:
        return bool(rd.closure(rd.uses(expr)) & loop_defs)

    # ---- returns
    n_checked = 0
    for ret, _ in rd.returns:
        if ret.value is None or (isinstance(ret.value, ast.Constant) and ret.value.value is None):
            continue
        n_checked += 1
        key = f"{fn.qual}::return {unparse(ret.value)}"
        dep = depends_on_loop(ret.value)
        deps_txt = sorted({d.name for d in rd.closure(rd.uses(ret.value))})
        if not dep:
            ctx.violation(
                "R-DEPENDS", key, tree.loc(ret),
                f"{fn.qual}: `{unparse(ret)}` does not depend on the node `{loop_var}` whose coefficient was mapped to its partner (depends on {deps_txt} only)",
                "a value computed from the whole transition (the product over ALL nodes) cannot tell which node was flipped: for two parity-constrained nodes of unlike eta of which one is flipped the chain gets the wrong sign",
            )
            continue
        inside = any(a is loop for a in ancestors(ret))
        if inside:
            ok = under_flip_test(ret, loop, rd)
            ctx.verdict(ok, "R-DEPENDS", key + "::guard", tree.loc(ret), f"{fn.qual}: in-loop `{unparse(ret)}` is guarded by the flip test of that node",
                        None if ok else "returned for a node that was not mapped to a partner")
        else:
            ctx.ok("R-DEPENDS", tree.loc(ret), f"{fn.qual}: `{unparse(ret)}` depends on the node loop variable `{loop_var}`")
    if n_checked == 0:
        raise AnalysisError(f"{fn.qual}: no non-None return")
    # the product is handed out whenever it is not 1: `None` (no prefactor) only stands for +1
    for ret, _ in rd.returns:
        if ret.value is None or (isinstance(ret.value, ast.Constant) and ret.value.value is None):
            continue
        if any(a is loop for a in ancestors(ret)):
            continue
        guards = [a for a in ancestors(ret) if isinstance(a, ast.If)]
        for g in guards:
            t = g.test
            acc = [n.id for n in ast.walk(ret.value) if isinstance(n, ast.Name)]
            ok_t = (isinstance(t, ast.Compare) and len(t.ops) == 1 and isinstance(t.ops[0], ast.NotEq) and isinstance(t.comparators[0], ast.Constant)
                    and t.comparators[0].value in {1, 1.0} and isinstance(t.left, ast.Name) and t.left.id in acc)
            ctx.verdict(ok_t, "R-DEPENDS", f"{fn.qual}::returned-iff-not-one", tree.loc(g),
                        f"the accumulated prefactor is returned under `{unparse(t)}` - whenever it differs from 1 (None stands for +1 only)",
                        None if ok_t else "a product of -1 would be answered with None: the chain loses its parity sign")

    # ---- contributions inside the loop: accumulator updates that reach a return
    returned_names = set()
    for ret, _ in rd.returns:
        if ret.value is not None:
            returned_names |= {d.name for d in rd.closure(rd.uses(ret.value))}
    n_updates = 0
    for node in walk_function(loop):
        target = None
        value = None
        if isinstance(node, ast.AugAssign) and isinstance(node.target, ast.Name):
            target, value = node.target.id, node.value
        elif isinstance(node, ast.Assign) and len(node.targets) == 1 and isinstance(node.targets[0], ast.Name):
            t = node.targets[0].id
            if any(isinstance(n, ast.Name) and n.id == t for n in ast.walk(node.value)):
                target, value = t, node.value
        if target is None or target not in returned_names:
            continue
        n_updates += 1
        key = f"{fn.qual}::update {unparse(node)}"
        guarded = under_flip_test(node, loop, rd)
        dep = depends_on_loop(value)
        txt = unparse(value) + "".join(unparse(d.value) for d in rd.closure(rd.uses(value)) if d.value is not None)
        takes_factor = "parity_prefactor" in txt
        problems = []
        if not guarded:
            problems.append("applied to nodes that were NOT mapped to a partner (not under `mapped != raw`)")
        if not dep:
            problems.append(f"the factor does not depend on `{loop_var}`")
        if not takes_factor:
            problems.append("the factor is not interaction.parity_prefactor")
        ctx.verdict(not problems, "R-DEPENDS", key, tree.loc(node), f"{fn.qual}: `{unparse(node)}` multiplies the parity factor of exactly the flipped node", problems or None)
    ctx.stats["in_loop_updates"] = n_updates

    # ---- delegation: the loop only COLLECTS the flipped nodes and a helper multiplies their factors
    n_collect = 0
    for node in walk_function(loop):
        coll = None
        if isinstance(node, ast.Call) and isinstance(node.func, ast.Attribute) and node.func.attr in {"append", "add"} and isinstance(node.func.value, ast.Name) and len(node.args) == 1:
            coll, item = node.func.value.id, node.args[0]
        elif isinstance(node, ast.AugAssign) and isinstance(node.op, ast.Add) and isinstance(node.target, ast.Name) and isinstance(node.value, (ast.List, ast.Tuple)) and len(node.value.elts) == 1:
            coll, item = node.target.id, node.value.elts[0]
        if coll is None or coll not in returned_names:
            continue
        n_collect += 1
        key = f"{fn.qual}::collect {unparse(node)}"
        problems = []
        if not under_flip_test(node, loop, rd):
            problems.append("nodes are collected that were NOT mapped to a partner (not under `mapped != raw`)")
        if unparse(item) != loop_var:
            problems.append(f"collects `{unparse(item)}`, not the node `{loop_var}`")
        ctx.verdict(not problems, "R-DEPENDS", key, tree.loc(node), f"{fn.qual}: `{unparse(node)}` collects exactly the flipped nodes", problems or None)
        # every repo function that receives the collection and feeds the result must multiply over exactly that selection
        consumers = 0
        for call in [c for c in walk_function(fn.node) if isinstance(c, ast.Call)]:
            pos = [i for i, a in enumerate(call.args) if isinstance(a, ast.Name) and a.id == coll]
            kws = [k.arg for k in call.keywords if isinstance(k.value, ast.Name) and k.value.id == coll and k.arg]
            if not pos and not kws:
                continue
            callee = tree.callee(call, fn)
            tgt = tree.funcs.get(callee) if callee else None
            if tgt is None:
                if isinstance(call.func, ast.Attribute) and call.func.attr in {"append", "add"}:
                    continue
                raise AnalysisError(f"{fn.qual}: the collected nodes are handed to `{unparse(call.func)}`, which is not a function of the package")
            params = tgt.params[1:] if tgt.cls is not None and tgt.params[:1] in (["self"], ["cls"]) else tgt.params
            pname = kws[0] if kws else params[pos[0]]
            consumers += 1
            check_selection_product(ctx, tree, tgt, pname)
        if not consumers:
            raise AnalysisError(f"{fn.qual}: collected nodes `{coll}` reach the result through an unknown shape")
    if n_updates + n_collect == 0:
        raise AnalysisError(f"{fn.qual}: neither an in-loop product nor a collection of flipped nodes found - the rule would pass vacuously")

    # ---- the raw suffix that is looked up is the suffix of that node
    lookups = [n for n in walk_function(loop) if isinstance(n, ast.Call) and isinstance(n.func, ast.Attribute) and n.func.attr == "generate_two_body_decay_suffix"]
    ok = bool(lookups) and all(len(c.args) == 2 and unparse(c.args[1]) == loop_var for c in lookups)
    ctx.verdict(ok, "R-DEPENDS", f"{fn.qual}::raw-suffix-of-node", tree.loc(loop), f"the raw suffix is generate_two_body_decay_suffix(transition, {loop_var}) of the loop's node")

    ctx.section(check_partner_suffix, ctx, tree)
    ctx.section(check_partner_key_flags, ctx, tree)
    ctx.section(check_daughter_order, ctx, tree)
    # the per-chain components A_{...} are an observation point of the property: they must be the complete
    # chain amplitude including the parity sign (rule shared with C02)
    from .c02 import check_products

    ctx.section(check_products, ctx, tree, symmetrisation=False)  # (the symmetrisation clause of the components belongs to C02)
    # "equivalently ... the Clebsch-Gordan expansion reproduces the canonical intensity": the expansion is the two-CG product of C02
    from .c02 import check_cg

    ctx.section(check_cg, ctx, tree)


def check_partner_suffix(ctx: Check, tree: Tree) -> None:
    cls = tree.cls("ampform.helicity.naming::HelicityAmplitudeNameGenerator")
    couple = cls.methods.get("__generate_amplitude_coefficient_couple")
    if couple is None:
        raise AnalysisError("vanished anchor: __generate_amplitude_coefficient_couple")
    calls = [c for c in walk_function(couple.node) if isinstance(c, ast.Call) and isinstance(c.func, ast.Name) and c.func.id == "_state_to_str"]
    partner_calls = [c for c in calls if any(k.arg == "make_parity_partner" and isinstance(k.value, ast.Constant) and k.value.value is True for k in c.keywords)]
    parent_calls = [c for c in calls if any(k.arg == "use_helicity" and isinstance(k.value, ast.Constant) and k.value.value is False for k in c.keywords)]
    ok = False
    if len(partner_calls) == 1 and len(parent_calls) == 1:
        # the partner call sits in a generator over both outgoing states; incoming/outgoing
        # come from get_helicity_info(transition, node_id) (tuple positions 0 / 1)
        crd = RD(couple.node)
        gen = next((a for a in ancestors(partner_calls[0]) if isinstance(a, ast.GeneratorExp)), None)

        def helicity_info_index(name_node):
            idx = set()
            for d in crd.reaching(name_node) if isinstance(name_node, ast.Name) else ():
                if d.value is not None and "get_helicity_info(" in unparse(d.value):
                    idx.add(d.index)
            return idx

        ok = (
            gen is not None
            and not gen.generators[0].ifs
            and helicity_info_index(gen.generators[0].iter) == {1}
            and helicity_info_index(parent_calls[0].args[0]) == {0}
            and isinstance(gen.generators[0].target, ast.Name)
            and unparse(partner_calls[0].args[0]) == gen.generators[0].target.id
        )
    ctx.verdict(ok, "R-PARTNER", f"{couple.qual}::partner-suffix", tree.loc(couple.node),
                "partner suffix = parent (no helicity) -> both daughters with make_parity_partner=True", None if ok else [unparse(c) for c in calls])
    sts = tree.func("ampform.helicity.naming::_state_to_str")
    # the value rendered as helicity under make_parity_partner / otherwise: `if flag: a else: b`,
    # `if not flag: b else: a` and `a if flag else b` are the same thing
    flag, when = "make_parity_partner", {}
    for n in walk_function(sts.node):
        test = getattr(n, "test", None)
        if not isinstance(n, (ast.If, ast.IfExp)) or test is None:
            continue
        positive = unparse(test) == flag
        negative = isinstance(test, ast.UnaryOp) and isinstance(test.op, ast.Not) and unparse(test.operand) == flag
        if not (positive or negative):
            continue
        if isinstance(n, ast.IfExp):
            a, b = n.body, n.orelse
        elif len(n.body) == 1 and len(n.orelse) == 1 and all(isinstance(x, ast.Assign) for x in (n.body[0], n.orelse[0])) and unparse(n.body[0].targets[0]) == unparse(n.orelse[0].targets[0]):
            a, b = n.body[0].value, n.orelse[0].value
        else:
            continue
        when = {True: a, False: b} if positive else {True: b, False: a}
    ok = bool(when) and unparse(when[True]).replace(" ", "") in {"-1*state.spin_projection", "-state.spin_projection", "state.spin_projection*-1"} and unparse(when[False]) == "state.spin_projection"
    ctx.verdict(ok, "R-PARTNER", f"{sts.qual}::negated-helicity", tree.loc(sts.node), "_state_to_str: make_parity_partner renders the negated helicity, otherwise the helicity itself")
    seq = cls.methods.get("generate_sequential_amplitude_suffix")
    loops = node_loops(seq)
    ok = len(loops) == 1
    if ok:
        from ..canon import canon

        loop = loops[0]
        body = canon(loop, seq.node)
        # for _0 in transition.topology.nodes: _1 = suffix(transition, _0); if _1 in mapping: _1 = mapping[_1]; _2.append(_1)
        ok = (
            "self.generate_two_body_decay_suffix(transition, _0)" in body
            and f"_1 = self.{MAPPING}[_1]" in body
            and "_2.append(_1)" in body
            and not any(isinstance(n, (ast.Continue, ast.Break)) for n in walk_function(loop))
        )
    ctx.verdict(ok, "R-PARTNER", f"{seq.qual}::maps-each-node", tree.loc(seq.node), "generate_sequential_amplitude_suffix maps the suffix of every node through the partner mapping")
    reg = cls.methods.get("__register_amplitude_coefficient_name")
    conts = [n for n in walk_function(reg.node) if isinstance(n, ast.If) and "parity_prefactor is None" in unparse(n.test) and any(isinstance(s, ast.Continue) for s in n.body)]
    ctx.verdict(len(conts) == 1, "R-PARTNER", f"{reg.qual}::only-parity-nodes", tree.loc(reg.node), "only nodes with a parity prefactor take part in the partner mapping")
