"""C03 - parity partners carry exactly the parity sign of the flipped nodes.

R-DEPENDS  the prefactor attached to a chain is a PRODUCT over the nodes of the chain in which every
           contribution is control-dependent on the per-node test "mapped suffix != raw suffix" of
           exactly that node and is the parity factor of exactly that node.
R-PARTNER  the partner suffix reverses both daughter helicities and suppresses the parent's.

Nothing is decided on the text of the functions.  ``SymExec`` below executes a function symbolically for
one generic iteration of every loop (forking at every ``if``), substitutes local definitions and the
bodies of package helpers (methods, module functions, nested closures, generator functions) into the
branch conditions and values, and brings the different spellings of "a sequence" and "a product" into
one normal form each:

* sequences:  ``[f(x) for x in S]``, ``list(f(x) for x in S)``, ``a = []; for x in S: a.append(f(x))``,
  ``map(f, S)``, ``filter(p, S)``, a generator function that yields ``f(x)`` in a loop over ``S``;
* products:   ``p = 1; for x in S: p *= f(x)`` (also ``p = p * f(x)`` / ``p = f(x) * p``),
  ``functools.reduce(operator.mul, SEQ, 1)``, ``math.prod(SEQ, start=1)``, ``sp.Mul(*SEQ)``, ``sp.prod(SEQ)``.

The rules then read VALUES and PATH FACTS.  Every rule is three-valued: it reports a violation only with
positive evidence (the construct was understood and the necessary condition is broken on a path); a value,
condition or helper that the execution could not interpret is an ``AnalysisError`` ("cannot decide").
"""

from __future__ import annotations

import ast
import builtins
import copy

from ..dataflow import MUTATORS
from ..loader import AnalysisError, FuncInfo, Tree, _local_names, ancestors, unparse, walk_function
from ..report import Check

PID = "C03"
BUILDER = "ampform.helicity::HelicityAmplitudeBuilder"
MAPPING = "parity_partner_coefficient_mapping"
RAW_SUFFIX = "generate_two_body_decay_suffix"


def locate_prefactor_function(tree: Tree) -> FuncInfo:
    """The function whose result is multiplied into the sequential amplitude and that reads the
    parity-partner mapping (found from the dataflow of __formulate_sequential_decay, not by name)."""
    from ..dataflow import RD

    seq = tree.func(f"{BUILDER}.__formulate_sequential_decay")
    reads = lambda g: any(isinstance(n, ast.Attribute) and n.attr.split("__")[-1] == MAPPING for n in walk_function(g.node))  # noqa: E731

    def reads_through_helper(f: FuncInfo) -> bool:
        # ... reads it in a helper extracted from it (a function of the same module that it calls; the name
        # generator, which reads the mapping for the coefficient NAME, lives in another module)
        seen, todo = {f.qual}, [f]
        while todo:
            g = todo.pop()
            used = [q for _, q in tree.calls_in(g)]
            for n in walk_function(g.node):  # (properties of the class that are read through `self`)
                if isinstance(n, ast.Attribute) and isinstance(n.value, ast.Name) and n.value.id == "self":
                    used.append(tree.resolve(g.module, n, g))
            for q in used:
                h = tree.funcs.get(q) if q else None
                if h is not None and h.qual not in seen and h.module is f.module:
                    seen.add(h.qual)
                    todo.append(h)
                    if reads(h):
                        return True
        return False

    # the multiplications of the function itself, then of the helpers (same module, two levels) extracted from it
    level, seen_scan = [seq], {seq.qual}
    for _depth in range(3):
        candidates: list[FuncInfo] = []
        nxt: list[FuncInfo] = []
        for g in level:
            rd = RD(g.node)
            sources: list[ast.AST] = []
            for node in walk_function(g.node):
                if isinstance(node, ast.AugAssign) and isinstance(node.op, ast.Mult):
                    sources.append(node.value)
                if isinstance(node, ast.BinOp) and isinstance(node.op, ast.Mult):
                    sources += [node.left, node.right]
            for src in sources:
                for d in rd.closure(rd.uses(src)):
                    if d.value is not None and isinstance(d.value, ast.Call):
                        callee = tree.callee(d.value, g)
                        if callee in tree.funcs and tree.funcs[callee] not in candidates:
                            candidates.append(tree.funcs[callee])
                for c in ast.walk(src):  # (a factor that is the call itself: `expression * self.__prefactor(t)`)
                    if isinstance(c, ast.Call):
                        callee = tree.callee(c, g)
                        if callee in tree.funcs and tree.funcs[callee] not in candidates:
                            candidates.append(tree.funcs[callee])
            for _, q in tree.calls_in(g):
                h = tree.funcs.get(q) if q else None
                if h is not None and h.qual not in seen_scan and h.module is seq.module and h.name.startswith("_"):
                    seen_scan.add(h.qual)
                    nxt.append(h)
        for f in candidates:
            if reads(f):
                return f
        for f in candidates:
            if reads_through_helper(f):
                return f
        level = nxt
    raise AnalysisError("vanished anchor: no function that reads parity_partner_coefficient_mapping is multiplied into the sequential amplitude")


# ============================================================================ symbolic execution
class _Unsupported(Exception):
    """A statement the symbolic execution does not model (the caller fails closed)."""


class _State:
    """One path: ``env`` (local name -> symbolic value of the CURRENT frame), the branch ``facts``
    (condition, outcome) met so far (all frames, in terms of the entry function); ``reached``: for every
    simple statement that was executed (any frame) the number of facts known at that point and the symbolic
    value of its right-hand side; ``stores``: container stores ``c[k] = v`` / ``c.update(..)`` with the
    symbolic container; ``early``: loops that were left early on this path (site, how); ``imprecise``:
    constructs on this path whose effect on the facts is only approximated (a rule must not report a
    violation that rests on the ABSENCE of a fact on such a path)."""

    __slots__ = ("env", "facts", "reached", "appends", "stores", "early", "imprecise", "last_return", "top_return")

    def __init__(self) -> None:
        self.env: dict = {}
        self.facts: list[tuple[ast.AST, bool]] = []
        self.reached: list[tuple[int, int, ast.AST | None]] = []
        self.appends: dict[str, list[ast.AST]] = {}
        self.stores: list[tuple[ast.AST, int, ast.stmt]] = []
        self.early: list[tuple[str, str]] = []
        self.imprecise: list[str] = []
        self.last_return: ast.stmt | None = None
        self.top_return: ast.stmt | None = None

    def fork(self) -> "_State":
        new = _State()
        new.env = dict(self.env)
        new.facts = list(self.facts)
        new.reached = list(self.reached)
        new.appends = {k: list(v) for k, v in self.appends.items()}
        new.stores = list(self.stores)
        new.early = list(self.early)
        new.imprecise = list(self.imprecise)
        new.last_return = self.last_return
        new.top_return = self.top_return
        return new


class _Frame:
    def __init__(self, fn: FuncInfo, depth: int, chain: str, stack: tuple[str, ...], gen: bool = False) -> None:
        self.fn, self.depth, self.chain, self.stack, self.gen = fn, depth, chain, stack, gen


class _Elem:
    """What iterating a symbolic iterable yields: the bound variable, the generic element, the underlying
    source, the filters that hold for the element, the loop/comprehension sites it went through, whether
    the order of the source was changed (sorted / reversed) and whether the iterable is known to be empty."""

    __slots__ = ("var", "elem", "src", "ifs", "sites", "reordered", "empty")

    def __init__(self, var, elem, src, ifs, sites=(), reordered=False, empty=False) -> None:
        self.var, self.elem, self.src, self.ifs, self.sites, self.reordered, self.empty = var, elem, src, ifs, sites, reordered, empty


def _same(a: ast.AST, b: ast.AST) -> bool:
    return ast.dump(a) == ast.dump(b)


def _is_seq(v) -> bool:
    return isinstance(v, ast.ListComp) and getattr(v, "_seq", False)


def _is_empty_list(v) -> bool:
    if isinstance(v, ast.List) and not v.elts:
        return True
    return isinstance(v, ast.Call) and isinstance(v.func, ast.Name) and v.func.id == "list" and not v.args and not v.keywords


def _is_empty_literal(v) -> bool:
    if isinstance(v, (ast.Tuple, ast.List, ast.Set)) and not v.elts:
        return True
    if isinstance(v, ast.Dict) and not v.keys:
        return True
    return isinstance(v, ast.Call) and isinstance(v.func, ast.Name) and v.func.id in {"list", "tuple", "set", "frozenset", "dict"} and not v.args and not v.keywords


def is_none(v) -> bool:
    return isinstance(v, ast.Constant) and v.value is None


def is_one(v) -> bool:
    if isinstance(v, ast.Attribute) and v.attr == "One" and isinstance(v.value, ast.Attribute) and v.value.attr == "S":
        return True  # sympy.S.One
    return isinstance(v, ast.Constant) and not isinstance(v.value, bool) and isinstance(v.value, (int, float)) and v.value == 1


def _marker(text: str) -> ast.Name:
    return ast.Name(id=f"<{text}>", ctx=ast.Load())


def is_marker(c: ast.AST) -> bool:
    return isinstance(c, ast.Name) and c.id.startswith("<") and not c.id.startswith("<each ")


PRODUCT = "<product "


def is_product(v) -> bool:
    return isinstance(v, ast.Call) and isinstance(v.func, ast.Name) and v.func.id.startswith(PRODUCT)


def product_site(v: ast.Call) -> str:
    return v.func.id[len(PRODUCT):-1]


def _make_product(site: str, loop: str, init: ast.AST, seq: ast.ListComp, factors: list) -> ast.Call:
    """``<product SITE>(init, seq)``: ``init`` times the product of ``seq``; ``_factors`` = the factors one
    generic element contributes on this path with the statement / call each comes from; ``_loop`` = the
    site of the loop that is multiplied over."""
    node = ast.Call(func=ast.Name(id=f"{PRODUCT}{site}>", ctx=ast.Load()), args=[init, seq], keywords=[])
    node._factors = list(factors)  # type: ignore[attr-defined]
    node._loop = loop  # type: ignore[attr-defined]
    return node


def products_in(v: ast.AST) -> list[ast.Call]:
    return [n for n in ast.walk(v) if is_product(n)]


def flatten_mult(v: ast.AST, origin=None) -> list[tuple[ast.AST, object]]:
    """The factors of a multiplication chain, each with the statement it was multiplied in by."""
    if isinstance(v, ast.BinOp) and isinstance(v.op, ast.Mult):
        o = getattr(v, "_origin", origin)
        return flatten_mult(v.left, o) + flatten_mult(v.right, o)
    return [(v, origin)]


def _mult(factors: list[ast.AST]) -> ast.AST:
    out = factors[0]
    for f in factors[1:]:
        out = ast.BinOp(left=out, op=ast.Mult(), right=f)
    return out


def _split_carried(v, symid: str):
    """``carried * f1 * f2`` -> [(f1, origin), (f2, origin)]; ``carried`` -> []; anything else -> None."""
    if v is None:
        return None
    fs = flatten_mult(v)
    idx = [i for i, (f, _) in enumerate(fs) if isinstance(f, ast.Name) and f.id == symid]
    if len(idx) != 1:
        return None
    rest = fs[: idx[0]] + fs[idx[0] + 1 :]
    if any(isinstance(n, ast.Name) and n.id == symid for f, _ in rest for n in ast.walk(f)):
        return None
    return rest


class _Subst(ast.NodeTransformer):
    """Replace free names by values (copies; private attributes of the nodes are kept)."""

    def __init__(self, mapping: dict[str, ast.AST]) -> None:
        self.mapping = mapping

    def visit(self, node):
        if isinstance(node, ast.Name):
            return self.mapping.get(node.id, node) if isinstance(node.ctx, ast.Load) else node
        if isinstance(node, ast.Lambda):
            a = node.args
            bound = {x.arg for x in [*a.posonlyargs, *a.args, *a.kwonlyargs, a.vararg, a.kwarg] if x is not None}
            inner = {k: v for k, v in self.mapping.items() if k not in bound}
            new = copy.copy(node)
            new.body = _Subst(inner).visit(node.body) if inner else node.body
            return new
        if isinstance(node, (ast.ListComp, ast.SetComp, ast.GeneratorExp, ast.DictComp)) and not _is_seq(node):
            bound = {n.id for g in node.generators for n in ast.walk(g.target) if isinstance(n, ast.Name)}
            if bound & set(self.mapping):
                inner = {k: v for k, v in self.mapping.items() if k not in bound}
                return _Subst(inner).visit(node) if inner else node
        new = copy.copy(node)
        for fld, value in ast.iter_fields(node):
            if isinstance(value, list):
                setattr(new, fld, [self.visit(x) if isinstance(x, ast.AST) else x for x in value])
            elif isinstance(value, ast.AST):
                setattr(new, fld, self.visit(value))
        return new


def _truth(v: ast.AST) -> bool | None:
    """Truth value of a symbolic condition when it is a constant."""
    if isinstance(v, ast.Constant):
        return bool(v.value)
    if isinstance(v, ast.UnaryOp) and isinstance(v.op, ast.Not):
        t = _truth(v.operand)
        return None if t is None else not t
    if isinstance(v, ast.Compare) and len(v.ops) == 1 and isinstance(v.left, ast.Constant) and isinstance(v.comparators[0], ast.Constant):
        a, b = v.left.value, v.comparators[0].value
        op = v.ops[0]
        if isinstance(op, ast.Eq):
            return a == b
        if isinstance(op, ast.NotEq):
            return a != b
        if isinstance(op, ast.Is) and (a is None or b is None):
            return a is b
        if isinstance(op, ast.IsNot) and (a is None or b is None):
            return a is not b
    return None


MAX_STATES = 4000
PROD_FUNCS = {"math.prod", "sympy.prod", "numpy.prod", "sympy.core.mul.prod"}
MUL_FUNCS = {"operator.mul", "_operator.mul", "operator.__mul__", "sympy.Mul", "sympy.core.mul.Mul"}
SAME_ELEMENTS = {"list", "tuple", "iter"}  # wrappers that keep elements and order
REORDERING = {"sorted", "reversed"}  # ... that keep the elements (with multiplicity) but not the order
TRANSPARENT_DECORATORS = {"staticmethod", "override", "typing.override", "typing_extensions.override", "cache", "functools.cache", "lru_cache", "functools.lru_cache"}
PROPERTY_DECORATORS = {"property", "cached_property", "functools.cached_property"}


class SymExec:
    """Symbolic execution of one function of the package, one generic iteration per loop.

    * every ``if`` forks the path (constant conditions do not); the branch condition - with the local
      definitions of that path substituted - is recorded as a fact of the path; a conditional expression at
      an unconditionally evaluated position forks the same way; ``for x in A or B`` / ``for x in (A if c
      else B)`` fork into a loop over ``A`` and a loop over ``B``; ``try: ... except KeyError`` forks into
      the normal and the exceptional path (with the fact ``k in m`` / ``k not in m`` when the body is a
      single statement with a single look-up ``m[k]`` and no call, else the path is marked imprecise);
    * a loop body is executed once for a generic element: ``for x in S`` binds ``x`` to the symbol
      ``<each S>`` (a second loop over the same text gets its own symbol ``<each S>#2``: facts about the
      element of one loop say nothing about the element of another); if ``S`` is itself a known sequence,
      ``x`` is its generic element and the filters of ``S`` become facts; ``list/tuple/iter/sorted/reversed``
      of an iterable have the same elements, ``d.items()`` yields ``(<each d>, d[<each d>])``, ``enumerate``
      pairs the element with an index symbol; a loop over an empty literal is skipped; names that are
      re-assigned in the body are unknown at the start of the iteration (loop-carried);
    * ``[f(x) for x in S]``, ``list(f(x) for x in S)``, ``map(f, S)``, ``filter(p, S)``, a generator function
      with ``yield f(x)`` in a loop and ``a = []; for x in S: ...; a.append(f(x))`` all become the sequence
      value ``[f(<each S>) for <each S> in S]``; iterating / mapping over such a value composes the element
      expressions.  A path that does not append exactly one element per item (continue, break, two
      appends) is marked in the ``ifs`` of the sequence (``<0 elements on a path>``);
    * a loop-carried name whose value at the end of the body is ``carried`` or ``carried * f...`` on every
      path is a product accumulator: after the loop it is ``<product SITE>(initial value, sequence of the
      factors)``; ``functools.reduce(operator.mul, SEQ[, init])``, ``math.prod(SEQ, start=init)``,
      ``sp.prod(SEQ)`` and ``sp.Mul(*SEQ)`` become the same value;
    * ``f(x)`` with ``f`` a lambda, ``operator.attrgetter(..)`` / ``itemgetter(..)`` or ``functools.partial(g, ..)``
      is reduced to the expression it computes;
    * calls of package functions (methods, module functions, closures of the running function, generator
      functions) are executed the same way (depth-bounded, every path of the callee forks the caller) when
      they sit at a position that is evaluated unconditionally; at conditional positions (right operand of
      and/or, comprehension element, lambda body) only branch-free helpers are inlined.  The functions named
      in ``atoms`` (always ``generate_two_body_decay_suffix``) stay calls.
    Everything else stays symbolic text.  Nothing is executed."""

    def __init__(self, tree: Tree, fn: FuncInfo, max_depth: int = 3, atoms: frozenset | set = frozenset()) -> None:
        self.tree, self.fn, self.max_depth = tree, fn, max_depth
        self.atoms = {RAW_SUFFIX, *atoms}
        self.n_states = 0
        self.opaque: set[str] = set()
        self.elements: dict[str, ast.AST] = {}  # generic element symbol -> the iterable it ranges over
        self.each_sites: dict[str, list] = {}
        self.carried: dict[str, str] = {}  # loop-carried symbol -> site of its loop
        self.loop_src: dict[str, ast.AST] = {}  # site -> source the loop ranges over
        self.top = _Frame(fn, 0, "", (fn.qual,))

    # ------------------------------------------------------------------ public
    def run(self) -> list[tuple[_State, ast.AST]]:
        """Final states of the entry function with the symbolic return value (None constant for a
        bare return / falling off the end); paths that raise are dropped."""
        st = _State()
        try:
            results = self._block(self.fn.node.body, st, self.top)
        except _Unsupported as exc:
            raise AnalysisError(f"{self.fn.qual}: the path analysis cannot follow {exc}") from exc
        out = []
        for s, status, val in results:
            if status in {"next", "return"}:
                out.append((s, val if val is not None else ast.Constant(None)))
        return out

    # --------------------------------------------------------------- symbols
    @staticmethod
    def _fresh(name: str, node: ast.AST, fr: _Frame) -> ast.Name:
        return ast.Name(id=f"{name}@{fr.chain}{getattr(node, 'lineno', 0)}", ctx=ast.Load())

    @staticmethod
    def _site(node: ast.AST, fr: _Frame) -> str:
        return f"{fr.chain}{getattr(node, 'lineno', 0)}:{getattr(node, 'col_offset', 0)}"

    def _each(self, src: ast.AST, site: str) -> str:
        text = unparse(src)
        sites = self.each_sites.setdefault(text, [])
        if site not in sites:
            sites.append(site)
        k = sites.index(site)
        name = f"<each {text}>" + ("" if k == 0 else f"#{k + 1}")
        self.elements[name] = src
        return name

    def _fname(self, f: ast.AST, fr: _Frame | None = None) -> str | None:
        """Canonical dotted name (``functools.reduce``, ``operator.mul``, ``mod::func``) or builtin name of a
        function reference; None for locals and everything unknown."""
        fr = fr or self.top
        mod = getattr(f, "_module", None)
        if isinstance(f, ast.Name):
            if "@" in f.id or f.id.startswith("<"):
                return None
            q = None
            if mod is not None:
                try:
                    q = self.tree.resolve(mod, f, fr.fn)
                except Exception:  # noqa: BLE001
                    q = None
            if q:
                return q
            if hasattr(builtins, f.id) and f.id not in fr.fn.params and f.id not in _local_names(fr.fn.node):
                return f.id
            return None
        if isinstance(f, ast.Attribute) and mod is not None:
            try:
                return self.tree.resolve(mod, f, fr.fn)
            except Exception:  # noqa: BLE001
                return None
        return None

    def opaque_calls(self, expr: ast.AST) -> list[str]:
        """Calls inside a symbolic value that may hide logic of the package: a package function / class that
        was not followed, a local function object, a lambda that was not reduced."""
        out = []
        for n in ast.walk(expr):
            if isinstance(n, ast.Attribute):
                g = self._property_getter(n, self.top)
                body = [s for s in g.node.body if not (isinstance(s, ast.Expr) and isinstance(s.value, ast.Constant))] if g is not None else []
                if g is not None and not (len(body) == 1 and isinstance(body[0], ast.Return) and isinstance(body[0].value, ast.Attribute) and isinstance(body[0].value.value, ast.Name)):
                    out.append(unparse(n)[:60])  # a property of the package with a non-trivial getter that was not followed
            if not isinstance(n, ast.Call) or is_product(n):
                continue
            f = n.func
            last = f.attr if isinstance(f, ast.Attribute) else f.id if isinstance(f, ast.Name) else None
            if last in self.atoms:
                continue
            if isinstance(f, ast.Lambda) or (isinstance(f, ast.Name) and "@" in f.id):
                out.append(unparse(f)[:60])
                continue
            name = self._fname(f)
            if name and (name in self.tree.funcs or name in self.tree.classes):
                out.append(unparse(f)[:60])
        return out

    # ------------------------------------------------------------ expressions
    def ev(self, node, st: _State, fr: _Frame, shadow: frozenset = frozenset()):
        if isinstance(node, list):
            return [self.ev(x, st, fr, shadow) for x in node]
        if not isinstance(node, ast.AST):
            return node
        if isinstance(node, ast.Name):
            if isinstance(node.ctx, ast.Load) and node.id not in shadow and node.id in st.env:
                return st.env[node.id]
            return node
        if isinstance(node, ast.IfExp):
            choice = st.env.get(("ifexp", id(node)))
            if choice is not None:
                return self.ev(node.body if choice else node.orelse, st, fr, shadow)
        if isinstance(node, ast.Call):
            done = st.env.get(("call", id(node)))
            if done is not None:
                return done
            if not shadow:
                v = self._inline_branch_free(node, st, fr)
                if v is not None:
                    return v
        if isinstance(node, ast.Attribute) and isinstance(node.ctx, ast.Load) and not shadow:
            v = self._property_value(node, st, fr)
            if v is not None:
                return v
        if isinstance(node, ast.NamedExpr) and isinstance(node.target, ast.Name):
            v = self.ev(node.value, st, fr, shadow)
            st.env[node.target.id] = v
            return v
        if isinstance(node, (ast.ListComp, ast.GeneratorExp)) and not shadow:
            done = st.env.get(("comp", id(node)))
            if done is not None:
                return done
            seq = self._comprehension(node, st, fr)
            if seq is not None:
                return seq
        if isinstance(node, (ast.ListComp, ast.SetComp, ast.GeneratorExp, ast.DictComp)):
            shadow = shadow | {n.id for g in node.generators for n in ast.walk(g.target) if isinstance(n, ast.Name)}
        if isinstance(node, ast.Lambda):
            a = node.args
            shadow = shadow | {x.arg for x in [*a.posonlyargs, *a.args, *a.kwonlyargs, a.vararg, a.kwarg] if x is not None}
        new = copy.copy(node)
        for fld, value in ast.iter_fields(node):
            setattr(new, fld, self.ev(value, st, fr, shadow))
        if isinstance(new, ast.Call):
            return self._simplify_call(new, st, fr, shadow)
        return new

    def _property_getter(self, node: ast.Attribute, fr: _Frame) -> FuncInfo | None:
        """The getter if ``node`` reads a property defined in the package (never the accessor of the partner
        mapping: the rules recognise the mapping by that name)."""
        mod = getattr(node, "_module", None)
        if mod is None or node.attr.split("__")[-1] == MAPPING:
            return None
        try:
            q = self.tree.resolve(mod, node, fr.fn)
        except Exception:  # noqa: BLE001
            return None
        g = self.tree.funcs.get(q) if q else None
        if g is None or g.cls is None or not isinstance(g.node, ast.FunctionDef):
            return None
        if not {unparse(d) for d in g.node.decorator_list} & PROPERTY_DECORATORS:
            return None
        return g

    def _property_value(self, node: ast.Attribute, st: _State, fr: _Frame):
        """``obj.prop`` for a property of the package whose getter is branch-free: the value it returns."""
        g = self._property_getter(node, fr)
        if g is None or g.qual in fr.stack or fr.depth >= self.max_depth:
            return None
        a = g.node.args
        params = [x.arg for x in [*a.posonlyargs, *a.args]]
        if len(params) != 1 or a.vararg or a.kwarg or a.kwonlyargs:
            return None
        inner = st.fork()
        inner.env = {params[0]: self.ev(node.value, st, fr)}
        inner.appends = {}
        frame = _Frame(g, fr.depth + 1, f"{fr.chain}{getattr(node, 'lineno', 0)}:{getattr(node, 'col_offset', 0)}>", (*fr.stack, g.qual))
        try:
            results = [(s, val) for s, status, val in self._block(g.node.body, inner, frame) if status in {"next", "return"}]
        except _Unsupported:
            return None
        if len(results) != 1 or len(results[0][0].facts) != len(st.facts) or results[0][1] is None or is_none(results[0][1]):
            return None
        return results[0][1]

    def _simplify_call(self, new: ast.Call, st: _State, fr: _Frame, shadow: frozenset = frozenset()):
        """Calls whose value is a sequence / a product / the expression a function object computes."""
        plain = not any(isinstance(a, ast.Starred) for a in new.args) and all(k.arg for k in new.keywords)
        kws = {k.arg: k.value for k in new.keywords if k.arg}
        args, f = new.args, new.func
        site = self._site(new, fr)
        if plain and not kws and (isinstance(f, ast.Lambda) or (isinstance(f, ast.Call) and self._fname(f.func, fr) in {"operator.attrgetter", "operator.itemgetter", "functools.partial"})):
            v = self._apply(f, list(args), new, st, fr)
            if v is not None:
                return v
        if isinstance(f, ast.Name) and f.id in shadow:
            return new
        name = self._fname(f, fr)
        if name is None:
            return new
        if name in SAME_ELEMENTS and plain and len(args) == 1 and not kws and _is_seq(args[0]):
            return args[0]
        if name == "map" and plain and len(args) == 2 and not kws:
            e = self._element(args[1], site, fr)
            v = self._apply(args[0], [e.elem], new, st, fr)
            if v is not None:
                return self._seq(v, e.var, e.src, e.ifs, (*e.sites, site), e.reordered)
        if name == "filter" and plain and len(args) == 2 and not kws:
            e = self._element(args[1], site, fr)
            cond = e.elem if is_none(args[0]) else self._apply(args[0], [e.elem], new, st, fr)
            if cond is not None:
                return self._seq(e.elem, e.var, e.src, [*e.ifs, cond], (*e.sites, site), e.reordered)
        if name == "functools.reduce" and plain and not kws and len(args) in (2, 3) and self._is_mul(args[0], fr):
            return self._product_of(new, args[1], args[2] if len(args) == 3 else ast.Constant(1), fr)
        if name in PROD_FUNCS and plain and set(kws) <= {"start"} and (len(args) == 1 or (len(args) == 2 and not kws and name != "math.prod")):
            return self._product_of(new, args[0], args[1] if len(args) == 2 else kws.get("start", ast.Constant(1)), fr)
        if name in {"sympy.Mul", "sympy.core.mul.Mul"} and len(new.args) == 1 and isinstance(new.args[0], ast.Starred) and not new.keywords:
            return self._product_of(new, new.args[0].value, ast.Constant(1), fr)
        return new

    def _is_mul(self, f: ast.AST, fr: _Frame) -> bool:
        if isinstance(f, ast.Lambda):
            a = f.args
            ps = [x.arg for x in [*a.posonlyargs, *a.args]]
            b = f.body
            return (len(ps) == 2 and not (a.vararg or a.kwarg or a.kwonlyargs) and isinstance(b, ast.BinOp) and isinstance(b.op, ast.Mult)
                    and isinstance(b.left, ast.Name) and isinstance(b.right, ast.Name) and {b.left.id, b.right.id} == set(ps))
        return self._fname(f, fr) in MUL_FUNCS

    def _product_of(self, call: ast.Call, seq_value: ast.AST, init: ast.AST, fr: _Frame) -> ast.Call:
        site = self._site(call, fr)
        e = self._element(seq_value, site, fr, commutative=True)
        none = e.empty or any(is_marker(c) and c.id.startswith("<0 elements") for c in e.ifs)
        seq = self._seq(e.elem, e.var, e.src, e.ifs, (*e.sites, site), e.reordered)
        return _make_product(site, e.sites[-1] if e.sites else site, init, seq, [] if none else [(e.elem, call)])

    def _apply(self, f: ast.AST, args: list[ast.AST], at: ast.AST, st: _State, fr: _Frame, keywords: list | None = None):
        """The (symbolic) value of calling the function object ``f`` (already evaluated) on evaluated arguments;
        None if ``f`` is not understood."""
        keywords = list(keywords or [])
        if isinstance(f, ast.Lambda):
            a = f.args
            params = [x.arg for x in [*a.posonlyargs, *a.args]]
            if a.vararg or a.kwarg or a.kwonlyargs or keywords or len(params) < len(args) or len(params) - len(a.defaults) > len(args):
                return None
            mapping = dict(zip(params, args))
            for p, d in zip(reversed(params), reversed(a.defaults)):
                mapping.setdefault(p, d)
            return self._post(_Subst(mapping).visit(f.body), st, fr)
        if isinstance(f, ast.Call):
            inner = self._fname(f.func, fr)
            consts = all(isinstance(x, ast.Constant) for x in f.args) and not f.keywords
            if inner == "operator.attrgetter" and len(args) == 1 and not keywords and f.args and consts and all(isinstance(x.value, str) for x in f.args):
                vals = []
                for x in f.args:
                    v = args[0]
                    for part in x.value.split("."):
                        v = ast.Attribute(value=v, attr=part, ctx=ast.Load())
                    vals.append(v)
                return vals[0] if len(vals) == 1 else ast.Tuple(elts=vals, ctx=ast.Load())
            if inner == "operator.itemgetter" and len(args) == 1 and not keywords and f.args and consts:
                vals = [ast.Subscript(value=args[0], slice=x, ctx=ast.Load()) for x in f.args]
                return vals[0] if len(vals) == 1 else ast.Tuple(elts=vals, ctx=ast.Load())
            if inner == "functools.partial" and f.args and not any(isinstance(x, ast.Starred) for x in f.args) and all(k.arg for k in f.keywords):
                return self._apply(f.args[0], [*f.args[1:], *args], at, st, fr, [*f.keywords, *keywords])
            return None
        if not isinstance(f, (ast.Name, ast.Attribute)):
            return None
        call = ast.Call(func=f, args=list(args), keywords=keywords)
        ast.copy_location(call, at)
        for attr in ("_module", "_parent"):
            if hasattr(at, attr):
                setattr(call, attr, getattr(at, attr))
        call._evaluated = True  # type: ignore[attr-defined]
        v = self._inline_branch_free(call, st, fr)
        if v is not None:
            return v
        return self._simplify_call(call, st, fr)

    def _post(self, expr: ast.AST, st: _State, fr: _Frame) -> ast.AST:
        """Calls inside an already evaluated expression (the body of a reduced lambda): follow branch-free
        package helpers, bring sequences / products into normal form."""
        if not isinstance(expr, ast.AST) or isinstance(expr, ast.Lambda) or _is_seq(expr) or is_product(expr):
            return expr
        new = copy.copy(expr)
        for fld, value in ast.iter_fields(expr):
            if isinstance(value, list):
                setattr(new, fld, [self._post(x, st, fr) if isinstance(x, ast.AST) else x for x in value])
            elif isinstance(value, ast.AST):
                setattr(new, fld, self._post(value, st, fr))
        if isinstance(new, ast.Call):
            if isinstance(new.func, (ast.Name, ast.Attribute)) and hasattr(new, "_module"):
                new._evaluated = True  # type: ignore[attr-defined]
                v = self._inline_branch_free(new, st, fr)
                if v is not None:
                    return v
            return self._simplify_call(new, st, fr)
        return new

    def _element(self, it: ast.AST, site: str, fr: _Frame, commutative: bool = False) -> _Elem:
        """What iterating the symbolic value ``it`` yields."""
        reordered = False
        while isinstance(it, ast.Call) and it.args and not isinstance(it.args[0], ast.Starred):
            name = self._fname(it.func, fr)
            if name in SAME_ELEMENTS and len(it.args) == 1 and not it.keywords:
                it = it.args[0]
            elif name in REORDERING and len(it.args) == 1 and {k.arg for k in it.keywords} <= {"key", "reverse"}:
                reordered, it = True, it.args[0]
            else:
                break
        if isinstance(it, ast.Starred):
            it = it.value
        if _is_seq(it):
            g = it.generators[0]
            return _Elem(g.target, it.elt, g.iter, list(g.ifs), tuple(getattr(it, "_sites", ())), (reordered or getattr(it, "_reordered", False)) and not commutative)
        reordered = reordered and not commutative
        if _is_empty_literal(it):
            var = ast.Name(id=self._each(it, site), ctx=ast.Store())
            return _Elem(var, ast.Constant(None), it, [_marker("0 elements: the iterable is empty")], (), reordered, empty=True)
        if isinstance(it, ast.Call) and isinstance(it.func, ast.Attribute) and it.func.attr in {"items", "keys", "values"} and not it.args and not it.keywords:
            base = it.func.value
            key = self._each(base, site)
            k = ast.Name(id=key, ctx=ast.Load())
            item = ast.Subscript(value=base, slice=k, ctx=ast.Load())
            elem = {"items": ast.Tuple(elts=[k, item], ctx=ast.Load()), "keys": k, "values": item}[it.func.attr]
            return _Elem(ast.Name(id=key, ctx=ast.Store()), elem, base, [], (), reordered)
        if isinstance(it, ast.Call) and self._fname(it.func, fr) == "enumerate" and len(it.args) in (1, 2) and not it.keywords:
            e = self._element(it.args[0], site, fr, commutative)
            idx = ast.Name(id=f"<index of {e.var.id if isinstance(e.var, ast.Name) else unparse(e.var)}>", ctx=ast.Load())
            return _Elem(e.var, ast.Tuple(elts=[idx, e.elem], ctx=ast.Load()), e.src, e.ifs, e.sites, e.reordered or reordered, e.empty)
        name = self._each(it, site)
        return _Elem(ast.Name(id=name, ctx=ast.Store()), ast.Name(id=name, ctx=ast.Load()), it, [], (), reordered)

    @staticmethod
    def _seq(elt: ast.AST, var: ast.AST, src: ast.AST, ifs: list, sites: tuple = (), reordered: bool = False) -> ast.ListComp:
        seq = ast.ListComp(elt=elt, generators=[ast.comprehension(target=var, iter=src, ifs=list(ifs), is_async=0)])
        seq._seq = True  # type: ignore[attr-defined]
        seq._sites = tuple(sites)  # type: ignore[attr-defined]
        seq._reordered = reordered  # type: ignore[attr-defined]
        return seq

    def _comprehension(self, node, st: _State, fr: _Frame, fork: bool = False):
        """The sequence value of a comprehension with one generator.  ``fork``: the element is evaluated like a
        loop body - the paths of the package helpers it calls fork the state (returns the forked states, each
        with the value bound); otherwise only branch-free helpers are followed (returns the value)."""
        if len(node.generators) != 1:
            return None
        gen = node.generators[0]
        if gen.is_async:
            return None
        site = self._site(node, fr)
        e = self._element(self.ev(gen.iter, st, fr), site, fr)
        names = [n.id for n in ast.walk(gen.target) if isinstance(n, ast.Name)]
        missing = object()
        old = {n: st.env.get(n, missing) for n in names}
        self._assign(gen.target, e.elem, st, fr, node)
        states = self._prepare([*gen.ifs, node.elt], st, fr) if fork and not e.empty else [st]
        value = None
        for s in states:
            elt = self.ev(node.elt, s, fr)
            ifs = list(e.ifs) + [self.ev(c, s, fr) for c in gen.ifs]
            for n, v in old.items():
                if v is missing:
                    s.env.pop(n, None)
                else:
                    s.env[n] = v
            value = self._seq(elt, e.var, e.src, ifs, (*e.sites, site), e.reordered)
            if fork:
                s.env[("comp", id(node))] = value
        return states if fork else value

    # ------------------------------------------------------------------ calls
    def _callee(self, call: ast.Call, fr: _Frame) -> FuncInfo | None:
        if not hasattr(call, "_module"):
            return None
        name = call.func.attr if isinstance(call.func, ast.Attribute) else call.func.id if isinstance(call.func, ast.Name) else None
        if name is None or name in self.atoms:
            return None
        try:
            q = self.tree.callee(call, fr.fn)
        except Exception:  # noqa: BLE001
            return None
        tgt = self.tree.funcs.get(q) if q else None
        if tgt is None or tgt.qual in fr.stack or fr.depth >= self.max_depth or not isinstance(tgt.node, ast.FunctionDef):
            return None
        if tgt.outer is not None and tgt.outer.qual != fr.fn.qual:
            return None  # a closure of another function: its free variables are not in reach
        decorators = {unparse(d.func if isinstance(d, ast.Call) else d) for d in tgt.node.decorator_list}
        if decorators - TRANSPARENT_DECORATORS:
            return None
        if any(isinstance(n, ast.Await) for n in walk_function(tgt.node, nested=False)):
            return None
        return tgt

    def _bind(self, call: ast.Call, tgt: FuncInfo, st: _State, fr: _Frame) -> dict | None:
        a = tgt.node.args
        if a.vararg or a.kwarg or any(isinstance(x, ast.Starred) for x in call.args) or any(k.arg is None for k in call.keywords):
            return None
        value = (lambda x: x) if getattr(call, "_evaluated", False) else (lambda x: self.ev(x, st, fr))
        positional = [x.arg for x in [*a.posonlyargs, *a.args]]
        env: dict = {}
        if tgt.cls is not None and tgt.outer is None and "staticmethod" not in {unparse(d) for d in tgt.node.decorator_list}:
            if not positional or not isinstance(call.func, ast.Attribute):
                return None
            env[positional.pop(0)] = value(call.func.value)
        if len(call.args) > len(positional):
            return None
        for p, arg in zip(positional, call.args):
            env[p] = value(arg)
        names = set(positional) | {x.arg for x in a.kwonlyargs}
        for k in call.keywords:
            if k.arg not in names or k.arg in env:
                return None
            env[k.arg] = value(k.value)
        defaults = dict(zip(reversed([x.arg for x in [*a.posonlyargs, *a.args]]), reversed(a.defaults)))
        defaults.update({x.arg: d for x, d in zip(a.kwonlyargs, a.kw_defaults) if d is not None})
        for p in names:
            if p not in env:
                d = defaults.get(p)
                if not isinstance(d, ast.Constant):
                    return None
                env[p] = d
        return env

    def _inline(self, call: ast.Call, st: _State, fr: _Frame) -> list[_State] | None:
        """Execute the callee on forks of ``st``; every returned state has the value of the call bound."""
        tgt = self._callee(call, fr)
        if tgt is None:
            return None
        env = self._bind(call, tgt, st, fr)
        if env is None:
            return None
        is_gen = any(isinstance(n, (ast.Yield, ast.YieldFrom)) for n in walk_function(tgt.node, nested=False))
        inner = st.fork()
        if tgt.outer is not None:  # a closure: its free variables are the (late-bound) locals of the running frame
            inner.env = {**{k: v for k, v in st.env.items() if isinstance(k, str)}, **env}
        else:
            inner.env = env
        inner.appends = {}
        # a list of the caller that is handed down and filled by the callee (an accumulator passed down instead of a
        # result returned and merged): appends of the callee are appends to the caller's list
        rebound = {n.id for n in walk_function(tgt.node, nested=False) if isinstance(n, ast.Name) and isinstance(n.ctx, ast.Store)}
        handed_down: dict[str, str] = {}
        if not getattr(call, "_evaluated", False):
            for param, arg in self._arg_nodes(call, tgt).items():
                if isinstance(arg, ast.Name) and param not in rebound and param in env:
                    if arg.id in st.appends:
                        handed_down[param] = arg.id
                        inner.appends[param] = list(st.appends[arg.id])
                    elif _is_empty_list(st.env.get(arg.id)):
                        handed_down[param] = arg.id
        if is_gen:
            inner.env["<yield>"] = ast.List(elts=[], ctx=ast.Load())
        frame = _Frame(tgt, fr.depth + 1, f"{fr.chain}{getattr(call, 'lineno', 0)}:{getattr(call, 'col_offset', 0)}>", (*fr.stack, tgt.qual), gen=is_gen)
        try:
            results = self._block(tgt.node.body, inner, frame)
        except _Unsupported:
            return None
        out = []
        for s, status, val in results:
            if status not in {"next", "return"}:
                continue
            if is_gen:
                val = s.env.get("<yield>")
            callee_env, callee_appends = s.env, s.appends
            s.env = dict(st.env)
            s.appends = {k: list(v) for k, v in st.appends.items()}
            for param, name in handed_down.items():
                if name in s.appends:
                    s.appends[name] = list(callee_appends.get(param, s.appends[name]))
                elif _is_seq(callee_env.get(param)):
                    s.env[name] = callee_env[param]
                elif not _is_empty_list(callee_env.get(param)):
                    s.env[name] = self._fresh(name, call, fr)  # filled in a way that is not followed
            s.env[("call", id(call))] = val if val is not None else ast.Constant(None)
            out.append(s)
        return out

    @staticmethod
    def _arg_nodes(call: ast.Call, tgt: FuncInfo) -> dict[str, ast.AST]:
        """parameter -> argument expression as written (no defaults; {} if the call cannot be matched)."""
        a = tgt.node.args
        if a.vararg or a.kwarg or any(isinstance(x, ast.Starred) for x in call.args) or any(k.arg is None for k in call.keywords):
            return {}
        positional = [x.arg for x in [*a.posonlyargs, *a.args]]
        if tgt.cls is not None and tgt.outer is None and "staticmethod" not in {unparse(d) for d in tgt.node.decorator_list} and positional:
            positional.pop(0)
        out = dict(zip(positional, call.args))
        out.update({k.arg: k.value for k in call.keywords})
        return out

    def _inline_branch_free(self, call: ast.Call, st: _State, fr: _Frame):
        res = self._inline(call, st, fr)
        if res is None or len(res) != 1 or len(res[0].facts) != len(st.facts):
            if self._is_package_call(call, fr):
                self.opaque.add(unparse(call.func))
            return None
        return res[0].env[("call", id(call))]

    def _is_package_call(self, call: ast.Call, fr: _Frame) -> bool:
        if not hasattr(call, "_module"):
            return False
        name = call.func.attr if isinstance(call.func, ast.Attribute) else call.func.id if isinstance(call.func, ast.Name) else None
        if name in self.atoms:
            return False
        try:
            q = self.tree.callee(call, fr.fn)
        except Exception:  # noqa: BLE001
            return False
        return bool(q) and q in self.tree.funcs

    @staticmethod
    def _unconditional(expr: ast.AST) -> list[ast.AST]:
        """Calls and conditional expressions inside ``expr`` that are evaluated whenever ``expr`` is
        (post-order: arguments first)."""
        out: list[ast.AST] = []

        def visit(n: ast.AST) -> None:
            if isinstance(n, ast.BoolOp):
                visit(n.values[0])
                return
            if isinstance(n, ast.IfExp):
                visit(n.test)
                out.append(n)
                return
            if isinstance(n, (ast.ListComp, ast.SetComp, ast.GeneratorExp, ast.DictComp)):
                visit(n.generators[0].iter)
                if isinstance(n, (ast.ListComp, ast.GeneratorExp)) and len(n.generators) == 1 and not n.generators[0].is_async:
                    out.append(n)
                return
            if isinstance(n, ast.Lambda):
                return
            for c in ast.iter_child_nodes(n):
                visit(c)
            if isinstance(n, ast.Call):
                out.append(n)

        visit(expr)
        return out

    def _prepare(self, exprs: list, st: _State, fr: _Frame) -> list[_State]:
        """Fork ``st`` over the paths of the package functions called (unconditionally) in ``exprs`` and over
        the arms of the conditional expressions evaluated (unconditionally) in them."""
        states = [st]
        for e in exprs:
            if e is None:
                continue
            for point in self._unconditional(e):
                nxt = []
                for s in states:
                    if isinstance(point, ast.IfExp):
                        test = self.ev(point.test, s, fr)
                        known = _truth(test)
                        for outcome in (True, False):
                            if known is not None and known != outcome:
                                continue
                            b = s.fork() if known is None else s
                            b.facts.append((test, outcome))
                            b.env[("ifexp", id(point))] = outcome
                            nxt.append(b)
                        continue
                    if isinstance(point, (ast.ListComp, ast.GeneratorExp)):
                        nxt += self._comprehension(point, s, fr, fork=True)
                        continue
                    res = self._inline(point, s, fr)
                    nxt += [s] if res is None else res
                states = nxt
                if len(states) > MAX_STATES:
                    raise AnalysisError(f"{self.fn.qual}: path explosion in the symbolic execution")
        return states

    # -------------------------------------------------------------- statements
    def _block(self, stmts: list[ast.stmt], st: _State, fr: _Frame):
        states = [(st, "next", None)]
        for stmt in stmts:
            nxt = []
            for s, status, val in states:
                if status != "next":
                    nxt.append((s, status, val))
                else:
                    nxt += self._stmt(stmt, s, fr)
            states = nxt
            self.n_states = max(self.n_states, len(states))
            if len(states) > MAX_STATES:
                raise AnalysisError(f"{self.fn.qual}: path explosion in the symbolic execution")
        return states

    def _assign(self, target: ast.AST, value: ast.AST, st: _State, fr: _Frame, stmt: ast.AST) -> None:
        if isinstance(target, ast.Name):
            st.env[target.id] = value
        elif isinstance(target, (ast.Tuple, ast.List)):
            plain = not any(isinstance(t, ast.Starred) for t in target.elts)
            for i, t in enumerate(target.elts):
                if plain and isinstance(value, (ast.Tuple, ast.List)) and len(value.elts) == len(target.elts) and not any(isinstance(e, ast.Starred) for e in value.elts):
                    self._assign(t, value.elts[i], st, fr, stmt)
                elif plain:
                    self._assign(t, ast.Subscript(value=value, slice=ast.Constant(i), ctx=ast.Load()), st, fr, stmt)
                else:
                    for n in ast.walk(t):
                        if isinstance(n, ast.Name):
                            st.env[n.id] = self._fresh(n.id, stmt, fr)
        elif isinstance(target, (ast.Subscript, ast.Attribute)):
            if isinstance(target, ast.Subscript) and isinstance(stmt, ast.stmt):
                st.stores.append((self.ev(target.value, st, fr), len(st.facts), stmt))
            base = target
            while isinstance(base, (ast.Subscript, ast.Attribute)):
                base = base.value
            if isinstance(base, ast.Name) and base.id in st.env and base.id != "self":
                old = st.env[base.id]
                if not isinstance(old, (ast.Attribute, ast.Name)):  # (an alias of an object that lives elsewhere stays that alias)
                    st.env[base.id] = self._fresh(base.id, stmt, fr)  # the object changed: what was known about it is void

    def _stmt(self, stmt: ast.stmt, st: _State, fr: _Frame):
        def reached(s: _State, value) -> None:
            s.reached.append((id(stmt), len(s.facts), value))

        if isinstance(stmt, (ast.Assign, ast.AnnAssign)):
            if stmt.value is None:
                return [(st, "next", None)]
            out = []
            for s in self._prepare([stmt.value], st, fr):
                v = self.ev(stmt.value, s, fr)
                if isinstance(v, ast.BinOp) and isinstance(v.op, ast.Mult) and not hasattr(v, "_origin"):
                    v._origin = stmt  # type: ignore[attr-defined]
                reached(s, v)
                for t in stmt.targets if isinstance(stmt, ast.Assign) else [stmt.target]:
                    self._assign(t, v, s, fr, stmt)
                out.append((s, "next", None))
            return out
        if isinstance(stmt, ast.AugAssign):
            out = []
            for s in self._prepare([stmt.value], st, fr):
                v = self.ev(stmt.value, s, fr)
                reached(s, v)
                if isinstance(stmt.target, ast.Name):
                    name = stmt.target.id
                    if name in s.appends and isinstance(stmt.op, ast.Add) and isinstance(v, (ast.List, ast.Tuple)):
                        s.appends[name] += list(v.elts)
                    else:
                        new = ast.BinOp(left=s.env.get(name, ast.Name(id=name, ctx=ast.Load())), op=stmt.op, right=v)
                        new._origin = stmt  # type: ignore[attr-defined]
                        s.env[name] = new
                else:
                    self._assign(stmt.target, v, s, fr, stmt)
                out.append((s, "next", None))
            return out
        if isinstance(stmt, ast.Expr):
            if isinstance(stmt.value, (ast.Yield, ast.YieldFrom)):
                return self._yield(stmt, st, fr)
            out = []
            for s in self._prepare([stmt.value], st, fr):
                v = self.ev(stmt.value, s, fr)
                reached(s, v)
                c = stmt.value
                if isinstance(c, ast.Call) and isinstance(c.func, ast.Attribute) and c.func.attr in MUTATORS:
                    if not isinstance(c.func.value, ast.Name) or c.func.value.id not in s.appends:
                        s.stores.append((self.ev(c.func.value, s, fr), len(s.facts), stmt))
                if isinstance(c, ast.Call) and isinstance(c.func, ast.Attribute) and isinstance(c.func.value, ast.Name) and c.func.attr in MUTATORS:
                    name = c.func.value.id
                    if name in s.appends and c.func.attr == "append" and len(c.args) == 1 and not c.keywords:
                        s.appends[name].append(v.args[0] if isinstance(v, ast.Call) and v.args else self.ev(c.args[0], s, fr))
                    elif name in s.env and not isinstance(s.env[name], (ast.Attribute, ast.Name)):
                        s.env[name] = self._fresh(name, stmt, fr)
                out.append((s, "next", None))
            return out
        if isinstance(stmt, ast.Return):
            out = []
            for s in self._prepare([stmt.value], st, fr):
                v = self.ev(stmt.value, s, fr) if stmt.value is not None else ast.Constant(None)
                reached(s, v)
                s.last_return = stmt
                if fr.depth == 0:
                    s.top_return = stmt
                out.append((s, "return", v))
            return out
        if isinstance(stmt, ast.If):
            out = []
            for s in self._prepare([stmt.test], st, fr):
                test = self.ev(stmt.test, s, fr)
                known = _truth(test)
                for outcome, body in ((True, stmt.body), (False, stmt.orelse)):
                    if known is not None and known != outcome:
                        continue
                    b = s.fork() if known is None else s
                    b.facts.append((test, outcome))
                    out += self._block(body, b, fr)
            return out
        if isinstance(stmt, ast.For):
            return self._for(stmt, st, fr)
        if isinstance(stmt, ast.Try):
            return self._try(stmt, st, fr)
        if isinstance(stmt, ast.While):
            loop = self._while_as_for(stmt, st)
            if loop is None:
                raise _Unsupported(f"a `while` loop that is not a plain walk over a sequence ({self.tree.loc(stmt)})")
            out = []
            for s, status, val in self._for(loop, st, fr):
                if status == "next" and isinstance(loop._drained, str):  # type: ignore[attr-defined]
                    s.env[loop._drained] = ast.List(elts=[], ctx=ast.Load())  # type: ignore[attr-defined]
                out.append((s, status, val))
            return out
        if isinstance(stmt, ast.With):
            for item in stmt.items:
                if item.optional_vars is not None:
                    for n in ast.walk(item.optional_vars):
                        if isinstance(n, ast.Name):
                            st.env[n.id] = self._fresh(n.id, stmt, fr)
            return self._block(stmt.body, st, fr)
        if isinstance(stmt, ast.Raise):
            return [(st, "raise", None)]
        if isinstance(stmt, ast.Continue):
            return [(st, "continue", None)]
        if isinstance(stmt, ast.Break):
            return [(st, "break", None)]
        if isinstance(stmt, (ast.Pass, ast.Assert, ast.Import, ast.ImportFrom, ast.Global, ast.Nonlocal)):
            return [(st, "next", None)]
        if isinstance(stmt, ast.Delete):
            for t in stmt.targets:
                if isinstance(t, ast.Name):
                    st.env.pop(t.id, None)
            return [(st, "next", None)]
        if isinstance(stmt, ast.FunctionDef):
            st.env.pop(stmt.name, None)  # the name now refers to the nested function (resolved statically when it is called)
            return [(st, "next", None)]
        if isinstance(stmt, ast.ClassDef):
            st.env[stmt.name] = self._fresh(stmt.name, stmt, fr)
            return [(st, "next", None)]
        raise _Unsupported(f"a `{type(stmt).__name__.lower()}` statement ({self.tree.loc(stmt)})")

    def _yield(self, stmt: ast.Expr, st: _State, fr: _Frame):
        """``yield e`` in a loop of a generator function feeds the implicit sequence ``<yield>`` the call evaluates
        to; ``yield from S`` (outside loops, nothing yielded before) makes ``S`` that sequence."""
        if not fr.gen:
            raise _Unsupported(f"a yield outside a followed generator function ({self.tree.loc(stmt)})")
        y = stmt.value
        out = []
        for s in self._prepare([y.value], st, fr):
            v = self.ev(y.value, s, fr) if y.value is not None else ast.Constant(None)
            if isinstance(y, ast.Yield) and "<yield>" in s.appends:
                s.appends["<yield>"].append(v)
            elif isinstance(y, ast.YieldFrom) and "<yield>" not in s.appends and _is_empty_list(s.env.get("<yield>")):
                site = self._site(stmt, fr)
                e = self._element(v, site, fr)
                s.env["<yield>"] = self._seq(e.elem, e.var, e.src, e.ifs, (*e.sites, site), e.reordered)
            else:
                raise _Unsupported(f"a yield outside a single loop ({self.tree.loc(stmt)})")
            out.append((s, "next", None))
        return out

    def _try(self, stmt: ast.Try, st: _State, fr: _Frame):
        stored = {n.id for b in stmt.body for n in ast.walk(b) if isinstance(n, ast.Name) and isinstance(n.ctx, ast.Store)}
        lookups = [n for b in stmt.body for n in ast.walk(b) if isinstance(n, ast.Subscript) and isinstance(n.ctx, ast.Load) and not isinstance(n.slice, (ast.Constant, ast.Slice))]
        calls = [n for b in stmt.body for n in ast.walk(b) if isinstance(n, ast.Call)]
        exact = (len(stmt.body) == 1 and isinstance(stmt.body[0], (ast.Assign, ast.AnnAssign, ast.Return, ast.Expr, ast.AugAssign)) and len(lookups) == 1 and not calls
                 and not ({n.id for n in ast.walk(lookups[0]) if isinstance(n, ast.Name)} & stored))

        def catches_key(h: ast.ExceptHandler) -> bool:
            types = [] if h.type is None else (h.type.elts if isinstance(h.type, ast.Tuple) else [h.type])
            return any(unparse(t).split(".")[-1] in {"KeyError", "LookupError"} for t in types)

        where = self.tree.loc(stmt)
        out = []
        key_fact = None
        if exact and any(catches_key(h) for h in stmt.handlers):
            lk = lookups[0]
            key_fact = ast.Compare(left=self.ev(lk.slice, st, fr), ops=[ast.In()], comparators=[self.ev(lk.value, st, fr)])
        # the exceptional paths (the body is a single statement or the path is marked imprecise)
        for h in stmt.handlers:
            b = st.fork()
            if key_fact is not None and catches_key(h):
                b.facts.append((key_fact, False))
            else:
                b.imprecise.append(f"the exception handler of the try statement at {where}")
                for name in stored:
                    b.env[name] = self._fresh(name, stmt, fr)
            if h.name:
                b.env[h.name] = self._fresh(h.name, h, fr)
            out += self._block(h.body, b, fr)
        # the normal path
        if key_fact is not None:
            st.facts.append((key_fact, True))
        elif stmt.handlers and not exact:
            pass  # (the normal path is exact: every statement of the body completed)
        res = self._block(stmt.body, st, fr)
        for s, status, val in res:
            if status == "raise" and stmt.handlers:
                s.imprecise.append(f"a raise inside the try statement at {where}")
            if status == "next" and stmt.orelse:
                out += self._block(stmt.orelse, s, fr)
            else:
                out.append((s, status, val))
        if stmt.finalbody:
            final = []
            for s, status, val in out:
                for s2, status2, val2 in self._block(stmt.finalbody, s, fr):
                    final.append((s2, status2, val2) if status2 != "next" else (s2, status, val))
            out = final
        return out

    @staticmethod
    def _while_as_for(stmt: ast.While, st: _State) -> ast.For | None:
        """The ``for`` loop a ``while`` loop spells out, for the two plain walks over a sequence:
        ``while pending: x = pending.pop() ...`` (drains a list; the order does not matter to the rules that
        accept it: the result is marked re-ordered) and ``while i < len(xs): x = xs[i]; ...; i += 1``."""
        body = list(stmt.body)
        if not body:
            return None
        first = body[0]
        uses = lambda name, nodes: sum(isinstance(n, ast.Name) and n.id == name for b in nodes for n in ast.walk(b))  # noqa: E731
        loop = None
        if isinstance(stmt.test, ast.Name) and isinstance(first, ast.Assign) and len(first.targets) == 1 and isinstance(first.targets[0], ast.Name):
            c = first.value
            name = stmt.test.id
            if (isinstance(c, ast.Call) and isinstance(c.func, ast.Attribute) and c.func.attr in {"pop", "popleft"} and isinstance(c.func.value, ast.Name) and c.func.value.id == name
                    and not c.keywords and (not c.args or (len(c.args) == 1 and isinstance(c.args[0], ast.Constant) and c.args[0].value in {0, -1}))
                    and uses(name, body) == 1 and isinstance(st.env.get(name), ast.AST)):
                it = ast.Call(func=ast.Name(id="reversed", ctx=ast.Load()), args=[ast.Name(id=name, ctx=ast.Load())], keywords=[])
                loop = ast.For(target=first.targets[0], iter=it if not c.args or c.args[0].value == -1 else it.args[0], body=body[1:] or [ast.Pass()], orelse=list(stmt.orelse))
                loop._drained = name  # type: ignore[attr-defined]
        t = stmt.test
        if (loop is None and isinstance(t, ast.Compare) and len(t.ops) == 1 and isinstance(t.ops[0], ast.Lt) and isinstance(t.left, ast.Name)
                and isinstance(t.comparators[0], ast.Call) and isinstance(t.comparators[0].func, ast.Name) and t.comparators[0].func.id == "len"
                and len(t.comparators[0].args) == 1 and isinstance(t.comparators[0].args[0], ast.Name)):
            i, xs = t.left.id, t.comparators[0].args[0].id
            last = body[-1]
            start = st.env.get(i)
            if (isinstance(first, ast.Assign) and len(first.targets) == 1 and isinstance(first.targets[0], ast.Name) and isinstance(first.value, ast.Subscript)
                    and isinstance(first.value.value, ast.Name) and first.value.value.id == xs and isinstance(first.value.slice, ast.Name) and first.value.slice.id == i
                    and isinstance(last, ast.AugAssign) and isinstance(last.op, ast.Add) and isinstance(last.target, ast.Name) and last.target.id == i
                    and isinstance(last.value, ast.Constant) and last.value.value == 1 and isinstance(start, ast.Constant) and start.value == 0
                    and uses(i, body) == 2 and uses(xs, body) == 1 and len(body) >= 2
                    and not any(isinstance(n, ast.Continue) for b in body for n in ast.walk(b))):
                loop = ast.For(target=first.targets[0], iter=ast.Name(id=xs, ctx=ast.Load()), body=body[1:-1] or [ast.Pass()], orelse=list(stmt.orelse))
                loop._drained = None  # type: ignore[attr-defined]
        if loop is None:
            return None
        ast.copy_location(loop, stmt)
        ast.fix_missing_locations(loop)
        for attr in ("_module", "_parent"):
            if hasattr(stmt, attr):
                setattr(loop, attr, getattr(stmt, attr))
        return loop

    def _iter_alternatives(self, it: ast.AST, s: _State) -> list[tuple[_State, ast.AST]]:
        """``for x in A or B`` iterates ``A`` if it is non-empty, else ``B``; ``for x in (A if c else B)``."""
        if isinstance(it, ast.BoolOp) and isinstance(it.op, ast.Or) and len(it.values) == 2:
            a, b = it.values
            s1, s2 = s.fork(), s.fork()
            s1.facts.append((a, True))
            s2.facts.append((a, False))
            return [(s1, a), (s2, b)]
        if isinstance(it, ast.IfExp):
            known = _truth(it.test)
            out = []
            for outcome, arm in ((True, it.body), (False, it.orelse)):
                if known is not None and known != outcome:
                    continue
                b = s.fork()
                b.facts.append((it.test, outcome))
                out.append((b, arm))
            return out
        return [(s, it)]

    def _for(self, loop: ast.For, st: _State, fr: _Frame):
        out = []
        stored: set[str] = set()
        appended: set[str] = set()
        for n in walk_function(loop):
            if isinstance(n, ast.Name) and isinstance(n.ctx, ast.Store):
                stored.add(n.id)
            if isinstance(n, ast.Call) and isinstance(n.func, ast.Attribute) and n.func.attr in MUTATORS and isinstance(n.func.value, ast.Name):
                appended.add(n.func.value.id)
            if isinstance(n, ast.AugAssign) and isinstance(n.target, ast.Name):
                appended.add(n.target.id)
        if fr.gen and any(isinstance(n, ast.Yield) for n in walk_function(loop, nested=False)):
            appended.add("<yield>")
        for n in walk_function(loop, nested=False):  # lists handed down to a helper that appends to its parameter
            if isinstance(n, ast.Call) and any(isinstance(x, ast.Name) for x in [*n.args, *[k.value for k in n.keywords]]):
                tgt = self._callee(n, fr)
                if tgt is None:
                    continue
                for param, arg in self._arg_nodes(n, tgt).items():
                    if isinstance(arg, ast.Name) and any(isinstance(c, ast.Call) and isinstance(c.func, ast.Attribute) and c.func.attr == "append" and isinstance(c.func.value, ast.Name)
                                                         and c.func.value.id == param for c in walk_function(tgt.node, nested=False)):
                        appended.add(arg.id)
        targets = {n.id for n in ast.walk(loop.target) if isinstance(n, ast.Name)}
        site = self._site(loop, fr)
        for s0 in self._prepare([loop.iter], st, fr):
            for s, it in self._iter_alternatives(self.ev(loop.iter, s0, fr), s0):
                e = self._element(it, site, fr)
                self.loop_src[site] = e.src
                if e.empty:
                    out += self._block(loop.orelse, s, fr) if loop.orelse else [(s, "next", None)]
                    continue
                s.facts += [(c, True) for c in e.ifs if not is_marker(c)]  # the body runs for the elements that pass the filters
                accs = {a for a in appended if _is_empty_list(s.env.get(a))}
                carried: dict[str, tuple[str, ast.AST]] = {}
                for name in sorted(stored - targets):
                    if name not in accs:
                        old = s.env.get(name)
                        sym = self._fresh(name, loop, fr)  # loop-carried: value of an earlier iteration
                        s.env[name] = sym
                        self.carried[sym.id] = site
                        if old is not None:
                            carried[name] = (sym.id, old)
                self._assign(loop.target, e.elem, s, fr, loop)
                outer = s.appends
                s.appends = {a: [] for a in accs}
                results = self._block(loop.body, s, fr)
                live = [b for b, status, _ in results if status not in {"return", "raise"}]
                prods = {}
                for name, (symid, old) in carried.items():
                    parts = [_split_carried(b.env.get(name), symid) for b in live]
                    if parts and all(p is not None for p in parts) and any(parts):
                        prods[name] = (symid, old)
                for b, status, val in results:
                    if status == "raise":
                        out.append((b, status, val))
                        continue
                    if status == "return":
                        if val is None or is_none(val):
                            b.early.append((site, unparse(b.last_return) if b.last_return is not None else "return"))
                        else:
                            b.early.append((site, "<value>"))
                        out.append((b, status, val))
                        continue
                    left = status == "break"
                    for a in accs:
                        items = b.appends.get(a, [])
                        if not left and len(items) == 1:
                            b.env[a] = self._seq(items[0], e.var, e.src, list(e.ifs), (*e.sites, site), e.reordered)
                        else:
                            why = _marker(f"{len(items)} elements on a path{' that leaves the loop' if left else ''}")
                            b.env[a] = self._seq(items[0] if items else ast.Constant(None), e.var, e.src, [*e.ifs, why], (*e.sites, site), e.reordered)
                    for name, (symid, old) in prods.items():
                        rest = _split_carried(b.env.get(name), symid) or []
                        ifs = [*e.ifs, *([_marker("a path that leaves the loop")] if left else [])]
                        elt = _mult([f for f, _ in rest]) if rest else ast.Constant(1)
                        b.env[name] = _make_product(f"{site}/{name}", site, old, self._seq(elt, e.var, e.src, ifs, (*e.sites, site)), rest)
                    b.appends = {k: list(v) for k, v in outer.items()}
                    if left:
                        b.early.append((site, "break"))
                    if not left and loop.orelse:
                        out += self._block(loop.orelse, b, fr)
                    else:
                        out.append((b, "next", None))
        return out


# ---------------------------------------------------------------- facts about the partner mapping
def atoms(facts) -> list[tuple[ast.AST, bool]]:
    """Atomic conditions that certainly hold on a path: `not`, a true `and`, a false `or` are split."""
    out: list[tuple[ast.AST, bool]] = []

    def split(test: ast.AST, outcome: bool) -> None:
        if isinstance(test, ast.UnaryOp) and isinstance(test.op, ast.Not):
            split(test.operand, not outcome)
        elif isinstance(test, ast.BoolOp) and isinstance(test.op, ast.And if outcome else ast.Or):
            for v in test.values:
                split(v, outcome)
        else:
            out.append((test, outcome))

    for test, outcome in facts:
        split(test, outcome)
    return out


def is_mapping(e: ast.AST) -> bool:
    """`<object>.parity_partner_coefficient_mapping` (the public accessor or the private attribute)."""
    return isinstance(e, ast.Attribute) and e.attr.split("__")[-1] == MAPPING


def is_mapping_keys(e: ast.AST) -> bool:
    """The mapping as the right operand of `in`: the mapping itself or `mapping.keys()`."""
    if is_mapping(e):
        return True
    if isinstance(e, ast.Call) and isinstance(e.func, ast.Attribute) and e.func.attr == "keys" and not e.args and not e.keywords:
        return is_mapping(e.func.value)
    return (isinstance(e, ast.Call) and isinstance(e.func, ast.Name) and e.func.id in {"set", "frozenset", "list", "tuple", "dict"} and len(e.args) == 1 and not e.keywords
            and is_mapping_keys(e.args[0]))


def is_raw(e: ast.AST) -> bool:
    return isinstance(e, ast.Call) and (e.func.attr if isinstance(e.func, ast.Attribute) else getattr(e.func, "id", None)) == RAW_SUFFIX


def raw_node(e: ast.Call) -> ast.AST | None:
    """The node argument of generate_two_body_decay_suffix(transition, node_id)."""
    if len(e.args) >= 2:
        return e.args[1]
    return next((k.value for k in e.keywords if k.arg == "node_id"), None)


def mentions_mapping(e: ast.AST) -> bool:
    """(not looking into sequence / product values: the conditions they were built under are judged where they are used)"""
    todo = [e]
    while todo:
        n = todo.pop()
        if is_mapping(n):
            return True
        if not (_is_seq(n) or is_product(n)):
            todo.extend(ast.iter_child_nodes(n))
    return False


def _asserts(at, left_pred, op_pos, op_neg, right_pred) -> bool | None:
    """Does the atom assert (True) / deny (False) `left <op_pos> right`?  None: another atom."""
    test, outcome = at
    if isinstance(test, ast.Compare) and len(test.ops) == 1 and left_pred(test.left) and right_pred(test.comparators[0]):
        if isinstance(test.ops[0], op_pos):
            return outcome
        if isinstance(test.ops[0], op_neg):
            return not outcome
    return None


def registered(raw: ast.AST, ats) -> bool | None:
    """Is `raw in <mapping>` known on the path?"""
    for at in ats:
        r = _asserts(at, lambda x: _same(x, raw), ast.In, ast.NotIn, is_mapping_keys)
        if r is not None:
            return r
    return None


def registered_any(ats) -> bool | None:
    """Is `<some raw suffix> in <mapping>` known on the path?"""
    for at in ats:
        r = _asserts(at, is_raw, ast.In, ast.NotIn, is_mapping_keys)
        if r is not None:
            return r
    return None


def mapped_value(m: ast.AST, raw: ast.AST, ats) -> bool:
    """Is ``m`` the coefficient suffix the mapping gives for ``raw`` - ``raw`` itself if it is not registered?
    `mapping[raw]` (raises for an unregistered suffix), `mapping.get(raw, raw)`, and `mapping.get(raw[, D])` on a
    path where the result is known not to be the default ``D`` / the suffix is known to be registered."""
    if isinstance(m, ast.Subscript) and is_mapping(m.value) and _same(m.slice, raw):
        return True
    if isinstance(m, ast.Call) and isinstance(m.func, ast.Attribute) and m.func.attr == "get" and is_mapping(m.func.value) and not m.keywords and m.args and _same(m.args[0], raw):
        if len(m.args) == 2 and _same(m.args[1], raw):
            return True
        if len(m.args) in (1, 2):
            if registered(raw, ats):
                return True
            default = m.args[1] if len(m.args) == 2 else ast.Constant(None)
            is_default = lambda x: _same(x, default)  # noqa: E731
            same_m = lambda x: _same(x, m)  # noqa: E731
            if any(_asserts(at, same_m, ast.IsNot, ast.Is, is_default) or _asserts(at, is_default, ast.IsNot, ast.Is, same_m) for at in ats):
                return True
            if isinstance(default, ast.Constant):
                return any(_asserts(at, same_m, ast.NotEq, ast.Eq, is_default) or _asserts(at, is_default, ast.NotEq, ast.Eq, same_m) for at in ats)
    return False


def flip_atom(at, ats) -> tuple[bool, ast.Call] | None:
    """(is the node flipped?, raw suffix) if the atom compares the mapped suffix of a node with its raw suffix."""
    test, outcome = at
    if not (isinstance(test, ast.Compare) and len(test.ops) == 1 and isinstance(test.ops[0], (ast.Eq, ast.NotEq))):
        return None
    for m, raw in ((test.left, test.comparators[0]), (test.comparators[0], test.left)):
        if is_raw(raw) and mapped_value(m, raw, ats):
            return (isinstance(test.ops[0], ast.NotEq)) == outcome, raw
    return None


def flip_facts(facts) -> tuple[list[ast.Call], list[str]]:
    """(raw suffixes of the nodes that are known to be mapped to their partner - `mapped suffix != raw suffix`
    holds - on a path with these facts, conditions on the partner mapping that are not understood)."""
    ats = atoms(facts)
    flipped, unknown = [], []
    for at in ats:
        f = flip_atom(at, ats)
        if f is not None:
            if f[0]:
                flipped.append(f[1])
            continue
        test = at[0]
        if not mentions_mapping(test):
            continue
        if isinstance(test, ast.Compare) and len(test.ops) == 1 and isinstance(test.ops[0], (ast.In, ast.NotIn)) and is_mapping_keys(test.comparators[0]):
            continue  # registered / not registered: says nothing about the partner
        if isinstance(test, ast.Compare) and len(test.ops) == 1 and isinstance(test.ops[0], (ast.Is, ast.IsNot)):
            continue
        if _is_seq(test) or is_product(test):
            continue  # (the truth value of a collection / a product built under such conditions)
        unknown.append(unparse(test))
    return flipped, unknown


class PathFacts:
    """The paths of one function (SymExec) queried by statement."""

    def __init__(self, tree: Tree, fn: FuncInfo, atoms: frozenset | set = frozenset()) -> None:
        self.tree, self.fn = tree, fn
        self.sym = SymExec(tree, fn, atoms=atoms)
        self.finals = self.sym.run()
        if not self.finals:
            raise AnalysisError(f"{fn.qual}: no path returns")

    def at(self, node: ast.AST) -> list[tuple[list, ast.AST | None]]:
        """(facts, symbolic right-hand side) for every path on which the statement of ``node`` runs."""
        stmt = node if isinstance(node, ast.stmt) else next(a for a in ancestors(node) if isinstance(a, ast.stmt))
        out, seen = [], set()
        for st, _ in self.finals:
            for sid, n, value in st.reached:
                if sid != id(stmt):
                    continue
                facts = st.facts[:n]
                key = (tuple((ast.dump(t), o) for t, o in facts), ast.dump(value) if value is not None else None)
                if key not in seen:
                    seen.add(key)
                    out.append((facts, value))
        if not out:
            raise AnalysisError(f"{self.fn.qual}: `{unparse(stmt)}` is on no path of the function")
        return out


# ---------------------------------------------------------------------------------- R-DEPENDS
NUMERIC_WRAPPERS = {"sympy.Rational", "sympy.Integer", "sympy.Float", "sympy.S", "sympy.sympify", "sympy.nsimplify", "sympy.Number", "float", "int",
                    "fractions.Fraction", "sympy.core.numbers.Rational", "sympy.core.numbers.Integer"}


def node_source(src: ast.AST | None) -> bool:
    """Does the iterable range over the nodes of the chain?  `<transition>.topology.nodes`, or the keys of
    `<transition>.interactions` (qrules defines an interaction for exactly the nodes of the topology)."""
    if src is None:
        return False
    text = unparse(src)
    return text.endswith("topology.nodes") or text.endswith(".interactions")


def check_none_means_one(ctx: Check, tree: Tree, fn: FuncInfo, paths: PathFacts, handed_sites: set[str]) -> None:
    """R-DEPENDS: the product is handed out whenever it is not 1 - `None` (no prefactor) only stands for +1.
    Every path that answers None after the loop knows `X == 1` for the value X that the other paths hand out;
    a path that answers None although it knows `X != 1` loses the sign; a path that knows that the sequence the product
    ranges over is empty (`if not flipped_nodes: return None`) answers None for the initial value 1.  A None under other
    conditions is not decided."""
    anything = lambda v: True  # noqa: E731
    handed_out = [ast.dump(v) for _, v in paths.finals if not is_none(v)]
    if not handed_out:
        return

    def is_the_product(x: ast.AST) -> bool:
        if is_one(x):
            return True
        if any(product_site(p) in handed_sites for p in products_in(x)):
            return True
        return any(ast.dump(x) in h for h in handed_out)

    # a sequence the handed-out product ranges over (through maps / filters): if it is empty the product is its initial value
    handed_seq_sites = {s for _, v in paths.finals if not is_none(v) for p in products_in(v) for s in getattr(p.args[1], "_sites", ())}

    def known_empty(at) -> ast.AST | None:
        """The sequence the atom knows to be empty (`not xs`, `len(xs) == 0`, ...)."""
        test, outcome = at
        if _is_seq(test):
            return test if not outcome else None
        if isinstance(test, ast.Compare) and len(test.ops) == 1:
            a, b, op = test.left, test.comparators[0], test.ops[0]
            if (isinstance(a, ast.Call) and isinstance(a.func, ast.Name) and a.func.id == "len" and len(a.args) == 1 and _is_seq(a.args[0])
                    and isinstance(b, ast.Constant) and isinstance(b.value, int) and not isinstance(b.value, bool)):
                empty_if = {(ast.Eq, 0): True, (ast.NotEq, 0): False, (ast.Gt, 0): False, (ast.Lt, 1): True, (ast.GtE, 1): False, (ast.LtE, 0): True}.get((type(op), b.value))
                if empty_if is not None and empty_if == outcome:
                    return a.args[0]
        return None

    lost, undecided, where = [], [], None
    for st, v in paths.finals:
        if not is_none(v) or st.early:
            continue  # (a None from inside a loop is reported as leaving the loop early)
        known = None
        for at in atoms(st.facts):
            empty = known_empty(at)
            if empty is not None and set(getattr(empty, "_sites", ())) & handed_seq_sites:
                known = True if known is None else known  # no node contributes: the product is its initial value 1
            for holds, x in ((_asserts(at, anything, ast.Eq, ast.NotEq, is_one), at[0].left if isinstance(at[0], ast.Compare) else None),
                             (_asserts(at, is_one, ast.Eq, ast.NotEq, anything), at[0].comparators[0] if isinstance(at[0], ast.Compare) else None)):
                if holds is not None and x is not None and is_the_product(x):
                    known = holds if known is None else (known and holds)
        path = " and ".join(f"{'' if o else 'not '}({unparse(t)})" for t, o in st.facts[-2:])[:300] or "unconditionally"
        if known is False:
            lost.append(path)
        elif known is None:
            undecided.append(path)
        if where is None and st.top_return is not None:
            where = next((g for g in ancestors(st.top_return) if isinstance(g, ast.If)), None)
    key = f"{fn.qual}::returned-iff-not-one"
    if lost or not undecided:
        ctx.verdict(not lost, "R-DEPENDS", key, tree.loc(where if where is not None else fn.node),
                    "the accumulated prefactor is handed out whenever it differs from 1 (None stands for +1 only): every path that answers None knows `prefactor == 1`",
                    None if not lost else {"a product of -1 is answered with None: the chain loses its parity sign. None is answered on the path(s)": sorted(set(lost))[:3]})
    if undecided:
        raise AnalysisError(f"{fn.qual}: None (no prefactor) is answered on a path that does not compare the product with 1 ({sorted(set(undecided))[0][:200]}): cannot decide whether the product is 1 there")


def check_prefactor(ctx: Check, tree: Tree, fn: FuncInfo) -> None:
    """R-DEPENDS on the VALUE of the parity-prefactor function (every path, one generic node per loop): the value
    handed out is a product over the nodes of the chain; every factor a node contributes (i) is contributed only
    on paths that know `mapped suffix != raw suffix` for the raw suffix of THAT node, and (ii) is the
    parity_prefactor of the interaction of THAT node; the product starts from 1, no loop over the nodes is left
    early, and None is answered only where the product is known to be 1."""
    paths = PathFacts(tree, fn)
    sym = paths.sym
    ctx.stats["paths"] = len(paths.finals)
    handed = [(st, v) for st, v in paths.finals if not is_none(v)]
    if not handed:
        raise AnalysisError(f"{fn.qual}: no non-None return")

    verdicts: dict[str, dict] = {}
    undecided: list[str] = []

    def note(key: str, where, what: str, problem: str | None = None) -> None:
        rec = verdicts.setdefault(key, {"where": tree.loc(where) if where is not None else tree.loc(fn.node), "what": what, "problems": []})
        if problem and problem not in rec["problems"]:
            rec["problems"].append(problem)

    def origin_key(origin) -> tuple[str, str]:
        if isinstance(origin, ast.stmt):
            return f"{fn.qual}::update {unparse(origin)}", f"`{unparse(origin)}`"
        if isinstance(origin, ast.Call):
            return f"{fn.qual}::product {unparse(origin.func)}", f"the product `{unparse(origin.func)}(...)`"
        return f"{fn.qual}::product", "the product"

    def numeric_core(v: ast.AST) -> ast.AST:
        while True:
            if isinstance(v, ast.Call) and len(v.args) == 1 and not v.keywords and sym._fname(v.func) in NUMERIC_WRAPPERS:
                v = v.args[0]
            elif isinstance(v, ast.UnaryOp) and isinstance(v.op, ast.UAdd):
                v = v.operand
            else:
                return v

    def leaves(v: ast.AST) -> list[ast.AST]:
        """The multiplicative leaves of a value (through numeric conversions; `-x` is `-1 * x`)."""
        v = numeric_core(v)
        if isinstance(v, ast.UnaryOp) and isinstance(v.op, ast.USub):
            return [ast.Constant(-1), *leaves(v.operand)]
        if isinstance(v, ast.BinOp) and isinstance(v.op, ast.Mult):
            return leaves(v.left) + leaves(v.right)
        return [v]

    def is_number(f: ast.AST) -> bool:
        return isinstance(f, ast.Constant) and isinstance(f.value, (int, float)) and not isinstance(f.value, bool)

    def mentions(e: ast.AST, eid: str) -> bool:
        return any(isinstance(n, ast.Name) and n.id == eid for n in ast.walk(e))

    def interaction_node(e: ast.AST, prefix: bool = False) -> ast.AST | None:
        """N if ``e`` is `<...>.interactions[N]` (``prefix``: or an attribute chain on it)."""
        while prefix and isinstance(e, ast.Attribute):
            e = e.value
        if isinstance(e, ast.Subscript) and isinstance(e.value, ast.Attribute) and e.value.attr == "interactions":
            return e.slice
        return None

    def irrelevant(t: ast.AST) -> bool:
        """Conditions on a node that are known not to be the flip test."""
        if isinstance(t, ast.Compare) and len(t.ops) == 1:
            a, b, op = t.left, t.comparators[0], t.ops[0]
            if isinstance(op, (ast.Is, ast.IsNot)) and (is_none(a) or is_none(b)):
                return True  # `eta is None`, `mapping.get(raw) is None`
            if isinstance(op, (ast.In, ast.NotIn)) and is_mapping_keys(b):
                return True  # registered / not registered
            if isinstance(op, (ast.Eq, ast.NotEq)) and (is_number(a) or is_number(b) or products_in(t)):
                return True  # the product compared with 1
            if flip_atom((t, True), [(t, True)]) is not None or (isinstance(op, (ast.Eq, ast.NotEq)) and (is_raw(a) or is_raw(b)) and mentions_mapping(t)):
                return True  # the flip test itself (it did not hold)
        if _is_seq(t) or is_product(t):
            return True
        if interaction_node(t) is not None:
            return True  # `if interaction:`
        return False

    def ret_key(st: _State, v: ast.AST) -> tuple[str, ast.AST]:
        ret = st.top_return
        text = unparse(ret.value) if ret is not None and ret.value is not None else unparse(v)[:80]
        return f"{fn.qual}::return {text}", ret if ret is not None else fn.node

    raws_ok: list[ast.Call] = []
    raw_problems: list[str] = []
    loops_of_interest: set[str] = set()
    handed_sites: set[str] = set()
    n_contrib = 0

    def judge(p: ast.Call, st: _State) -> None:
        """One product value on one path."""
        nonlocal n_contrib
        init, seq = p.args
        g = seq.generators[0]
        markers = [c.id for c in g.ifs if is_marker(c)]
        conds = [c for c in g.ifs if not is_marker(c)]
        # ---- it starts from 1 (or from another product, which is judged on its own)
        for f in leaves(init):
            if is_one(f) or is_product(f):
                continue
            if is_number(f):
                note(f"{fn.qual}::initial-value", None, f"{fn.qual}: the product over the flipped nodes starts from 1", f"starts from the constant {f.value!r}: every chain gets that factor, flipped or not")
            else:
                undecided.append(f"the product starts from `{unparse(f)[:80]}`, which is neither 1 nor a product over the nodes")
        if any(m.startswith("<0 elements: the iterable is empty") for m in markers):
            return
        if not node_source(g.iter):
            undecided.append(f"a product over `{unparse(g.iter)[:80]}` - cannot tell whether that ranges over the nodes of the chain")
            return
        loops_of_interest.update({p._loop, *getattr(seq, "_sites", ())})
        if any("leaves the loop" in m for m in markers):
            note(f"{fn.qual}::loop-left-early::break", None, f"{fn.qual}: the loop over the nodes of the chain runs over ALL nodes",
                 "a `break` leaves the loop before all nodes were looked at: the parity factors of flipped nodes that come later in the chain are dropped (a guard clause of a per-node test is `continue`)")
            return
        if any(m.startswith("<0 elements") for m in markers):
            return  # nothing is contributed for this node on this path
        if markers:
            undecided.append(f"a node contributes `{markers[0]}` to the product")
            return
        if not isinstance(g.target, ast.Name):
            undecided.append(f"the element `{unparse(g.target)}` of the product is not a single node")
            return
        eid = g.target.id
        facts = [*st.facts, *((c, True) for c in conds)]
        n_reads = sum(1 for factor, _ in p._factors for leaf in leaves(factor) if isinstance(leaf, ast.Attribute) and leaf.attr == "parity_prefactor")
        if n_reads > 1:
            key2, text2 = origin_key(p._factors[-1][1])
            note(key2, None, f"{fn.qual}: {text2} multiplies the parity factor of exactly the flipped node", f"a node contributes its parity factor {n_reads} times on one path: eta^2 = 1 loses the sign")
        for factor, origin in p._factors:
            if is_one(numeric_core(factor)):
                continue
            n_contrib += 1
            key, text = origin_key(origin)
            origin_node = origin if isinstance(origin, ast.AST) and hasattr(origin, "_module") else None
            note(key, origin_node, f"{fn.qual}: {text} multiplies the parity factor of exactly the flipped node")
            # (i) guarded by the flip test of this node
            flipped, unknown = flip_facts(facts)
            mine = [r for r in flipped if isinstance(raw_node(r), ast.Name) and raw_node(r).id == eid]
            others = [r for r in flipped if r not in mine]
            if mine:
                raws_ok.extend(mine)
            elif others and isinstance(raw_node(others[0]), ast.Name) and raw_node(others[0]).id in sym.elements:
                note(key, origin_node, "", f"applied to nodes that were NOT mapped to a partner (the flip test on the path is about the element `{raw_node(others[0]).id}` of another loop)")
            elif others:
                other = raw_node(others[0])
                if other is None or isinstance(other, ast.Constant):
                    raw_problems.append(f"the flip test looks up `{unparse(others[0])[:100]}`, the factor is contributed by the node `{eid}`")
                else:
                    undecided.append(f"the flip test looks up the suffix of `{unparse(other)[:80]}` - cannot tell whether that is the node `{eid}` whose factor is multiplied")
            elif unknown:
                undecided.append(f"cannot decide whether the condition `{unknown[0][:120]}` on the partner mapping is the flip test `mapped suffix != raw suffix`")
            else:
                ats = atoms(facts)
                hidden = [c for t, _ in ats for c in sym.opaque_calls(t)]
                strange = [unparse(t)[:100] for t, _ in ats if mentions(t, eid) and not irrelevant(t)]
                if hidden or st.imprecise:
                    undecided.append(f"{text} is reached under a condition that was not followed (`{(hidden or st.imprecise)[0]}`): cannot decide whether it is the flip test")
                elif strange:
                    undecided.append(f"{text} is reached under the condition `{strange[0]}` on the node: cannot decide whether that stands for the flip test `mapped suffix != raw suffix`")
                else:
                    note(key, origin_node, "", "applied to nodes that were NOT mapped to a partner (not under `mapped != raw`)")
            # (ii) the parity factor of this node: `<...>.interactions[<this node>].parity_prefactor`
            reads = [n for n in ast.walk(factor) if isinstance(n, ast.Attribute) and n.attr == "parity_prefactor"]
            nodes_read = [interaction_node(n.value) for n in reads]
            if sym.opaque_calls(factor):
                undecided.append(f"the factor of {text} comes out of `{sym.opaque_calls(factor)[0]}(...)`, which the path analysis could not follow")
            elif all(is_number(f) for f in leaves(factor)):
                note(key, origin_node, "", f"the factor is the constant `{unparse(factor)[:40]}`, not interaction.parity_prefactor")
            elif not reads:
                if interaction_node(factor, prefix=True) is not None:
                    note(key, origin_node, "", f"the factor `{unparse(factor)[:80]}` is not interaction.parity_prefactor")
                else:
                    undecided.append(f"the factor `{unparse(factor)[:80]}` of {text} is not read as the parity_prefactor of an interaction of the transition")
            elif any(isinstance(n, ast.Name) and n.id == eid for n in nodes_read if n is not None):
                # exactly the parity factor: no further constant, no second factor of the node
                for leaf in leaves(factor):
                    if is_one(leaf) or (isinstance(leaf, ast.Attribute) and leaf.attr == "parity_prefactor"):
                        continue
                    if is_number(leaf):
                        note(key, origin_node, "", f"the factor `{unparse(factor)[:80]}` carries the constant {leaf.value!r} next to the parity factor of the node")
                    else:
                        undecided.append(f"the factor `{unparse(factor)[:80]}` of {text} is not read as the plain parity_prefactor of the node (`{unparse(leaf)[:60]}`)")
            elif any(n is not None and (isinstance(n, ast.Constant) or (isinstance(n, ast.Name) and n.id in sym.elements)) for n in nodes_read):
                note(key, origin_node, "", f"the factor `{unparse(factor)[:80]}` does not depend on the node of the iteration")
            elif mentions(factor, eid):
                pass  # (the interaction is reached from the node in another way, e.g. a decay object built for it)
            else:
                undecided.append(f"cannot tell which node the factor `{unparse(factor)[:80]}` of {text} belongs to")

    for st, v in handed:
        key, where = ret_key(st, v)
        inner = [n.id for n in ast.walk(v) if isinstance(n, ast.Name) and n.id in sym.carried]
        if inner:
            # a value handed out from inside a loop never saw the remaining elements: whatever it is, it is
            # not the product over ALL flipped nodes of the chain (and without the flip test not even of this one)
            site = sym.carried[inner[0]]
            if (site, "<value>") not in st.early:
                undecided.append(f"the loop-carried value `{inner[0].split('@')[0]}` in `{unparse(v)[:80]}` is not read as a product over the elements of its loop")
                continue
            if not node_source(sym.loop_src.get(site)):
                undecided.append(f"`{unparse(v)[:80]}` is handed out from inside a loop over `{unparse(sym.loop_src.get(site)) if sym.loop_src.get(site) is not None else '?'}`")
                continue
            flipped, _ = flip_facts(st.facts)
            ctx.verdict(False, "R-DEPENDS", key + "::guard", tree.loc(where), f"{fn.qual}: the value handed out is the product over all flipped nodes",
                        "returned before the remaining nodes of the chain were looked at: the parity factors of flipped nodes that come later are dropped" if flipped
                        else "returned from inside the node loop for a node that was not mapped to a partner")
            continue
        prods = products_in(v)
        handed_sites.update(product_site(p) for p in prods)
        if not prods:
            core = numeric_core(v)
            if is_one(core):
                continue
            hidden = sym.opaque_calls(v)
            if is_number(core):
                ctx.violation("R-DEPENDS", key, tree.loc(where),
                              f"{fn.qual}: the constant `{unparse(v)[:120]}` is handed out without looking at the individual nodes of the chain (no product over transition.topology.nodes)",
                              "a value that does not depend on the nodes cannot tell which node was flipped: for two parity-constrained nodes of unlike eta of which one is flipped the chain gets the wrong sign")
            else:
                undecided.append(f"`{unparse(v)[:100]}` is handed out: cannot read it as a product over the nodes" + (f" (`{hidden[0]}(...)` was not followed)" if hidden else ""))
            continue
        # other factors next to the product(s)?
        for f in leaves(v):
            if is_product(f) or is_one(f):
                continue
            if is_number(f):
                ctx.violation("R-DEPENDS", key + "::constant-factor", tree.loc(where), f"{fn.qual}: `{unparse(v)[:100]}` carries the constant factor {f.value!r} next to the product over the flipped nodes: every chain with a prefactor gets it, whatever was flipped")
            elif products_in(f):
                undecided.append(f"the product over the nodes is handed out inside `{unparse(f)[:80]}`: cannot read that as the product itself")
            else:
                undecided.append(f"`{unparse(f)[:80]}` is multiplied to the product over the nodes: not a parity factor of a flipped node")
        contributing = [p for p in prods if any(not is_one(numeric_core(f)) for f, _ in p._factors)]
        if len(contributing) > 1:
            undecided.append(f"`{unparse(v)[:60]}...` multiplies {len(contributing)} products over the nodes: cannot tell whether a node contributes its factor more than once")
        for p in prods:
            judge(p, st)

    # ---- leaving a loop over the nodes early (`return None` inside it; `break` is seen in the product)
    for st, v in paths.finals:
        for site, how in st.early:
            if how not in {"break", "<value>"} and is_none(v) and site in loops_of_interest:
                note(f"{fn.qual}::loop-left-early::{how}", st.last_return, f"{fn.qual}: the loop over the nodes of the chain runs over ALL nodes",
                     f"`{how}` leaves the loop over the nodes before all nodes were looked at: the parity factors of flipped nodes that come later in the chain are dropped (a guard clause of a per-node test is `continue`)")

    for key, rec in verdicts.items():
        ctx.verdict(not rec["problems"], "R-DEPENDS", key, rec["where"], rec["what"], rec["problems"] or None)
    ctx.stats["contributions_judged"] = n_contrib
    if raws_ok or raw_problems:
        ctx.verdict(not raw_problems, "R-DEPENDS", f"{fn.qual}::raw-suffix-of-node", tree.loc(fn.node),
                    "the raw suffix compared with its mapped suffix is generate_two_body_decay_suffix(transition, <node>) of the node whose factor is multiplied", sorted(set(raw_problems)) or None)
    if undecided:
        raise AnalysisError(f"{fn.qual}: " + "; ".join(sorted(set(undecided))[:3]))
    if n_contrib == 0 and not any(i.verdict in {"violation", "known"} and i.rule == "R-DEPENDS" for i in ctx.instances):
        raise AnalysisError(f"{fn.qual}: no factor is contributed to the value handed out on any path - the rule would pass vacuously")
    check_none_means_one(ctx, tree, fn, paths, handed_sites)


# ---------------------------------------------------------------------------------- R-PARTNER
def _bind_signature(call: ast.Call, fn: FuncInfo) -> dict[str, ast.AST] | None:
    """Arguments of a (symbolic) call by parameter name of ``fn`` (defaults filled in); None if not decidable."""
    a = fn.node.args
    if a.vararg or a.kwarg or any(isinstance(x, ast.Starred) for x in call.args) or any(k.arg is None for k in call.keywords):
        return None
    positional = [x.arg for x in [*a.posonlyargs, *a.args]]
    if len(call.args) > len(positional):
        return None
    out = dict(zip(positional, call.args))
    names = set(positional) | {x.arg for x in a.kwonlyargs}
    for k in call.keywords:
        if k.arg not in names or k.arg in out:
            return None
        out[k.arg] = k.value
    defaults = dict(zip(reversed(positional), reversed(a.defaults)))
    defaults.update({x.arg: d for x, d in zip(a.kwonlyargs, a.kw_defaults) if d is not None})
    for p in names:
        if p not in out:
            if p not in defaults:
                return None
            out[p] = defaults[p]
    return out


def _const(v: ast.AST):
    return v.value if isinstance(v, ast.Constant) else ...


def check_daughter_order(ctx: Check, tree: Tree) -> None:
    """R-PARTNER: the order in which the two daughters appear in a coefficient name must not depend
    on their helicities - otherwise (+l, -l) and (-l, +l) of two identical daughters get the same
    name (one coefficient, relative factor +1 instead of eta).  get_sorted_states sorts by particle
    name only; ties keep the order of the state ids (sorted() is stable).  The sort key is read as the
    expression it computes for a state (lambda, operator.attrgetter, a helper function)."""
    fn = tree.func("ampform.helicity.decay::get_sorted_states")
    paths = PathFacts(tree, fn)
    sym = paths.sym
    sorts: list[tuple[ast.AST | None, bool]] = []  # (sort key function, understood)
    seen = set()
    for _, value in paths.finals:
        c = value  # the sort that produces the value handed out (an inner `sorted(state_ids)` only fixes the order of ties)
        while isinstance(c, ast.Call) and sym._fname(c.func) in SAME_ELEMENTS and len(c.args) == 1 and not c.keywords:
            c = c.args[0]
        if isinstance(c, ast.Call) and sym._fname(c.func) == "sorted" and ast.dump(c) not in seen:
            seen.add(ast.dump(c))
            if any(k.arg is None for k in c.keywords) or len(c.args) != 1:
                raise AnalysisError(f"{fn.qual}: cannot read the arguments of `{unparse(c)[:100]}`")
            sorts.append(next((k.value for k in c.keywords if k.arg == "key"), None))
    if not sorts:
        # an in-place sort of the list that is handed out
        for st, _ in paths.finals:
            for sid, _, value in st.reached:
                if isinstance(value, ast.Call) and isinstance(value.func, ast.Attribute) and value.func.attr == "sort" and ast.dump(value) not in seen:
                    seen.add(ast.dump(value))
                    if value.args or any(k.arg is None for k in value.keywords):
                        raise AnalysisError(f"{fn.qual}: cannot read the arguments of `{unparse(value)[:100]}`")
                    sorts.append(next((k.value for k in value.keywords if k.arg == "key"), None))
    if not sorts:
        raise AnalysisError(f"{fn.qual}: no sorted(...) / .sort(...) found in the value handed out - cannot tell how the states are ordered")
    problems = []
    state = ast.Name(id="<state>", ctx=ast.Load())
    for key in sorts:
        if key is None or is_none(key):
            problems.append("no sort key: State objects are ordered by all their fields, including the spin projection")
            continue
        body = sym._apply(key, [state], fn.node, _State(), sym.top)
        if body is None or not any(isinstance(n, ast.Name) and n.id == "<state>" for n in ast.walk(body)) and not isinstance(key, ast.Lambda):
            raise AnalysisError(f"{fn.qual}: cannot read the sort key `{unparse(key)[:100]}` as an expression of the state")
        hidden = [unparse(c.func) for c in ast.walk(body) if isinstance(c, ast.Call) and any(isinstance(n, ast.Name) and n.id == "<state>" for a in c.args for n in ast.walk(a))
                  and sym._fname(c.func) not in {"str", "tuple", "repr"} and not (isinstance(c.func, ast.Attribute) and c.func.attr in {"lower", "upper", "casefold", "strip"})]
        attrs = {n.attr for n in ast.walk(body) if isinstance(n, ast.Attribute)}
        text = unparse(body).replace("<state>", "s")
        if attrs & {"spin_projection", "helicity"}:
            problems.append(f"the sort key `{text}` depends on the spin projection")
        elif hidden or any(isinstance(n, ast.Name) and n.id == "<state>" and not isinstance(getattr(n, "_p", None), ast.Attribute) for n in _with_parents(body)):
            raise AnalysisError(f"{fn.qual}: the sort key `{text}` uses the state in a way that is not followed ({(hidden or ['the whole state'])[0]}): cannot decide whether it depends on the helicity")
        # (a key that reads other fields of the particle than its name orders the daughters differently, but not by helicity)
    ctx.verdict(not problems, "R-PARTNER", f"{fn.qual}::order-independent-of-helicity", tree.loc(fn.node),
                "get_sorted_states orders the daughters by a key that does not read their helicity (the particle name)", problems or None)


def _with_parents(expr: ast.AST):
    for parent in ast.walk(expr):
        for child in ast.iter_child_nodes(parent):
            child._p = parent  # type: ignore[attr-defined]
    return list(ast.walk(expr))


def check_partner_key_flags(ctx: Check, tree: Tree) -> None:
    """R-PARTNER (flags): which chains share a coefficient AND whether a chain is the flipped partner
    are both decided by comparing strings: the chain's own suffix (generate_two_body_decay_suffix) with
    the partner suffix that __generate_amplitude_coefficient_couple builds.  The partner suffix always
    carries the daughter helicities and a plain arrow.  An own suffix whose daughter helicities or whose
    arrow depend on a *display* flag changes the physics with the flag:
      - daughters without helicities: reversed chains collapse onto one name and are never recognised as
        partners - one coefficient, no parity sign;
      - canonical names with a plain arrow: the partner IS recognised and the prefactor is applied on top
        of the Clebsch-Gordan coefficients that already carry the parity relation.
    (insert_parent_helicities only splits coefficients - chains that do not share a coefficient are
    outside the premise of the property - and is exempt.)"""
    mod = "ampform.helicity.naming"
    couple = tree.func(f"{mod}::HelicityAmplitudeNameGenerator.__generate_amplitude_coefficient_couple")
    own_calls = [c for c in walk_function(couple.node) if isinstance(c, ast.Call) and unparse(c.func).endswith(RAW_SUFFIX)]
    if not own_calls:
        raise AnalysisError(f"{couple.qual}: the own suffix is no longer generate_two_body_decay_suffix(...) - rule shape unknown")
    # every implementation (overrides included) on the own-suffix path: the implementations of
    # generate_two_body_decay_suffix and every method / function of the module they reach (by name for methods,
    # so that overrides in subclasses are included)
    start = sorted(q for q, f in tree.funcs.items() if q.startswith(mod + "::") and f.name == RAW_SUFFIX and f.cls is not None)
    if not start:
        raise AnalysisError(f"vanished anchor: no implementation of {RAW_SUFFIX} in {mod}")
    path, todo = set(start), list(start)
    while todo:
        f = tree.funcs[todo.pop()]
        for call, q in tree.calls_in(f):
            names = set()
            if q in tree.funcs and tree.funcs[q].module.name == mod:
                names.add(q)
                if tree.funcs[q].cls is not None:  # a method: every override of it
                    names |= {g.qual for g in tree.funcs.values() if g.cls is not None and g.name == tree.funcs[q].name and g.module.name == mod}
            elif isinstance(call.func, ast.Attribute) and isinstance(call.func.value, ast.Call) and unparse(call.func.value.func) == "super":
                names |= {g.qual for g in tree.funcs.values() if g.cls is not None and g.name == call.func.attr and g.module.name == mod}
            for n in names - path:
                path.add(n)
                todo.append(n)
    # (properties of the generator that only return a flag are part of the path: the flag is found in them under its own name)
    if len(path) < 3:
        raise AnalysisError(f"only {len(path)} implementations on the own-suffix path (3 confirmed: generate_two_body_decay_suffix and two _get_coefficient_components)")
    exempt = {"insert_parent_helicities": "only adds the parent's helicity to the own name: chains stop sharing a coefficient, none shares one without the sign"}
    found: dict[str, list] = {}
    for q in sorted(path):
        fn = tree.funcs[q]
        for n in walk_function(fn.node):
            if isinstance(n, ast.Attribute) and isinstance(n.value, ast.Name) and n.value.id == "self":
                flag = n.attr.split("__")[-1]
                if flag.startswith("insert_"):
                    found.setdefault(flag, []).append((fn, n))
    ctx.stats["display_flags_on_partner_key_path"] = len(found)
    if not found:
        ctx.ok("R-PARTNER", tree.loc(couple.node), "the suffix that decides coefficient sharing and the parity flip does not depend on a display flag")
    for flag, sites in sorted(found.items()):
        fn, node = sites[0]
        key = f"{couple.qual}::partner-key-depends-on-display-flag::{flag}"
        if flag in exempt:
            ctx.ok("R-PARTNER", tree.loc(node), f"display flag `{flag}` enters the own suffix: {exempt[flag]}")
            continue
        ctx.violation("R-PARTNER", key, tree.loc(node),
                      f"the own suffix compared with the partner suffix depends on the display flag `{flag}` ({fn.qual.split('::')[-1]}): with the non-default value, chains that differ by reversing the daughter helicities share a coefficient without / with a doubled parity sign",
                      {"read at": [tree.loc(n_) for _, n_ in sites][:3], "partner suffix": "always `parent -> child_{-l1} child_{-l2}` (helicities, plain arrow)"})


def check_partner_suffix_value(ctx: Check, tree: Tree, cls) -> None:
    """R-PARTNER: the partner suffix renders the parent WITHOUT helicity and BOTH daughters with
    make_parity_partner=True.  Read off the value __generate_amplitude_coefficient_couple hands out: every
    `_state_to_str(state, use_helicity, make_parity_partner)` in it (arguments bound by parameter name, helpers
    and string building followed) is classified by the state it renders - the parent / a daughter delivered by
    get_helicity_info(transition, node)."""
    couple = cls.methods.get("__generate_amplitude_coefficient_couple")
    if couple is None:
        raise AnalysisError("vanished anchor: __generate_amplitude_coefficient_couple")
    sts = tree.func("ampform.helicity.naming::_state_to_str")
    paths = PathFacts(tree, couple, atoms={"_state_to_str", "get_helicity_info"})
    sym = paths.sym
    is_info = lambda e: isinstance(e, ast.Call) and (e.func.attr if isinstance(e.func, ast.Attribute) else getattr(e.func, "id", None)) == "get_helicity_info"  # noqa: E731

    def index(e: ast.AST, of) -> int | None:
        """k if e is ``<of>[k]``."""
        if isinstance(e, ast.Subscript) and of(e.value) and isinstance(e.slice, ast.Constant) and isinstance(e.slice.value, int):
            return e.slice.value
        return None

    is_children = lambda e: index(e, is_info) == 1  # noqa: E731
    calls: list[tuple[ast.Call, ast.ListComp | None]] = []
    seen = set()

    def collect(n: ast.AST, seq) -> None:
        if isinstance(n, ast.Call) and (n.func.attr if isinstance(n.func, ast.Attribute) else getattr(n.func, "id", None)) == "_state_to_str":
            if ast.dump(n) not in seen:
                seen.add(ast.dump(n))
                calls.append((n, seq))
        if _is_seq(n):
            collect(n.elt, n)
            for c in n.generators[0].ifs:
                collect(c, seq)
            return
        for c in ast.iter_child_nodes(n):
            collect(c, seq)

    for _, value in paths.finals:
        collect(value, None)
    key = f"{couple.qual}::partner-suffix"
    shown = [unparse(c)[:120] for c, _ in calls]
    if not calls:
        raise AnalysisError(f"{couple.qual}: no _state_to_str(...) in the value handed out - cannot tell how the partner suffix is rendered")
    problems, parent_ok, daughters, plain = [], False, set(), set()
    for call, seq in calls:
        b = _bind_signature(call, sts)
        if b is None or not {"state", "use_helicity", "make_parity_partner"} <= set(b):
            raise AnalysisError(f"{couple.qual}: cannot bind the arguments of `{unparse(call)[:100]}` to the parameters of _state_to_str")
        state, use, partner = b["state"], _const(b["use_helicity"]), _const(b["make_parity_partner"])
        if index(state, is_info) == 0:  # the parent
            if use is False:
                parent_ok = True
            elif use is True:
                problems.append(f"the parent is rendered WITH its helicity in `{unparse(call)[:100]}`: the partner suffix never equals an own suffix")
            else:
                raise AnalysisError(f"{couple.qual}: `use_helicity` of the parent is `{unparse(b['use_helicity'])[:60]}` - not a constant")
            continue
        which = None
        if isinstance(state, ast.Name) and state.id in sym.elements and is_children(sym.elements[state.id]):
            if seq is None or not isinstance(seq.generators[0].target, ast.Name) or seq.generators[0].target.id != state.id:
                raise AnalysisError(f"{couple.qual}: `{unparse(call)[:100]}` renders a daughter outside a sequence over the daughters")
            filters = seq.generators[0].ifs
            if filters:
                problems.append(f"not every daughter is rendered: {', '.join(unparse(c)[:60] for c in filters)}")
            which = {0, 1}
        elif index(state, is_children) in (0, 1):
            which = {index(state, is_children)}
        if which is None:
            raise AnalysisError(f"{couple.qual}: `{unparse(call)[:100]}` renders `{unparse(state)[:60]}` - neither the parent nor a daughter delivered by get_helicity_info")
        if use is not True:
            if use is False:
                problems.append(f"a daughter is rendered WITHOUT helicity in `{unparse(call)[:100]}`")
            else:
                raise AnalysisError(f"{couple.qual}: `use_helicity` of a daughter is `{unparse(b['use_helicity'])[:60]}` - not a constant")
        if partner is True:
            daughters |= which
        elif partner is False:
            plain |= which  # a daughter rendered with its own helicity
        elif any(isinstance(n, ast.Name) and n.id in sym.elements for n in ast.walk(b["make_parity_partner"])) or any(index(n, is_children) is not None for n in ast.walk(b["make_parity_partner"])):
            problems.append(f"make_parity_partner is `{unparse(b['make_parity_partner'])[:80]}`: it differs between the daughters, so not both helicities are reversed")
        else:
            raise AnalysisError(f"{couple.qual}: make_parity_partner is `{unparse(b['make_parity_partner'])[:60]}` - not a constant")
    if not problems:
        if not parent_ok:
            raise AnalysisError(f"{couple.qual}: the parent (get_helicity_info(...)[0]) is not rendered by _state_to_str - cannot tell whether its helicity is suppressed")
        if ({0, 1} - daughters) - plain:
            raise AnalysisError(f"{couple.qual}: daughter(s) {sorted(({0, 1} - daughters) - plain)} are not rendered by _state_to_str - cannot tell whether their helicity is reversed in the partner suffix")
        if daughters != {0, 1}:
            missing = sorted({0, 1} - daughters)
            problems.append(f"daughter(s) {missing} are not rendered with make_parity_partner=True: the partner suffix does not reverse both daughter helicities")
    ctx.verdict(not problems, "R-PARTNER", key, tree.loc(couple.node),
                "partner suffix = parent (no helicity) -> both daughters with make_parity_partner=True", None if not problems else {"problems": problems, "_state_to_str calls": shown})


NUMBER_RENDERERS = {"_render_float", "sympy.Rational", "sympy.sympify", "sympy.S", "sympy.Float", "sympy.Integer", "sympy.nsimplify", "float", "int", "str", "repr",
                    "format", "fractions.Fraction"}


def check_negated_helicity(ctx: Check, tree: Tree) -> None:
    """R-PARTNER: `_state_to_str` renders the NEGATED spin projection under make_parity_partner and the spin
    projection itself otherwise.  Decided per path on the value handed out: every occurrence of
    `state.spin_projection` in it, with the sign it carries (`-x`, `-1 * x`, `x * -1`, `0 - x`)."""
    sts = tree.func("ampform.helicity.naming::_state_to_str")
    params = sts.params
    if len(params) < 3 or "make_parity_partner" not in params:
        raise AnalysisError(f"{sts.qual}: no parameter make_parity_partner any more")
    state_p, flag = params[0], "make_parity_partner"
    paths = PathFacts(tree, sts, atoms={"_render_float"})
    sym = paths.sym

    def number(n: ast.AST):
        if isinstance(n, ast.Constant) and isinstance(n.value, (int, float)) and not isinstance(n.value, bool):
            return n.value
        if isinstance(n, ast.UnaryOp) and isinstance(n.op, ast.USub) and number(n.operand) is not None:
            return -number(n.operand)
        return None

    def occurrences(v: ast.AST) -> list[int | None]:
        out: list[int | None] = []

        def times(sign, c):
            return None if sign is None or c not in (1, -1) else sign * c

        def visit(n: ast.AST, sign) -> None:
            if isinstance(n, ast.Attribute) and n.attr == "spin_projection" and isinstance(n.value, ast.Name) and n.value.id == state_p:
                out.append(sign)
                return
            if isinstance(n, ast.UnaryOp) and isinstance(n.op, (ast.USub, ast.UAdd)):
                visit(n.operand, times(sign, -1 if isinstance(n.op, ast.USub) else 1))
                return
            if isinstance(n, ast.BinOp) and isinstance(n.op, ast.Mult):
                for a, b in ((n.left, n.right), (n.right, n.left)):
                    if number(a) is not None:
                        visit(b, times(sign, number(a)))
                        return
                visit(n.left, None)
                visit(n.right, None)
                return
            if isinstance(n, ast.BinOp) and isinstance(n.op, ast.Sub) and number(n.left) == 0:
                visit(n.right, times(sign, -1))
                return
            if isinstance(n, ast.BinOp):
                inner = 1 if isinstance(n.op, ast.Add) and (_stringy(n.left) or _stringy(n.right)) else None  # string concatenation / arithmetic
                visit(n.left, inner)
                visit(n.right, inner)
                return
            if isinstance(n, ast.Call):
                name = sym._fname(n.func)
                last = n.func.attr if isinstance(n.func, ast.Attribute) else getattr(n.func, "id", None)
                inner = 1 if (name in NUMBER_RENDERERS or last in NUMBER_RENDERERS or (isinstance(n.func, ast.Attribute) and n.func.attr in {"join", "format"})) else None
                for c in ast.iter_child_nodes(n):
                    visit(c, inner)
                return
            for c in ast.iter_child_nodes(n):
                visit(c, 1)

        visit(v, 1)
        return out

    def _stringy(n: ast.AST) -> bool:
        if isinstance(n, ast.JoinedStr) or (isinstance(n, ast.Constant) and isinstance(n.value, str)):
            return True
        if isinstance(n, ast.BinOp) and isinstance(n.op, ast.Add):
            return _stringy(n.left) or _stringy(n.right)
        if isinstance(n, ast.Call):
            last = n.func.attr if isinstance(n.func, ast.Attribute) else getattr(n.func, "id", None)
            return last in {"join", "format", "str", "repr", "_render_float"}
        return False

    def flag_value(facts, name: str) -> bool | None | str:
        val = None
        for test, outcome in atoms(facts):
            if isinstance(test, ast.Name) and test.id == name:
                v = outcome
            elif isinstance(test, ast.Compare) and len(test.ops) == 1 and isinstance(test.left, ast.Name) and test.left.id == name and isinstance(test.comparators[0], ast.Constant) and isinstance(test.comparators[0].value, bool):
                if isinstance(test.ops[0], (ast.Is, ast.Eq)):
                    v = outcome == test.comparators[0].value
                elif isinstance(test.ops[0], (ast.IsNot, ast.NotEq)):
                    v = outcome != test.comparators[0].value
                else:
                    return "?"
            elif any(isinstance(n, ast.Name) and n.id == name for n in ast.walk(test)):
                return "?"
            else:
                continue
            if val is not None and val != v:
                return "?"
            val = v
        return val

    problems, seen_partner, seen_plain = [], False, False
    for st, value in paths.finals:
        partner = flag_value(st.facts, flag)
        use = flag_value(st.facts, "use_helicity") if "use_helicity" in params else None
        if partner == "?" or use == "?":
            raise AnalysisError(f"{sts.qual}: a condition on `{flag}` / `use_helicity` is not a plain test of the flag - cannot decide the path")
        occ = occurrences(value)
        if not occ:
            if use is False:
                continue
            hidden = sym.opaque_calls(value)
            raise AnalysisError(f"{sts.qual}: no `{state_p}.spin_projection` in the value `{unparse(value)[:100]}` handed out on a path that renders the helicity" + (f" (`{hidden[0]}(...)` was not followed)" if hidden else ""))
        if any(s is None for s in occ):
            raise AnalysisError(f"{sts.qual}: `{state_p}.spin_projection` enters `{unparse(value)[:120]}` through arithmetic that is not a sign - cannot decide whether the helicity is negated")
        if partner is None:
            if any(isinstance(n, ast.Name) and n.id == flag for n in ast.walk(value)):
                raise AnalysisError(f"{sts.qual}: `{flag}` enters the value `{unparse(value)[:120]}` without a test of the flag - cannot decide the sign of the helicity")
            problems.append(f"the helicity is rendered as `{'-' if occ[0] < 0 else ''}{state_p}.spin_projection` on a path that does not test `{flag}`: the flag has no effect there")
            continue
        want = -1 if partner else 1
        if set(occ) != {want}:
            problems.append(f"with {flag}={partner} the value `{unparse(value)[:100]}` carries the helicity with sign(s) {sorted(set(occ))}, expected {want:+d}")
        seen_partner = seen_partner or partner is True
        seen_plain = seen_plain or partner is False
    if not problems and not (seen_partner and seen_plain):
        raise AnalysisError(f"{sts.qual}: no path renders the helicity with {flag}={'True' if not seen_partner else 'False'} - the rule would pass vacuously")
    ctx.verdict(not problems, "R-PARTNER", f"{sts.qual}::negated-helicity", tree.loc(sts.node),
                "_state_to_str: make_parity_partner renders the negated helicity, otherwise the helicity itself", sorted(set(problems)) or None)


def check_sequential_suffix(ctx: Check, tree: Tree, cls) -> None:
    """R-PARTNER: on every path the sequential suffix is `sep.join(...)` over ALL nodes (one element per node, no
    filter) of the coefficient suffix of the node: mapping.get(raw, raw) == (mapping[raw] if raw in mapping else raw)."""
    seq = cls.methods.get("generate_sequential_amplitude_suffix")
    if seq is None:
        raise AnalysisError("vanished anchor: generate_sequential_amplitude_suffix")
    paths = PathFacts(tree, seq)
    sym = paths.sym
    problems, undecided = [], []
    for st, value in paths.finals:
        ats = atoms(st.facts)
        joined = value.args[0] if (isinstance(value, ast.Call) and isinstance(value.func, ast.Attribute) and value.func.attr == "join"
                                   and isinstance(value.func.value, ast.Constant) and len(value.args) == 1 and not value.keywords) else None
        if not _is_seq(joined):
            undecided.append(f"returns `{unparse(value)[:120]}` - cannot read that as a separator joined over the nodes")
            continue
        gen = joined.generators[0]
        if not node_source(gen.iter) or unparse(gen.iter).endswith(".interactions"):
            undecided.append(f"the joined sequence ranges over `{unparse(gen.iter)[:80]}` - cannot tell whether these are the nodes of the chain in their order")
            continue
        # (a deterministic re-ordering of the nodes - sorted / reversed - changes the spelling of the name for every
        # chain alike; which suffix a node contributes is what is decided here)
        filters = [c for c in gen.ifs if not (is_marker(c) and c.id.startswith("<1 elements"))]
        dropping = [c for c in filters if is_marker(c) or mentions_mapping(c) or any(is_raw(n) for n in ast.walk(c))]
        if dropping:
            problems.append(f"not every node contributes exactly one suffix: {', '.join(unparse(c) for c in dropping)}")
        elif filters:
            undecided.append(f"the nodes are filtered by `{unparse(filters[0])[:80]}` - cannot tell whether that drops a node")
            continue
        elt = joined.elt
        raw = elt if is_raw(elt) else elt.slice if isinstance(elt, ast.Subscript) else elt.args[0] if isinstance(elt, ast.Call) and elt.args else None
        if isinstance(elt, ast.Constant):
            problems.append(f"a node contributes the constant {elt.value!r} instead of its coefficient suffix" + (" when its suffix is not registered" if registered_any(ats) is False else ""))
            continue
        if raw is None or not is_raw(raw) or raw_node(raw) is None:
            hidden = sym.opaque_calls(elt)
            undecided.append(f"the element `{unparse(elt)[:120]}` is not read as derived from the raw suffix of the node" + (f" (`{hidden[0]}(...)` was not followed)" if hidden else ""))
            continue
        if not (isinstance(gen.target, ast.Name) and _same(raw_node(raw), ast.Name(id=gen.target.id, ctx=ast.Load()))):
            other = raw_node(raw)
            if isinstance(other, ast.Constant) or (isinstance(other, ast.Name) and other.id in sym.elements):
                problems.append(f"the element `{unparse(elt)[:120]}` is the suffix of `{unparse(other)}`, not of the node of the iteration")
            else:
                undecided.append(f"the element `{unparse(elt)[:120]}` is the suffix of `{unparse(other)[:60]}` - cannot tell whether that is the node of the iteration")
            continue
        if elt is raw:
            if registered(raw, ats) is not False:
                strange = [unparse(t)[:80] for t, _ in ats if (mentions_mapping(t) or any(is_raw(n) for n in ast.walk(t)))
                           and _asserts((t, True), is_raw, ast.In, ast.NotIn, is_mapping_keys) is None]
                if st.imprecise or strange or any(sym.opaque_calls(t) for t, _ in ats):
                    undecided.append("the raw suffix of a node is used under a condition that was not followed" + (f" (`{strange[0]}`)" if strange else ""))
                else:
                    problems.append("the raw suffix of a node is used although it may be registered with a partner (not mapped)")
        elif isinstance(elt, ast.Subscript):
            if not mapped_value(elt, raw, ats):
                undecided.append(f"`{unparse(elt)[:120]}` is not a look-up in the partner mapping")
            elif registered(raw, ats) is not True:
                undecided.append(f"`{unparse(elt)[:120]}` on a path where the suffix is not known to be registered (raises for an unregistered suffix)")
        elif isinstance(elt, ast.Call) and isinstance(elt.func, ast.Attribute) and elt.func.attr == "get" and is_mapping(elt.func.value) and not elt.keywords:
            if not (len(elt.args) == 2 and _same(elt.args[1], raw)):
                if len(elt.args) == 1 or isinstance(elt.args[1], ast.Constant):
                    problems.append(f"`{unparse(elt)[:120]}` is not the mapped suffix with the raw suffix as fallback: an unregistered node contributes `{unparse(elt.args[1]) if len(elt.args) == 2 else None}`")
                else:
                    undecided.append(f"`{unparse(elt)[:120]}`: cannot tell whether the fallback is the raw suffix")
        else:
            undecided.append(f"`{unparse(elt)[:120]}` is not read as the mapped suffix of the node")
    if not problems and undecided:
        raise AnalysisError(f"{seq.qual}: " + "; ".join(sorted(set(undecided))[:2]))
    ctx.verdict(not problems, "R-PARTNER", f"{seq.qual}::maps-each-node", tree.loc(seq.node), "generate_sequential_amplitude_suffix maps the suffix of every node through the partner mapping",
                sorted(set(problems)) or None)


def check_only_parity_nodes(ctx: Check, tree: Tree, cls) -> None:
    """R-PARTNER: only nodes with a parity prefactor take part in the partner mapping: every store into the
    mapping in __register_amplitude_coefficient_name (aliases, helpers followed) happens on paths that know
    `<interaction of the node>.parity_prefactor is not None`."""
    reg = cls.methods.get("__register_amplitude_coefficient_name")
    if reg is None:
        raise AnalysisError("vanished anchor: __register_amplitude_coefficient_name")
    paths = PathFacts(tree, reg, atoms={"__generate_amplitude_coefficient_couple"})
    sym = paths.sym
    is_pp = lambda e: isinstance(e, ast.Attribute) and e.attr == "parity_prefactor"  # noqa: E731
    n_stores, bad, undecided, seen = 0, [], [], set()
    for st, _ in paths.finals:
        for container, n, stmt in st.stores:
            if not is_mapping(container):
                continue
            facts = st.facts[:n]
            k = (id(stmt), tuple((ast.dump(t), o) for t, o in facts))
            if k in seen:
                continue
            seen.add(k)
            n_stores += 1
            ats = atoms(facts)
            knows = any(_asserts(at, is_pp, ast.IsNot, ast.Is, is_none) for at in ats)
            if knows:
                continue
            about = [unparse(t)[:80] for t, _ in ats if any(is_pp(x) for x in ast.walk(t))]
            hidden = [c for t, _ in ats for c in sym.opaque_calls(t)]
            hidden += [unparse(t)[:80] for t, _ in ats if not (isinstance(t, ast.Compare) and isinstance(t.ops[0], (ast.In, ast.NotIn, ast.Eq, ast.NotEq)) and len(t.ops) == 1)
                       and any(isinstance(c, ast.Call) and (c.func.attr if isinstance(c.func, ast.Attribute) else getattr(c.func, "id", None)) in sym.atoms for c in ast.walk(t))]
            if about or hidden or st.imprecise:
                undecided.append(f"`{unparse(stmt)[:80]}` under `{(about or hidden or st.imprecise)[0]}`")
            else:
                bad.append(f"`{unparse(stmt)[:100]}` is reached without a test of parity_prefactor")
    if n_stores == 0:
        raise AnalysisError(f"{reg.qual}: no store into the partner mapping found on any path - cannot tell which nodes are registered")
    if undecided and not bad:
        raise AnalysisError(f"{reg.qual}: cannot decide whether the store {sorted(set(undecided))[0]} only happens for nodes with a parity prefactor")
    ctx.stats["mapping_stores_judged"] = n_stores
    ctx.verdict(not bad, "R-PARTNER", f"{reg.qual}::only-parity-nodes", tree.loc(reg.node), "only nodes with a parity prefactor take part in the partner mapping", sorted(set(bad)) or None)


def check_partner_suffix(ctx: Check, tree: Tree) -> None:
    cls = tree.cls("ampform.helicity.naming::HelicityAmplitudeNameGenerator")
    ctx.section(check_partner_suffix_value, ctx, tree, cls)
    ctx.section(check_negated_helicity, ctx, tree)
    ctx.section(check_sequential_suffix, ctx, tree, cls)
    ctx.section(check_mapping_accessor, ctx, tree, cls)
    ctx.section(check_only_parity_nodes, ctx, tree, cls)


def check_mapping_accessor(ctx: Check, tree: Tree, cls) -> None:
    """R-PARTNER: the mapping the builder reads through `naming.parity_partner_coefficient_mapping` is the one
    the names are generated from.  `_register_amplitude_coefficients` RE-BINDS the private attribute whenever
    a naming flag changes, so an accessor that memoises its result keeps answering with the mapping of an
    earlier configuration: coefficient names follow the new mapping, the parity signs the old one."""
    private = lambda n: isinstance(n, ast.Attribute) and n.attr.startswith("_") and is_mapping(n) and isinstance(n.value, ast.Name) and n.value.id == "self"  # noqa: E731
    accessors = [c.methods[MAPPING] for c in [cls, *tree.subclasses(cls)] if MAPPING in c.methods]
    if not accessors:
        raise AnalysisError(f"vanished anchor: {cls.qual}.{MAPPING}")
    # is the attribute re-bound after construction?  (a method other than __init__ stores it and is called by a method other than __init__)
    family = [cls, *tree.subclasses(cls)]
    called_after_init = {q for c in family for g in c.methods.values() if g.name != "__init__" for _, q in tree.calls_in(g) if q}
    rebinders = []
    for c in family:
        for m in c.methods.values():
            stores = [n for n in walk_function(m.node) if isinstance(n, (ast.Assign, ast.AnnAssign)) and getattr(n, "value", None) is not None
                      and any(private(t) for t in (n.targets if isinstance(n, ast.Assign) else [n.target]))]
            if stores and m.name != "__init__" and (m.qual in called_after_init or not m.name.startswith("_")):
                rebinders.append(m)
    for acc in accessors:
        decorators = [unparse(d) for d in acc.node.decorator_list]
        memoised = [d for d in decorators if "cache" in d.lower()]
        key = f"{acc.qual}::live-mapping"
        if memoised and rebinders:
            ctx.violation("R-PARTNER", key, tree.loc(acc.node),
                          f"the accessor `{MAPPING}` is memoised (`@{memoised[0]}`) but `{rebinders[0].name}` re-binds the mapping whenever a naming flag changes: the builder keeps reading the mapping of an earlier configuration while the coefficient names follow the new one",
                          {"re-bound in": [tree.loc(m.node) for m in rebinders][:3]})
            continue
        if set(decorators) - {"property", "override", "typing.override"} - set(memoised):
            raise AnalysisError(f"{acc.qual}: unknown decorator(s) {decorators} on the accessor of the partner mapping")
        values = [v for _, v in PathFacts(tree, acc).finals]
        live = all(any(private(n) for n in ast.walk(v)) for v in values)
        if not live:
            raise AnalysisError(f"{acc.qual}: returns `{unparse(values[0])[:100]}` - cannot decide whether that is the current partner mapping")
        ctx.ok("R-PARTNER", tree.loc(acc.node), f"{acc.qual}: every read of `{MAPPING}` evaluates the current `self.__{MAPPING}` (not memoised" + (", never re-bound)" if not rebinders else ")"))


def check_prefactor_section(ctx: Check, tree: Tree) -> None:
    check_prefactor(ctx, tree, locate_prefactor_function(tree))


def run(ctx: Check, tree: Tree) -> None:
    ctx.decided += [
        'R-PARTNER (display flags): the strings that decide coefficient sharing and the parity flip do not depend on display flags of the name generator',
        "R-DEPENDS: the value handed out by the parity-prefactor function is, on every path, a product over the nodes of the chain (accumulator loop, reduce / math.prod / sp.Mul over a sequence, one- or two-phase, helpers / closures / generator functions followed) that starts from 1; every factor a node contributes is contributed only under the per-node test `mapped suffix != raw suffix` of that node's raw suffix and is the parity factor of that node (decided on the paths of the function: guard clauses, nested ifs, extracted predicates / per-node helpers, `mapping.get(raw, raw)`, try/except KeyError read the same); a loop over the nodes is never left early; None is answered only where the product is known to be 1",
        "R-TERM (shared with C02): the canonical expansion used by the equivalence clause is CG(L,0;S,d|J,d) * CG(s1,l1;s2,-l2|S,d) on every path",
        "R-PARTNER: in the value of the partner suffix every _state_to_str renders the parent without helicity and both daughters with make_parity_partner=True (arguments by parameter, helpers followed); _state_to_str hands out the negated spin projection exactly on the paths with make_parity_partner; the sequential suffix joins, for EVERY node, the suffix the partner mapping gives for the node's raw suffix (the raw suffix itself if unregistered) - loop or comprehension; every store into the partner mapping happens under `parity_prefactor is not None`; the daughters are ordered by a key that does not read the helicity; the accessor of the mapping is not memoised while the mapping is re-bound",
    ]
    ctx.not_decided += ["equivalence with the canonical formalism for all LS coefficient values (numerical)", "which interactions qrules marks with a parity prefactor"]
    ctx.assumptions += ["qrules InteractionProperties.parity_prefactor is eta = P P1 P2 (-1)^(J-s1-s2) of that node",
                        "qrules: StateTransition.interactions is defined for exactly the nodes of the topology (a loop over its keys is a loop over the nodes)"]
    ctx.section(check_prefactor_section, ctx, tree)
    check_partner_suffix(ctx, tree)
    ctx.section(check_partner_key_flags, ctx, tree)
    ctx.section(check_daughter_order, ctx, tree)
    # the per-chain components A_{...} are an observation point of the property: they must be the complete
    # chain amplitude including the parity sign (rule shared with C02)
    from .c02 import check_products

    ctx.section(check_products, ctx, tree, symmetrisation=False)  # (the symmetrisation clause of the components belongs to C02)
    # "equivalently ... the Clebsch-Gordan expansion reproduces the canonical intensity": the expansion is the two-CG product of C02
    from .c02 import check_cg

    ctx.section(check_cg, ctx, tree)
