"""R-ORDER for C06: unordered containers must not reach order-preserving sinks unsorted.

Taint lattice per expression:  None | U(sens) | CU(sens) | CU-mapping(sens)
  U  = the value *is* an unordered container (set / frozenset / dict-keys of a set origin)
  CU = an ordered container (dict, list, tuple, items view, generator) whose elements or
       values are U
  CU-mapping = a CU that is known to be a mapping (dict display / comprehension, dict-like
       annotation): only its VALUES are U - iterating it (``for k in m``, ``list(m)``) yields the
       keys, which are not; ``m[k]``, ``m.values()``, ``m.items()`` reach the values
  sens = "int"      elements are small ints (qrules edge / node ids): iteration order does
                    not depend on PYTHONHASHSEED
         "history"  elements hash deterministically but the order depends on insertion history
         "seed"     elements hash through str (SymPy objects, strings): order depends on the seed
"""

from __future__ import annotations

import ast
import re

from ..dataflow import RD, Def
from ..loader import FuncInfo, Tree, ancestors, unparse, walk_function
from ..report import Check

# qrules Topology API (external table; ids are ints)
INT_SET_ATTRS = {"nodes", "outgoing_edge_ids", "incoming_edge_ids", "intermediate_edge_ids"}
INT_SET_CALLS = {
    "get_edge_ids_outgoing_from_node",
    "get_edge_ids_ingoing_to_node",
    "get_originating_final_state_edge_ids",
    "get_originating_initial_state_edge_ids",
}
SEED_SET_ATTRS = {"free_symbols"}
SEED_SET_CALLS = {"atoms", "find"}
SANITIZERS = {"sorted", "min", "max", "len", "sum", "any", "all", "bool", "isinstance", "hash", "frozenset_len", "natural_sorting"}
ORDERED_BUILDERS = {"tuple", "list"}
ORDER = {"int": 0, "history": 1, "seed": 2}


MAPPING_ANN = re.compile(r"\s*(collections\.)?(dict|Dict|Mapping|MutableMapping|defaultdict|DefaultDict|OrderedDict)\b")


def _mapping_with_plain_keys(ann: str) -> bool:
    """``dict[K, V]``-like annotation whose KEY type is not itself an unordered container (only then
    does iterating the mapping yield something harmless)."""
    if not MAPPING_ANN.match(ann):
        return False
    try:
        node = ast.parse(ann.strip(), mode="eval").body
    except SyntaxError:
        return False
    if isinstance(node, ast.Subscript) and isinstance(node.slice, ast.Tuple) and len(node.slice.elts) == 2:
        return not re.search(r"\b(frozenset|set|Set|FrozenSet|AbstractSet)\b", ast.unparse(node.slice.elts[0]))
    return False


def worst(a: str, b: str) -> str:
    return a if ORDER[a] >= ORDER[b] else b


class Taint:
    __slots__ = ("kind", "sens", "origin", "mapping")

    def __init__(self, kind: str, sens: str, origin: str, mapping: bool = False):
        self.kind, self.sens, self.origin, self.mapping = kind, sens, origin, mapping and kind == "CU"

    def __repr__(self) -> str:
        return f"{self.kind}{'-mapping' if self.mapping else ''}({self.sens}: {self.origin})"

    def elements(self) -> "Taint":
        """The same container seen as a plain sequence of its (unordered) values."""
        return Taint(self.kind, self.sens, self.origin)


def sens_of_annotation(text: str) -> str:
    inner = text
    m = re.search(r"(?:frozenset|set|Set|FrozenSet|AbstractSet)\[(.*)\]", text)
    if m:
        inner = m.group(1)
    if re.fullmatch(r"\s*(int|Literal\[[\d, ]+\])\s*", inner):
        return "int"
    if "Topology" in inner or "Transition" in inner:
        return "history"
    return "seed"


def annotation_taint(text: str, origin: str) -> Taint | None:
    if not text:
        return None
    t = text.replace("typing.", "")
    if re.match(r"\s*(frozenset|set|Set|FrozenSet|AbstractSet)\b", t):
        return Taint("U", sens_of_annotation(t), origin)
    if re.search(r"\b(frozenset|set)\[", t):
        return Taint("CU", sens_of_annotation(t), origin, mapping=_mapping_with_plain_keys(t))
    return None


class OrderAnalysis:
    def __init__(self, tree: Tree, ctx: Check, reach: dict[str, FuncInfo]) -> None:
        self.tree = tree
        self.ctx = ctx
        self.reach = reach
        self._rd: dict[str, RD] = {}
        self.flows: list[tuple[FuncInfo, ast.AST, Taint, str]] = []
        self._sink_params: dict[str, set[str]] = {}
        self.n_sources = 0

    def rd(self, fn: FuncInfo) -> RD:
        top = fn
        while top.outer is not None:
            top = top.outer
        if top.qual not in self._rd:
            self._rd[top.qual] = RD(top.node)
        return self._rd[top.qual]

    # ------------------------------------------------------------------ taint
    def taint(self, expr: ast.AST, fn: FuncInfo, depth: int = 0) -> Taint | None:
        if depth > 14 or expr is None:
            return None
        if isinstance(expr, (ast.Set, ast.SetComp)):
            if isinstance(expr, ast.SetComp):
                inner = self.taint(expr.generators[0].iter, fn, depth + 1)
                sens = self.element_sens(expr.elt, fn, inner)
            else:
                sens = "int"
                for e in expr.elts:
                    if isinstance(e, ast.Constant) and isinstance(e.value, int):
                        continue
                    sens = worst(sens, self.element_sens(e, fn, None))
            return Taint("U", sens, f"set built at {fn.qual}")
        if isinstance(expr, ast.Attribute):
            if expr.attr in INT_SET_ATTRS:
                return Taint("U", "int", f".{expr.attr} (qrules ids)")
            if expr.attr in SEED_SET_ATTRS:
                return Taint("U", "seed", f".{expr.attr}")
            # self.<attr> assigned from a tainted value in __init__
            if isinstance(expr.value, ast.Name) and expr.value.id == "self" and fn.cls is not None:
                init = self.tree.lookup_method(fn.cls, "__init__")
                if init is not None:
                    for node in walk_function(init.node):
                        if isinstance(node, ast.Assign) and isinstance(node.targets[0], ast.Attribute) and node.targets[0].attr == expr.attr and unparse(node.targets[0].value) == "self":
                            return self.taint(node.value, init, depth + 1)
            return None
        if isinstance(expr, ast.Call):
            f = expr.func
            name = f.id if isinstance(f, ast.Name) else f.attr if isinstance(f, ast.Attribute) else None
            if name in SANITIZERS:
                return None
            if name in {"set", "frozenset"}:
                inner = self.taint(expr.args[0], fn, depth + 1) if expr.args else None
                if inner is not None and inner.kind == "U":
                    return inner
                sens = self.iterable_elem_sens(expr.args[0], fn) if expr.args else "int"
                return Taint("U", sens, f"{name}(...) at {fn.qual}")
            if name in ORDERED_BUILDERS or name in {"dict", "OrderedDict", "enumerate", "zip", "reversed", "iter", "map", "filter", "chain"}:
                inner = self.taint(expr.args[0], fn, depth + 1) if expr.args else None
                if inner is not None and inner.kind == "CU":
                    if inner.mapping and name in ORDERED_BUILDERS | {"enumerate", "reversed", "iter"}:
                        return None  # the keys of a mapping
                    return inner
                return None  # tuple(U) / list(U) is a sink, handled separately
            if name in INT_SET_CALLS:
                return Taint("U", "int", f"{name}() (qrules ids)")
            if name in SEED_SET_CALLS and isinstance(f, ast.Attribute):
                return Taint("U", "seed", f".{name}()")
            if name in {"items", "values"} and isinstance(f, ast.Attribute):
                inner = self.taint(f.value, fn, depth + 1)
                return inner.elements() if inner is not None and inner.kind == "CU" else None
            if name in {"keys"}:
                return None
            if name in {"copy", "union", "intersection", "difference", "symmetric_difference"} and isinstance(f, ast.Attribute):
                return self.taint(f.value, fn, depth + 1)
            if name == "defaultdict" and expr.args and unparse(expr.args[0]) in {"set", "frozenset"}:
                return Taint("CU", "seed", f"defaultdict(set) at {fn.qual}", mapping=True)
            callee = self.tree.callee(expr, fn)
            if callee in self.tree.funcs:
                g = self.tree.funcs[callee]
                ann = unparse(g.node.returns) if g.node.returns is not None else ""
                t = annotation_taint(ann, f"{g.qual}() -> {ann}")
                if t is not None:
                    return t
            return None
        if isinstance(expr, ast.BinOp) and isinstance(expr.op, (ast.Sub, ast.BitOr, ast.BitAnd, ast.BitXor)):
            a, b = self.taint(expr.left, fn, depth + 1), self.taint(expr.right, fn, depth + 1)
            us = [t for t in (a, b) if t is not None and t.kind == "U"]
            if us:
                sens = us[0].sens
                for t in us[1:]:
                    sens = worst(sens, t.sens)
                return Taint("U", sens, us[0].origin)
            return None
        if isinstance(expr, (ast.ListComp, ast.GeneratorExp)):
            et = self.comp_elt_taint(expr, fn, depth)
            if et is not None:
                return Taint("CU", et.sens, et.origin)
            return None
        if isinstance(expr, ast.DictComp):
            env_t = self.comp_target_taints(expr, fn, depth)
            vt = self.taint_with(expr.value, fn, env_t, depth + 1)
            if vt is not None:
                return Taint("CU", vt.sens, vt.origin, mapping=self.taint_with(expr.key, fn, env_t, depth + 1) is None)
            return None
        if isinstance(expr, (ast.Tuple, ast.List)):
            for e in expr.elts:
                t = self.taint(e.value if isinstance(e, ast.Starred) else e, fn, depth + 1)
                if t is not None:
                    return Taint("CU", t.sens, t.origin)
            return None
        if isinstance(expr, ast.Starred):
            return self.taint(expr.value, fn, depth + 1)
        if isinstance(expr, ast.IfExp):
            return self.taint(expr.body, fn, depth + 1) or self.taint(expr.orelse, fn, depth + 1)
        if isinstance(expr, ast.Subscript):
            inner = self.taint(expr.value, fn, depth + 1)
            if inner is not None and inner.kind == "CU":
                return Taint("U", inner.sens, inner.origin)
            return None
        if isinstance(expr, ast.Name) and isinstance(expr.ctx, ast.Load):
            return self.name_taint(expr, fn, depth)
        return None

    def taint_with(self, expr: ast.AST, fn: FuncInfo, env: dict[str, Taint | None], depth: int) -> Taint | None:
        """Taint of an expression where some names (comprehension targets) have known taints."""
        if isinstance(expr, ast.Name) and expr.id in env:
            return env[expr.id]
        if isinstance(expr, ast.Call):
            f = expr.func
            name = f.id if isinstance(f, ast.Name) else f.attr if isinstance(f, ast.Attribute) else None
            if name in SANITIZERS:
                return None
            if name in ORDERED_BUILDERS and expr.args:
                inner = self.taint_with(expr.args[0], fn, env, depth + 1)
                if inner is not None and inner.kind == "U":
                    self.sink(fn, expr, inner, f"{name}() of an unordered container")
                    return None
                return inner
        if isinstance(expr, (ast.Tuple, ast.List)):
            for e in expr.elts:
                t = self.taint_with(e, fn, env, depth + 1)
                if t is not None:
                    return Taint("CU", t.sens, t.origin)
            return None
        if isinstance(expr, ast.Subscript):
            # ``container[key]`` selects a value of the container whatever the key is (the key may be
            # a comprehension variable)
            inner = self.taint_with(expr.value, fn, env, depth + 1)
            if inner is not None and inner.kind == "CU":
                return Taint("U", inner.sens, inner.origin)
            return None
        names = {n.id for n in ast.walk(expr) if isinstance(n, ast.Name)}
        if names & set(env):
            # only direct uses matter; derived scalar values are clean
            if isinstance(expr, ast.Name):
                return env.get(expr.id)
            return None
        return self.taint(expr, fn, depth)

    def comp_target_taints(self, comp, fn: FuncInfo, depth: int) -> dict[str, Taint | None]:
        env: dict[str, Taint | None] = {}
        for gen in comp.generators:
            it = self.taint(gen.iter, fn, depth + 1)
            if it is not None and it.kind == "U":
                self.loop_sink(fn, comp, gen.iter, it, comp)
            tgt = gen.target
            if isinstance(tgt, ast.Name):
                env[tgt.id] = Taint("U", it.sens, it.origin) if it is not None and it.kind == "CU" and not it.mapping and not self._is_items(gen.iter) else None
            elif isinstance(tgt, ast.Tuple):
                for i, e in enumerate(tgt.elts):
                    if isinstance(e, ast.Name):
                        env[e.id] = None
                if it is not None and it.kind == "CU" and not it.mapping and len(tgt.elts) == 2 and isinstance(tgt.elts[1], ast.Name):
                    env[tgt.elts[1].id] = Taint("U", it.sens, it.origin)
        return env

    @staticmethod
    def _is_items(it: ast.AST) -> bool:
        return isinstance(it, ast.Call) and isinstance(it.func, ast.Attribute) and it.func.attr == "items"

    def comp_elt_taint(self, comp, fn: FuncInfo, depth: int) -> Taint | None:
        env = self.comp_target_taints(comp, fn, depth)
        return self.taint_with(comp.elt, fn, env, depth + 1)

    def name_taint(self, name: ast.Name, fn: FuncInfo, depth: int) -> Taint | None:
        rd = self.rd(fn)
        out: Taint | None = None
        for d in rd.reaching(name):
            t = self.def_taint(d, fn, depth + 1)
            if t is not None and (out is None or ORDER[t.sens] > ORDER[out.sens]):
                out = t
        return out

    def def_taint(self, d: Def, fn: FuncInfo, depth: int) -> Taint | None:
        if depth > 14:
            return None
        owner = self.tree.func_of(d.node) or fn
        if d.kind == "param":
            arg = d.node
            ann = unparse(arg.annotation) if getattr(arg, "annotation", None) is not None else ""
            return annotation_taint(ann, f"parameter {d.name}: {ann}")
        if d.kind == "assign" and d.value is not None:
            if isinstance(d.node, ast.AnnAssign):
                t = annotation_taint(unparse(d.node.annotation), f"{d.name}: {unparse(d.node.annotation)}")
                if t is not None:
                    # defaultdict(set) etc.: trust the annotation for the element type
                    return t
            t = self.taint(d.value, owner, depth)
            if t is not None and d.index is not None and t.kind == "CU":
                return Taint("U", t.sens, t.origin) if d.index == 1 and not t.mapping else None
            return t
        if d.kind in {"for", "comp"} and d.value is not None:
            it = self.taint(d.value, owner, depth)
            if it is None or it.kind != "CU" or it.mapping:
                return None  # (iterating a mapping yields its keys)
            if self._is_items(d.value):
                return Taint("U", it.sens, it.origin) if d.index == 1 else None
            if d.index is None:
                return Taint("U", it.sens, it.origin)
            return Taint("U", it.sens, it.origin) if d.index == 1 else None
        if d.kind == "store":
            for dep in d.deps:
                if dep.name == d.name and dep is not d:
                    t = self.def_taint(dep, fn, depth + 1)
                    if t is not None:
                        return t
        return None

    def iterable_elem_sens(self, expr: ast.AST, fn: FuncInfo) -> str:
        """Element sensitivity of set(<iterable>)."""
        txt = unparse(expr)
        rd = self.rd(fn)
        for n in ast.walk(expr):
            if isinstance(n, ast.Name) and isinstance(n.ctx, ast.Load):
                for d in rd.reaching(n):
                    if d.kind == "param":
                        ann = unparse(d.node.annotation) if getattr(d.node, "annotation", None) is not None else ""
                        if re.search(r"(Mapping|dict|Dict|FourMomenta|Iterable|Sequence|list|set|tuple)\[\s*int\b", ann) or ann in {"FourMomenta"} or re.search(r"Iterable\[int\]", ann):
                            return "int"
                    if d.value is not None:
                        t = self.taint(d.value, fn, 3)
                        if t is not None and t.sens == "int":
                            return "int"
                        if isinstance(d.value, ast.Call) and unparse(d.value.func) in {"range", "sorted", "determine_attached_final_state", "list_decay_chain_ids"}:
                            return "int"
        if re.search(r"(final_state|initial_state|state_ids|edge_ids|indices|range\()", txt):
            return "int"
        return "seed"

    def element_sens(self, elt: ast.AST, fn: FuncInfo, iter_taint: Taint | None) -> str:
        txt = unparse(elt)
        if re.search(r"Rational|Symbol|sympify|\.name\b|str\(", txt):
            return "seed"
        if iter_taint is not None and iter_taint.sens == "int" and isinstance(elt, ast.Name):
            return "int"
        if isinstance(elt, ast.Name):
            for d in self.rd(fn).reaching(elt) if isinstance(elt.ctx, ast.Load) else ():
                ann = unparse(d.node.annotation) if d.kind == "param" and getattr(d.node, "annotation", None) is not None else ""
                if re.match(r"\s*int\b", ann) or re.match(r"\s*Literal\[[\d, ]+\]", ann):
                    return "int"
            return "int" if re.fullmatch(r"(i|j|k|idx|state_id|node_id|edge_id)", elt.id) else "seed"
        if isinstance(elt, ast.Call) and unparse(elt.func) in {"int", "len"}:
            return "int"
        return "seed"

    # ------------------------------------------------------------------ sinks
    def sink(self, fn: FuncInfo, node: ast.AST, t: Taint, why: str) -> None:
        self.flows.append((fn, node, t, why))

    def loop_sink(self, fn: FuncInfo, node: ast.AST, it: ast.AST, t: Taint, comp=None) -> None:
        """Iteration over an unordered container whose result is order sensitive."""
        if comp is not None:
            if isinstance(comp, ast.SetComp):
                return
            parent = getattr(comp, "_parent", None)
            if isinstance(parent, ast.Call):
                f = parent.func
                name = f.id if isinstance(f, ast.Name) else f.attr if isinstance(f, ast.Attribute) else None
                if name in SANITIZERS | {"set", "frozenset", "Add", "Mul", "update", "issubset", "issuperset"}:
                    return
            if isinstance(comp, ast.DictComp) or isinstance(comp, ast.ListComp) or isinstance(comp, ast.GeneratorExp):
                self.sink(fn, comp, t, f"{type(comp).__name__} iterates `{unparse(it)[:40]}` in set order")
            return

    def order_sensitive_body(self, loop: ast.For) -> str | None:
        for n in walk_function(loop):
            if isinstance(n, ast.Call) and isinstance(n.func, ast.Attribute) and n.func.attr in {"append", "extend", "insert", "update", "setdefault", "write"}:
                return f"body calls .{n.func.attr}()"
            if isinstance(n, (ast.Yield, ast.YieldFrom)):
                return "body yields"
            if isinstance(n, ast.Assign) and isinstance(n.targets[0], ast.Subscript):
                return "body stores into a mapping/sequence (insertion order)"
            if isinstance(n, ast.AugAssign) and isinstance(n.op, (ast.Add, ast.Mult)) and not isinstance(n.target, ast.Subscript):
                return "body accumulates with += / *="
            if isinstance(n, (ast.Return, ast.Break)):
                return "body returns/breaks on the first matching element"
        return None

    def sink_params(self, g: FuncInfo) -> set[str]:
        """Parameters of ``g`` that (or whose elements) reach tuple()/list()/ordered iteration."""
        if g.qual in self._sink_params:
            return self._sink_params[g.qual]
        self._sink_params[g.qual] = set()
        rd = self.rd(g)
        out: set[str] = set()
        for node in walk_function(g.node):
            srcs: list[ast.AST] = []
            if isinstance(node, ast.Call) and isinstance(node.func, ast.Name) and node.func.id in ORDERED_BUILDERS and node.args:
                srcs.append(node.args[0])
            for s in srcs:
                for d in rd.closure(rd.uses(s)):
                    if d.kind == "param" and d.name not in {"self", "cls"}:
                        out.add(d.name)
        self._sink_params[g.qual] = out
        return out

    # ------------------------------------------------------------------ scan
    def scan(self, fn: FuncInfo) -> None:
        for node in walk_function(fn.node, nested=False):
            if isinstance(node, ast.Call):
                f = node.func
                name = f.id if isinstance(f, ast.Name) else f.attr if isinstance(f, ast.Attribute) else None
                if name in ORDERED_BUILDERS and node.args:
                    t = self.taint(node.args[0], fn)
                    if t is not None and t.kind == "U":
                        self.sink(fn, node, t, f"{name}() of an unordered container")
                if name == "fromkeys" and node.args and isinstance(f, ast.Attribute) and unparse(f.value) in {"dict", "OrderedDict", "collections.OrderedDict"}:
                    t = self.taint(node.args[0], fn)
                    if t is not None and t.kind == "U":
                        self.sink(fn, node, t, "dict.fromkeys() of an unordered container (insertion order = set order)")
                if name in {"dict", "OrderedDict"} and node.args and isinstance(node.args[0], ast.Call) and unparse(node.args[0].func) == "zip" and node.args[0].args:
                    t = self.taint(node.args[0].args[0], fn)
                    if t is not None and t.kind == "U":
                        self.sink(fn, node, t, "dict(zip(<unordered>, ...)) (insertion order = set order)")
                if name == "join" and node.args:
                    t = self.taint(node.args[0], fn)
                    if t is not None and t.kind == "U":
                        self.sink(fn, node, t, "str.join over an unordered container")
                if name == "next" and node.args and isinstance(node.args[0], ast.Call) and unparse(node.args[0].func) == "iter" and node.args[0].args:
                    t = self.taint(node.args[0].args[0], fn)
                    if t is not None and t.kind == "U":
                        self.sink(fn, node, t, "next(iter(...)) picks an arbitrary element")
                # arguments handed to callees that order them
                targets = []
                callee = self.tree.callee(node, fn)
                if callee in self.tree.classes:
                    for m in ("__new__", "__init__"):
                        mm = self.tree.lookup_method(self.tree.classes[callee], m)
                        if mm is not None:
                            targets.append((mm, 1))
                            break
                elif callee in self.tree.funcs:
                    g = self.tree.funcs[callee]
                    targets.append((g, 1 if g.cls is not None and not any(unparse(d) == "staticmethod" for d in g.node.decorator_list) else 0))
                elif callee in {"sympy.Tuple", "sympy.Matrix", "sympy.Array", "sympy.Piecewise"}:
                    for a in node.args:
                        t = self.taint(a, fn)
                        if t is not None:
                            self.sink(fn, node, t, f"argument of {callee} (keeps argument order)")
                for g, skip in targets:
                    sinks = self.sink_params(g)
                    if not sinks:
                        continue
                    params = g.params[skip:]
                    vararg = g.node.args.vararg.arg if g.node.args.vararg is not None else None
                    for i, a in enumerate(node.args):
                        pname = params[i] if i < len(params) and not isinstance(a, ast.Starred) else vararg
                        if isinstance(a, ast.Starred):
                            pname = vararg or (params[i] if i < len(params) else None)
                        if pname in sinks:
                            t = self.taint(a, fn)
                            if t is not None:
                                self.sink(fn, node, t, f"argument `{unparse(a)[:40]}` of {g.qual} is turned into an ordered sequence there (tuple()/list() of parameter `{pname}`)")
                    for k in node.keywords:
                        if k.arg in sinks:
                            t = self.taint(k.value, fn)
                            if t is not None:
                                self.sink(fn, node, t, f"argument `{k.arg}` of {g.qual} is ordered there")
            elif isinstance(node, ast.For):
                t = self.taint(node.iter, fn)
                if t is not None and t.kind == "U":
                    why = self.order_sensitive_body(node)
                    if why:
                        self.sink(fn, node, t, f"for-loop over `{unparse(node.iter)[:40]}` in set order; {why}")
            elif isinstance(node, (ast.ListComp, ast.GeneratorExp, ast.DictComp)):
                self.comp_target_taints(node, fn, 0)
            elif isinstance(node, ast.Assign) and isinstance(node.targets[0], (ast.Tuple, ast.List)):
                # unpacking an unordered container
                t = self.taint(node.value, fn)
                if t is not None and t.kind == "U":
                    self.sink(fn, node, t, "tuple-unpacking of an unordered container")


def check_order(ctx: Check, tree: Tree, reach: dict[str, FuncInfo]) -> None:
    oa = OrderAnalysis(tree, ctx, reach)
    for q, fn in sorted(reach.items()):
        if q.startswith("ampform"):
            oa.scan(fn)
    seen = set()
    counts = {"int": 0, "history": 0, "seed": 0}
    for fn, node, t, why in oa.flows:
        sig = (fn.qual, unparse(node)[:80], why)
        if sig in seen:
            continue
        seen.add(sig)
        counts[t.sens] += 1
        where = tree.loc(node)
        what = f"{fn.qual}: `{unparse(node)[:80]}` - {why}; source: {t.origin}"
        if t.sens == "seed":
            ctx.violation("R-ORDER", f"{fn.qual}::{unparse(node)[:80]}::unordered-to-ordered", where, what,
                          "elements hash through str (SymPy objects / strings): the resulting order - and with it the structure of the model - depends on PYTHONHASHSEED")
        elif t.sens == "history":
            ctx.advisory("R-ORDER", where, what + " - order depends on insertion history only; harmless iff equal keys carry equal values (decided by C07 R-PROV)")
        else:
            ctx.ok("R-ORDER", where, what + " - int ids: order is seed independent")
    ctx.stats["order_flows"] = counts
    total = sum(counts.values())
    if total < 5:
        from ..loader import AnalysisError

        raise AnalysisError(f"only {total} unordered->ordered flows found on the formulate path (source/sink tables no longer match the code)")
    if counts["seed"] == 0:
        ctx.ok("R-ORDER", "src/ampform", f"{total} unordered->ordered flows on the formulate path: {counts['int']} over int ids, {counts['history']} history-only, 0 hash-seed sensitive")
