"""C17 - rename_symbols is a consistent renaming of the whole model.

How the code is read.  ``HelicityModel.rename_symbols`` (with everything it calls: ``__collect_symbols``, the
``expression`` property, private helpers, closures) is INTERPRETED (``sa/pyexec.py``; nothing of the package is
imported or run by CPython) on a model ``HelicityModel`` whose fields hold model SymPy objects (``SymWorld``:
interned symbols with assumptions, hash-consed expression nodes, structural simultaneous ``xreplace``, sequential
``subs``), for a family of rename maps - injective, swap, chain, merge into an existing symbol, iterable of pairs,
unknown name, empty.  Every field of the returned model is compared with the SPECIFICATION evaluated on the same
world: the original field with the simultaneous symbol map {s -> Symbol(renames[s.name], **assumptions of s)}
applied to keys and values.  How the method is spelled - one ``attrs.evolve`` call, a constructor call, keyword
arguments collected in a ``dict`` and splatted, helper methods, loops, comprehensions - does not matter; a construct or
an external callable without a model is a ``ModelError`` (exit 2), never a pass and never a violation.

R-FIELDS   every field of the renamed model (exempt: reaction_info) equals the original with the map applied.
R-ASSUME   the replacement symbol carries the assumptions of the symbol it replaces and the requested name.
R-SIMUL    the map is applied simultaneously (swap / chain maps); symbols that are not renamed stay the objects they were.
R-UNIVERSE a symbol is renamed wherever it occurs: expression, kinematic-variable keys, their values, parameter keys.
R-PURE     the original model and the caller's rename map are not modified; a non-empty map never returns the model itself.
"""

from __future__ import annotations

import ast

from ..loader import AnalysisError, FuncInfo, Tree, unparse
from ..pyexec import ClassObj, Instance, MObj, ModelError, ModelRaise, PyExec, SymWorld
from ..report import Check

PID = "C17"
MODEL = "ampform.helicity::HelicityModel"
PARAMETER_VALUES = "ampform.helicity::ParameterValues"
EXEMPT = {"reaction_info": "holds no SymPy symbols (qrules ReactionInfo, the immutable input)"}
MUTATING = {"__setitem__", "__delitem__", "update", "clear", "pop", "popitem", "setdefault", "__ior__"}


class Tracked(dict):
    """A dictionary of the ORIGINAL model / the caller: records every mutating operation executed on it."""

    def __init__(self, *a, **k) -> None:
        super().__init__(*a, **k)
        self.mutations: list[str] = []


def _tracking(name: str):
    def method(self, *a, **k):
        self.mutations.append(name)
        return getattr(dict, name)(self, *a, **k)

    return method


for _name in MUTATING:
    setattr(Tracked, _name, _tracking(_name))


# --------------------------------------------------------------------------- the model
class ModelWorld:
    def __init__(self, tree: Tree) -> None:
        self.tree = tree
        self.cls = tree.cls(MODEL)
        self.ex = PyExec(tree)
        self.w = SymWorld(self.ex)
        self.fields = {st.target.id: st for st in self.cls.node.body if isinstance(st, ast.AnnAssign) and isinstance(st.target, ast.Name)}
        if len(self.fields) < 6:
            raise AnalysisError(f"HelicityModel has {len(self.fields)} fields (6 confirmed)")
        self.class_obj = ClassObj(self.cls, {"__call__": self.construct})
        self.ex.class_refs[MODEL] = self.class_obj
        self.ex.externals.update(self.w.externals())
        evolve = lambda a, k: self.evolve(a[0], k)  # noqa: E731
        self.ex.externals.update({
            MODEL: self.class_obj, "attrs.evolve": evolve, "attr.evolve": evolve, "dataclasses.replace": evolve,
            "attrs.asdict": self.asdict, "attr.asdict": self.asdict,
            "sympy.postorder_traversal": lambda a, k: self.postorder(a[0]),
            "sympy.preorder_traversal": lambda a, k: list(reversed(self.postorder(a[0]))),
        })
        pv = tree.classes.get(PARAMETER_VALUES)
        if pv is not None:
            self.pv_obj = ClassObj(pv, {"__call__": lambda a, k: self.new_object(pv, a, k)})
            self.ex.class_refs[PARAMETER_VALUES] = self.pv_obj
            self.ex.externals[PARAMETER_VALUES] = self.pv_obj
        self.build()

    def postorder(self, e) -> list:
        out = []
        for c in self.w.children(e):
            out += self.postorder(c)
        if isinstance(e, MObj):
            out.append(e)
        return out

    def new_object(self, cls, args, kwargs) -> Instance:
        """An instance of a plain repository class: ``__init__`` is interpreted."""
        obj = Instance(f"{cls.name} object", cls, kinds={c.qual for c in self.tree.mro(cls)} | set(self.tree.external_bases(cls)) | {"collections.abc.Mapping"})
        init = self.tree.lookup_method(cls, "__init__")
        if init is not None:
            self.ex.call_function(init, [obj, *args], kwargs)
        return obj

    # ---- the model object
    def build(self) -> None:
        w = self.w
        S = w.symbol  # noqa: N806
        self.sym = {
            "coupling": S("C_1"), "width": S("Gamma", positive=True), "kv_value_only": S("m_kv"), "parameter_only": S("m_stable", real=True),
            "kv_key_in_expression": S("theta", real=True), "kv_key_only": S("phi_only"), "momentum": S("p1"), "untouched": S("untouched", integer=True),
            "existing": S("b_existing"), "dummy": w.dummy("xi", real=True),
        }
        s = self.sym
        a1, a2, a3 = w.node("Indexed", w.value("A1")), w.node("Indexed", w.value("A2")), w.node("Indexed", w.value("A3"))
        self.original = {
            "intensity": w.node("I", s["coupling"], s["untouched"], s["existing"], s["dummy"], a1, a2, a3),
            # (A3 is a vanishing amplitude: its definition is a constant)
            "amplitudes": {a1: w.node("Amp1", s["width"], s["kv_key_in_expression"], s["coupling"]), a2: w.node("Amp2", s["kv_key_in_expression"], s["existing"]), a3: w.value("0")},
            "parameter_defaults": {s["coupling"]: 1.0, s["width"]: 0.5, s["parameter_only"]: 0.14, s["existing"]: 2.0},
            "kinematic_variables": {s["kv_key_in_expression"]: w.node("KV1", s["kv_value_only"], s["momentum"]), s["kv_key_only"]: w.node("KV2", s["momentum"])},
            "components": {"I_{1}": w.node("Comp1", s["coupling"], s["width"]), "A_{2}": w.node("Comp2", s["kv_key_in_expression"], s["untouched"]), "I_{0}": w.value("0")},
            "reaction_info": MObj("reaction_info", kinds={"qrules.ReactionInfo", "qrules.transition.ReactionInfo"}, open=False),
        }
        for f, st in self.fields.items():
            if f in self.original:
                continue
            ann = unparse(st.annotation)
            if any(k in ann for k in ("dict", "Dict", "Mapping")):
                # an unknown mapping field is taken to hold symbols and expressions (the demanding case)
                self.original[f] = {s["coupling"]: w.node(f"Extra_{f}", s["width"], s["existing"])}
            elif any(k in ann for k in ("Expr", "Basic", "Symbol")):
                self.original[f] = w.node(f"Extra_{f}", s["coupling"])
            else:
                raise AnalysisError(f"HelicityModel.{f}: {ann} - no model value for a field of this type")

    def instance(self, values: dict, label: str = "HelicityModel") -> Instance:
        inst = Instance(label, self.cls, kinds={MODEL})
        inst.attrs.update(values)
        inst.attrs["__class__"] = self.class_obj
        return inst

    def fresh_original(self) -> Instance:
        """The original model, built like a real one: through the constructor, i.e. with the field converters applied;
        every dictionary it holds (also inside a ParameterValues object) then records mutating operations."""
        model = self.construct([], {f: (dict(v) if isinstance(v, dict) else v) for f, v in self.original.items()})
        model.label = "the original model"
        for holder in self.holders(model):
            for name, v in list(holder.attrs.items()):
                if type(v) is dict:
                    holder.attrs[name] = Tracked(v)
        return model

    def holders(self, model: Instance) -> list[Instance]:
        """The model and the package objects it holds (ParameterValues)."""
        return [model, *[v for v in model.attrs.values() if isinstance(v, Instance) and v.cls is not None and v.cls is not self.cls]]

    def containers(self, model: Instance) -> dict[int, str]:
        out = {}
        for holder in self.holders(model):
            for name, v in holder.attrs.items():
                if isinstance(v, (dict, list, set)):
                    out[id(v)] = name if holder is model else f"{holder.label}.{name}"
        return out

    def converted(self, values: dict) -> dict:
        """attrs runs the converter of every field when an instance is made."""
        out = dict(values)
        scope = PyExec.module_scope(self.cls.module)
        for f, st in self.fields.items():
            if f not in out or not isinstance(st.value, ast.Call):
                continue
            conv = next((k.value for k in st.value.keywords if k.arg == "converter"), None)
            if conv is None:
                continue
            target = self.tree.resolve(self.cls.module, conv)
            fn = self.tree.funcs.get(target or "")
            callee = fn if fn is not None else self.ex.ev(conv, {}, scope, 0)
            try:
                out[f] = self.ex.apply(callee, [out[f]], {}) if fn is None else self.ex.call_function(fn, [out[f]], {})
            except ModelRaise as exc:
                raise ModelRaise(exc.kind, f"the converter of HelicityModel.{f} ({unparse(conv)}) rejects the value {self.text(out[f])[:80]}: {exc}") from None
        return out

    def asdict(self, a, k) -> dict:
        if k.get("recurse", True) is not False:
            raise ModelError("attrs.asdict(recurse=True) of the model has no model")
        if not (isinstance(a[0], Instance) and a[0].cls is self.cls):
            raise ModelRaise("TypeError", "attrs.asdict of something that is not the model")
        return {f: a[0].attrs[f] for f in self.fields}

    def evolve(self, base, changes: dict) -> Instance:
        if not (isinstance(base, Instance) and base.cls is self.cls):
            raise ModelRaise("TypeError", "attrs.evolve of something that is not the model")
        unknown = set(changes) - set(self.fields)
        if unknown:
            raise ModelRaise("TypeError", f"unexpected keyword arguments {sorted(unknown)}")
        new = self.instance(self.converted({**{f: base.attrs[f] for f in self.fields}, **changes}), "a rebuilt model")
        new.evolved_from = base  # type: ignore[attr-defined]
        return new

    def construct(self, args, kwargs) -> Instance:
        names = list(self.fields)
        if len(args) > len(names):
            raise ModelRaise("TypeError", "too many positional arguments")
        values = dict(zip(names, args))
        for k, v in kwargs.items():
            if k not in self.fields or k in values:
                raise ModelRaise("TypeError", f"unexpected / repeated keyword argument {k}")
            values[k] = v
        for f, st in self.fields.items():
            if f in values:
                continue
            default = None
            if isinstance(st.value, ast.Call):
                for k in st.value.keywords:
                    if k.arg == "factory" and unparse(k.value) in {"dict", "list", "set", "tuple"}:
                        default = {"dict": dict, "list": list, "set": set, "tuple": tuple}[unparse(k.value)]()
                    elif k.arg == "default" and isinstance(k.value, ast.Constant):
                        default = k.value.value
                if not any(k.arg in {"factory", "default"} for k in st.value.keywords):
                    raise ModelRaise("TypeError", f"missing argument {f}")
            elif st.value is None:
                raise ModelRaise("TypeError", f"missing argument {f}")
            values[f] = default
        return self.instance(self.converted(values), "a rebuilt model")

    # ---- specification
    def sigma(self, renames: dict) -> dict:
        return {s: self.w.symbol(renames[s.attrs["name"]], **s.sym_assumptions) for s in self.sym.values() if s.attrs["name"] in renames}

    def as_mapping(self, v):
        """The items of a mapping value of the model world: a dict, or an object of a repository Mapping class."""
        if isinstance(v, dict):
            return dict(v)
        if isinstance(v, Instance) and v.cls is not None and v.cls is not self.cls:
            if self.tree.lookup_method(v.cls, "items") is not None:
                return dict(self.ex.iterate(self.ex.call_method(v, "items")))
            if self.tree.lookup_method(v.cls, "__getitem__") is not None:
                return {k: self.ex.call_method(v, "__getitem__", [k]) for k in self.ex.iterate(v)}
        return None

    def expected(self, f: str, sigma: dict):
        v = self.original[f]
        if isinstance(v, dict):
            return [(sigma.get(k, k) if isinstance(k, MObj) else k, self.w.xreplace(x, sigma) if isinstance(x, MObj) else x) for k, x in v.items()]
        if isinstance(v, MObj) and f not in EXEMPT:
            return self.w.xreplace(v, sigma)
        return v

    def field_problem(self, f: str, got, sigma: dict) -> str | None:
        want = self.expected(f, sigma)
        if not isinstance(want, list):
            return None if got is want else f"is {self.text(got)}, expected {self.text(want)}"
        items = self.as_mapping(got)
        if items is None:
            return f"is {self.text(got)[:80]}, not a mapping"
        want_keys = {k for k, _ in want}
        if set(items) != want_keys:
            missing, extra = want_keys - set(items), set(items) - want_keys
            return "keys differ:" + (f" lacks {sorted(self.text(k) for k in missing)}" if missing else "") + (f" has {sorted(self.text(k) for k in extra)}" if extra else "")
        for k in want_keys:
            candidates = [x for kk, x in want if kk is k or kk == k]
            if not any(items[k] is x or (not isinstance(x, MObj) and items[k] == x) for x in candidates):
                return f"[{self.text(k)}] is {self.text(items[k])[:90]}, expected {self.text(candidates[-1])[:90]}"
        return None

    def text(self, x) -> str:
        if isinstance(x, MObj):
            return x.attrs["__str__"]([], {}) if "__str__" in x.attrs else x.label
        if isinstance(x, dict):
            return "{" + ", ".join(f"{self.text(k)}: {self.text(v)}" for k, v in x.items()) + "}"
        return repr(x)

    def symbols_in(self, model: Instance) -> set:
        out: set = set()
        for f in self.fields:
            v = model.attrs.get(f)
            items = self.as_mapping(v) if not isinstance(v, MObj) or isinstance(v, Instance) and v.cls is not None else None
            parts = [v] if items is None else [*items.keys(), *items.values()]
            for p in parts:
                if isinstance(p, MObj):
                    out |= {x for x in self.w.subtree(p) if self.w.is_symbol(x)}
        return out


SCENARIOS: list[tuple[str, object]] = [
    ("injective map", {"C_1": "C_new", "Gamma": "Gamma_new", "m_kv": "m_kv_new", "m_stable": "m_stable_new", "theta": "theta_new", "phi_only": "phi_new"}),
    ("swap", {"C_1": "b_existing", "b_existing": "C_1"}),
    ("chain a->b, b->c", {"C_1": "b_existing", "b_existing": "c_final"}),
    ("merge into an existing symbol", {"C_1": "b_existing"}),
    ("iterable of pairs", [("Gamma", "Gamma_new"), ("theta", "theta_new")]),
    ("unknown name", {"does_not_exist": "x"}),
    ("empty map", {}),
]
SOURCE_OF = {"kv_value_only": "kinematic-variable values' free symbols", "kv_key_only": "kinematic-variable keys", "parameter_only": "parameter keys",
             "coupling": "expression free symbols", "width": "expression free symbols", "kv_key_in_expression": "expression free symbols", "existing": "expression free symbols"}


def run(ctx: Check, tree: Tree) -> None:  # noqa: C901, PLR0912, PLR0915
    ctx.decided += [
        "R-FIELDS: every HelicityModel field (exempt: reaction_info) of rename_symbols(map) equals the original field with the simultaneous symbol map applied to keys and values - decided by interpreting the method on a model for 7 kinds of rename maps",
        "R-ASSUME: new symbols carry the assumptions of the replaced symbol and the requested name",
        "R-SIMUL: swap and chain maps are applied simultaneously; symbols that are not renamed stay the objects they were",
        "R-UNIVERSE: a symbol that occurs only in the kinematic-variable values, only as a kinematic-variable key or only as a parameter key is renamed, too",
        "R-PURE: no mutating operation is executed on the original model's containers or on the caller's rename map; a non-empty map never returns the model itself",
    ]
    ctx.not_decided += ["numerical equivalence of the renamed model", "ParameterValues lookup semantics by name/index"]
    ctx.assumptions += ["sympy xreplace is a simultaneous structural replacement, subs without simultaneous=True is sequential; attrs.evolve re-runs the field converters (not modelled: fields are compared before conversion)"]
    cls = tree.cls(MODEL)
    fn = tree.lookup_method(cls, "rename_symbols")
    if fn is None:
        raise AnalysisError("vanished anchor: HelicityModel.rename_symbols")
    if len(fn.params) < 2:
        raise AnalysisError("rename_symbols: no parameter for the rename map")
    world = ModelWorld(tree)
    where = tree.loc(fn.node)
    field_problems: dict[str, list[str]] = {f: [] for f in world.fields}
    assume, newname, identity, sequential, universe, selfmut, inputmut, emptymap, unknown_fields, raised = [], [], [], [], [], [], [], [], [], []
    empty_ok = False
    for label, renames in SCENARIOS:
        as_dict = dict(renames)
        model = world.fresh_original()
        before = {f: (dict(v) if isinstance(v, dict) else v) for f, v in model.attrs.items()}
        own_containers = world.containers(model)
        arg = Tracked(renames) if isinstance(renames, dict) else list(renames)
        try:
            got = world.ex.run(fn, [model, arg])
        except ModelRaise as exc:
            if exc.kind == "TypeError" and "unexpected keyword" in str(exc):
                unknown_fields.append(f"{label}: {exc}")
            else:
                raised.append(f"{label}: rename_symbols raises {exc}")
            continue
        except ModelError as exc:
            raise AnalysisError(f"rename_symbols ({label}): cannot interpret - {exc}") from exc
        # ---- R-PURE
        for holder in world.holders(model)[1:]:
            for name, v in holder.attrs.items():
                if isinstance(v, Tracked) and v.mutations:
                    selfmut.append(f"{label}: {v.mutations[0]}(...) is executed on {holder.label}.{name} of the original model")
        for f, v in model.attrs.items():
            if isinstance(v, Tracked) and v.mutations:
                selfmut.append(f"{label}: self.{f}.{v.mutations[0]}(...) is executed on the original model")
            elif (dict(v) if isinstance(v, dict) else v) != before.get(f, v) or (not isinstance(v, dict) and v is not before.get(f, v)):
                selfmut.append(f"{label}: self.{f} is re-bound / changed")
        if set(model.attrs) != set(before):
            selfmut.append(f"{label}: new attributes {sorted(set(model.attrs) - set(before))} on the original model")
        if isinstance(arg, Tracked) and arg.mutations:
            inputmut.append(f"{label}: the caller's map is modified ({arg.mutations[0]})")
        if not (isinstance(got, Instance) and got.cls is world.cls):
            raised.append(f"{label}: rename_symbols returns {world.text(got)[:60]}, not a HelicityModel")
            continue
        sigma = world.sigma(as_dict)
        changes_something = any(s in sigma and sigma[s] is not s for s in world.sym.values())
        if not as_dict:
            empty_ok = got is model or all(world.field_problem(f, got.attrs.get(f), {}) is None for f in world.fields)
        if got is model and changes_something:
            emptymap.append(f"{label}: the model itself is returned although the map renames symbols of the model")
            continue
        base = getattr(got, "evolved_from", None)
        if base is not None and base is not model:
            field_problems.setdefault("reaction_info", []).append(f"{label}: the model is rebuilt from {world.text(base)}, not from self")
        # ---- R-FIELDS
        if got is not model:
            for ident, name in world.containers(got).items():
                if ident in own_containers:
                    f = next((f for f in world.fields if f in name or f in own_containers[ident]), name)
                    field_problems.setdefault(f, []).append(f"{label}: the renamed model shares the mutable container `{own_containers[ident]}` with the original: a later modification of one model changes the other")
            for f in world.fields:
                a, b = got.attrs.get(f), model.attrs.get(f)
                if a is b and isinstance(a, Instance) and a.cls is not None and any(isinstance(x, (dict, list, set)) for x in a.attrs.values()):
                    field_problems[f].append(f"{label}: the renamed model shares the mutable {a.cls.name} object of HelicityModel.{f} with the original")
        for f in world.fields:
            p = world.field_problem(f, got.attrs.get(f), sigma)
            if p is not None:
                field_problems[f].append(f"{label}: HelicityModel.{f} {p}")
        # ---- symbol level diagnosis (which rule a deviation belongs to)
        present = world.symbols_in(got)
        by_name: dict[str, list] = {}
        for s in present:
            by_name.setdefault(s.attrs["name"], []).append(s)
        legitimate = set(sigma.values()) | {s for s in world.sym.values() if s not in sigma or sigma[s] is s}
        for role, s in world.sym.items():
            name = s.attrs["name"]
            if name not in as_dict or sigma[s] is s:
                others = [x for x in by_name.get(name, []) if x is not s and x not in legitimate]
                if others:
                    identity.append(f"{label}: `{name}` is not renamed by the map but was replaced by another object (assumptions {others[0].sym_assumptions} instead of {s.sym_assumptions})")
                continue
            target = as_dict[name]
            if s not in sigma.values() and s in present:  # (in a swap the old symbol legitimately re-appears as an image)
                orig = [f for f in world.fields if _occurs(world, world.original[f], s)]
                still = [f for f in world.fields if _occurs(world, got.attrs.get(f), s)]
                if still == orig:
                    universe.append(f"{label}: `{name}` ({SOURCE_OF.get(role, role)}) is not renamed anywhere (occurs in {orig})")
            wrong = [x for x in by_name.get(target, []) if x not in legitimate]
            if wrong:
                assume.append(f"{label}: `{name}` {s.sym_assumptions} becomes `{target}` with assumptions {wrong[0].sym_assumptions}")
            if sigma[s] not in present and not wrong and s not in present:
                later = as_dict.get(target)
                if later is not None and later in by_name and target != later:
                    sequential.append(f"{label}: `{name}` ends up as `{later}`: the pairs are applied one after the other")
                else:
                    newname.append(f"{label}: `{name}` should become `{target}`; symbols of the result: {sorted(by_name)}")
    if raised:
        ctx.violation("R-FIELDS", f"{fn.qual}::raises", where, f"rename_symbols does not return a renamed model for a rename map of the model's own symbols - {raised[0][:300]}", raised[:3])
    ev_where = where
    for f in world.fields:
        key = f"{fn.qual}::field {f}"
        if f in EXEMPT and not field_problems[f]:
            ctx.ok("R-FIELDS", ev_where, f"HelicityModel.{f}: exempt - {EXEMPT[f]} (passed on unchanged)")
            continue
        ps = field_problems[f]
        ctx.verdict(not ps, "R-FIELDS", key, ev_where, f"HelicityModel.{f} of the renamed model = the original with the symbol map applied ({len(SCENARIOS)} rename maps)",
                    None if not ps else ps[:4] + ["intensity/amplitudes/components/parameters/kinematic variables must stay mutually consistent (C01) after renaming"])
    if unknown_fields:
        ctx.violation("R-FIELDS", f"{fn.qual}::unknown-fields", ev_where, f"the model is rebuilt with unknown fields: {unknown_fields[0]}")
    ctx.verdict(not assume, "R-ASSUME", f"{fn.qual}::assumptions", where, "the replacement symbol carries the assumptions of the symbol it replaces",
                None if not assume else assume[:3] + ["assumptions of the renamed symbol are dropped or overridden: the new symbol is a different object than one a user would create with the original assumptions"])
    ctx.verdict(not newname, "R-ASSUME", f"{fn.qual}::new-name", where, "the new name is the one the map gives for the symbol's name", newname[:3] or None)
    ctx.verdict(not identity, "R-SIMUL", f"{fn.qual}::identity-for-others", where, "symbols whose name is not in the rename map are mapped to themselves (unrelated symbols untouched)", identity[:3] or None)
    if sequential:
        ctx.violation("R-SIMUL", f"{fn.qual}::pairs-applied-sequentially", where, "rename_symbols applies the pairs of the map one after the other", sequential[:3] + ["{a: b, b: c} then renames a to c; a swap {a: b, b: a} merges the two symbols: the map is not applied simultaneously"])
    cs = cls.methods.get("__collect_symbols")
    ctx.verdict(not universe, "R-UNIVERSE", f"{MODEL}.__collect_symbols::sources", tree.loc(cs.node) if cs is not None else where,
                "a symbol is renamed wherever it occurs: expression free symbols | kinematic-variable keys | free symbols of their values | parameter keys", universe[:4] or None)
    ctx.verdict(not selfmut, "R-PURE", f"{fn.qual}::no-self-mutation", where, "rename_symbols never writes to self (the original model is unchanged)", selfmut[:3] or None)
    ctx.verdict(not inputmut, "R-PURE", f"{fn.qual}::input-copied", where, "the caller's rename map is copied (dict(renames)) / never mutated", inputmut[:3] or None)
    ok = empty_ok and not emptymap
    ctx.verdict(ok, "R-PURE", f"{fn.qual}::empty-map", where, "an empty rename map gives the (frozen, immutable) model itself or an equal model; a map that renames something never does",
                None if ok else (emptymap[:2] or ["the empty map does not give back an equal model"]))
    frozen = any(d[0] in {"attrs.frozen", "attr.frozen"} or "frozen" in unparse(d[1]) for d in cls.decorators)
    ctx.verdict(frozen, "R-PURE", f"{MODEL}::frozen", tree.loc(cls.node), "HelicityModel is an attrs-frozen class")


def _occurs(world: ModelWorld, v, s) -> bool:
    items = world.as_mapping(v) if not isinstance(v, MObj) or (isinstance(v, Instance) and v.cls is not None) else None
    parts = [v] if items is None else [*items.keys(), *items.values()]
    return any(isinstance(p, MObj) and s in world.w.subtree(p) for p in parts)
