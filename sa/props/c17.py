"""C17 - rename_symbols is a consistent renaming of the whole model.

R-FIELDS   every field of HelicityModel (minus the exempt table) is rebuilt from the symbol
           mapping in rename_symbols; keys and values are mapped where keys are symbols.
R-ASSUME   the replacement symbol carries the assumptions of the symbol it replaces.
R-SIMUL    the mapping is applied with a simultaneous primitive (xreplace), never sequential subs.
R-UNIVERSE the symbol universe covers expression, kinematic-variable keys and their values.
R-PURE     the original model and the caller's rename map are not mutated.
"""

from __future__ import annotations

import ast

from ..dataflow import MUTATORS, RD
from ..loader import AnalysisError, Tree, unparse, walk_function
from ..report import Check

PID = "C17"
MODEL = "ampform.helicity::HelicityModel"
EXEMPT = {"reaction_info": "holds no SymPy symbols (qrules ReactionInfo, the immutable input)"}
SYMBOL_KEYED = {"parameter_defaults", "kinematic_variables"}


def check_sequential_mapping(ctx: Check, tree: Tree, fn, rd: RD) -> None:
    """The mapping is built by a loop over the rename pairs instead of one comprehension.  The
    grammar of the other rules does not cover that shape (the caller reports ANALYSIS-ERROR), but
    one hazard is decidable: if the symbols a pair applies to are selected by the name of their
    CURRENT TARGET (a value of the mapping under construction) instead of by their own name, the
    pairs are applied one after the other - {a: b, b: c} sends a to c, a swap collapses into a merge."""
    for st in walk_function(fn.node):
        if not (isinstance(st, ast.Assign) and isinstance(st.targets[0], ast.Subscript) and isinstance(st.targets[0].value, ast.Name)):
            continue
        if not any(isinstance(c, ast.Call) and tree.callee(c, fn) == "sympy.Symbol" for c in ast.walk(st.value)):
            continue
        m = st.targets[0].value.id
        key = st.targets[0].slice
        sel = [key] + [d.value for d in rd.closure(rd.uses(key)) if isinstance(d.value, ast.AST)]
        sel += [d.node.iter for d in rd.closure(rd.uses(key)) if d.kind == "for" and isinstance(d.node, ast.For)]
        for e in sel:
            for comp in [n for n in ast.walk(e) if isinstance(n, (ast.ListComp, ast.SetComp, ast.GeneratorExp, ast.DictComp))]:
                for gen in comp.generators:
                    it = gen.iter
                    over_items = isinstance(it, ast.Call) and isinstance(it.func, ast.Attribute) and it.func.attr == "items" and isinstance(it.func.value, ast.Name) and it.func.value.id == m
                    val_names = set()
                    if over_items and isinstance(gen.target, ast.Tuple) and len(gen.target.elts) == 2 and isinstance(gen.target.elts[1], ast.Name):
                        val_names.add(gen.target.elts[1].id)
                    for cond in gen.ifs:
                        reads_value = any(isinstance(n, ast.Name) and n.id in val_names for n in ast.walk(cond)) or any(
                            isinstance(n, ast.Subscript) and isinstance(n.value, ast.Name) and n.value.id == m for n in ast.walk(cond))
                        if reads_value:
                            ctx.violation("R-SIMUL", f"{fn.qual}::pairs-applied-sequentially", tree.loc(cond),
                                          f"rename_symbols: the symbols a rename pair applies to are selected with `{unparse(cond)}` - by the name of their current target in `{m}`, not by their own name",
                                          "{a: b, b: c} then renames a to c; a swap {a: b, b: a} merges the two symbols: the map is not applied simultaneously")


def run(ctx: Check, tree: Tree) -> None:
    ctx.decided += [
        "R-FIELDS: every HelicityModel field (exempt: reaction_info) is a keyword of the attrs.evolve call in rename_symbols and its value derives from the symbol mapping; symbol-keyed mappings map keys and values",
        "R-ASSUME: new symbols are built with **s.assumptions0 of the replaced symbol",
        "R-SIMUL: only xreplace (simultaneous) is used; unknown names map to themselves",
        "R-UNIVERSE: __collect_symbols unions expression.free_symbols, kinematic-variable keys and the free symbols of their values",
        "R-PURE: nothing in rename_symbols stores into self or mutates the caller's mapping",
    ]
    ctx.not_decided += ["numerical equivalence of the renamed model", "ParameterValues lookup semantics by name/index"]
    ctx.assumptions += ["sympy xreplace is a simultaneous structural replacement; attrs.evolve re-runs the field converters"]
    cls = tree.cls(MODEL)
    fn = cls.methods.get("rename_symbols")
    if fn is None:
        raise AnalysisError("vanished anchor: HelicityModel.rename_symbols")
    rd = RD(fn.node)
    fields = [st.target.id for st in cls.node.body if isinstance(st, ast.AnnAssign) and isinstance(st.target, ast.Name)]
    if len(fields) < 6:
        raise AnalysisError(f"HelicityModel has {len(fields)} fields (6 confirmed)")
    evolves = [c for c in walk_function(fn.node) if isinstance(c, ast.Call) and tree.callee(c, fn) in {"attrs.evolve", "attr.evolve", "dataclasses.replace"}]
    if len(evolves) != 1:
        raise AnalysisError(f"rename_symbols: expected one attrs.evolve call, found {len(evolves)}")
    ev = evolves[0]
    if not (ev.args and unparse(ev.args[0]) == "self"):
        ctx.violation("R-FIELDS", f"{fn.qual}::evolve-base", tree.loc(ev), "attrs.evolve is not applied to self")
    kws = {k.arg: k.value for k in ev.keywords if k.arg}
    # the mapping variable: the dict comprehension whose values are sp.Symbol(...)
    mapping_defs = [d for d in rd.defs if d.value is not None and isinstance(d.value, ast.DictComp) and any(isinstance(c, ast.Call) and tree.callee(c, fn) == "sympy.Symbol" for c in ast.walk(d.value))]
    if len(mapping_defs) != 1:
        check_sequential_mapping(ctx, tree, fn, rd)
        raise AnalysisError("rename_symbols: symbol mapping (dict comprehension of sp.Symbol) not found")
    mapping = mapping_defs[0]
    for f in fields:
        key = f"{fn.qual}::field {f}"
        if f in EXEMPT:
            ctx.ok("R-FIELDS", tree.loc(ev), f"HelicityModel.{f}: exempt - {EXEMPT[f]}")
            continue
        if f not in kws:
            ctx.violation("R-FIELDS", key, tree.loc(ev), f"rename_symbols does not rebuild HelicityModel.{f}: the renamed model keeps the old symbols there",
                          "intensity/amplitudes/components/parameters/kinematic variables must stay mutually consistent (C01) after renaming")
            continue
        val = kws[f]
        deps = rd.closure(rd.uses(val))
        uses_mapping = mapping in deps
        problems = []
        if not uses_mapping:
            problems.append("value does not depend on the symbol mapping")
        # applied with xreplace / get
        applies = [c for c in ast.walk(val) if isinstance(c, ast.Call) and isinstance(c.func, ast.Attribute) and c.func.attr in {"xreplace", "subs", "get", "replace"} and any(isinstance(n, ast.Name) and n.id == mapping.name for a in [*c.args, c.func.value] for n in ast.walk(a))]
        for c in applies:
            if c.func.attr in {"subs", "replace"} and not any(k.arg == "simultaneous" and isinstance(k.value, ast.Constant) and k.value.value is True for k in c.keywords):
                problems.append(f"`{unparse(c)[:50]}` is a sequential substitution: a chain a->b, b->c renames a to c")
        if f in SYMBOL_KEYED:
            if isinstance(val, ast.DictComp):
                knames = {n.id for n in ast.walk(val.key) if isinstance(n, ast.Name)}
                if mapping.name not in knames:
                    problems.append("keys (symbols) are not mapped")
                if f == "kinematic_variables":
                    vnames = {n.id for n in ast.walk(val.value) if isinstance(n, ast.Name)}
                    if mapping.name not in vnames:
                        problems.append("values (expressions) are not mapped")
                src = unparse(val.generators[0].iter)
                if f"self.{f}" not in src:
                    problems.append(f"built from `{src}`, not from self.{f}")
                if val.generators[0].ifs:
                    problems.append("entries are filtered")
            else:
                problems.append("shape outside grammar (no dict comprehension)")
        elif isinstance(val, ast.DictComp):
            vnames = {n.id for n in ast.walk(val.value) if isinstance(n, ast.Name)}
            if mapping.name not in vnames:
                problems.append("values (expressions) are not mapped")
            if f"self.{f}" not in unparse(val.generators[0].iter):
                problems.append(f"built from `{unparse(val.generators[0].iter)}`, not from self.{f}")
            if val.generators[0].ifs:
                problems.append("entries are filtered")
        else:
            if f"self.{f}" not in unparse(val):
                problems.append(f"built from `{unparse(val)[:40]}`, not from self.{f}")
            # a helper that rebuilds the mapping: it must keep every entry and apply the mapping to each
            if isinstance(val, ast.Call):
                helper = tree.funcs.get(tree.callee(val, fn) or "")
                if helper is not None and helper.qual.startswith("ampform"):
                    comps = [n for n in walk_function(helper.node) if isinstance(n, (ast.DictComp, ast.ListComp, ast.GeneratorExp))]
                    rets_h = [r for r in walk_function(helper.node, nested=False) if isinstance(r, ast.Return) and r.value is not None]
                    if not comps or len(rets_h) != 1:
                        problems.append(f"helper {helper.name}: shape outside grammar")
                    for comp in comps:
                        if any(g.ifs for g in comp.generators):
                            problems.append(f"helper {helper.name} filters the entries (`if {unparse(comp.generators[0].ifs[0])}`): entries without that property are dropped from the renamed model")
                    if any(isinstance(n, (ast.Continue, ast.Break)) for n in walk_function(helper.node)) or any(isinstance(n, ast.If) for n in walk_function(helper.node)):
                        problems.append(f"helper {helper.name} treats entries conditionally")
                    htxt = unparse(helper.node)
                    if ".xreplace(" not in htxt:
                        problems.append(f"helper {helper.name} does not apply the mapping with xreplace")
        ctx.verdict(not problems, "R-FIELDS", key, tree.loc(val), f"HelicityModel.{f} := {unparse(val)[:70]}", problems or None)
    extra = set(kws) - set(fields)
    if extra:
        ctx.violation("R-FIELDS", f"{fn.qual}::unknown-fields", tree.loc(ev), f"attrs.evolve receives unknown fields {sorted(extra)}")

    # ---- R-ASSUME / untouched symbols
    comp = mapping.value
    sym_calls = [c for c in ast.walk(comp) if isinstance(c, ast.Call) and tree.callee(c, fn) == "sympy.Symbol"]
    loop_var = unparse(comp.generators[0].target)
    c0 = sym_calls[0]
    star = [k for k in c0.keywords if k.arg is None]
    ok = len(star) == 1 and unparse(star[0].value) == f"{loop_var}.assumptions0" and not [k for k in c0.keywords if k.arg is not None]
    ctx.verdict(ok, "R-ASSUME", f"{fn.qual}::assumptions", tree.loc(c0), f"replacement symbol: `{unparse(c0)[:70]}` carries **{loop_var}.assumptions0",
                None if ok else "assumptions of the renamed symbol are dropped or overridden: the new symbol is a different object than one a user would create with the original assumptions")
    name_arg = unparse(c0.args[0]) if c0.args else ""
    ok = name_arg.replace(" ", "") in {f"renames[{loop_var}.name]", f"renames.get({loop_var}.name)"}
    ctx.verdict(ok, "R-ASSUME", f"{fn.qual}::new-name", tree.loc(c0), f"the new name is renames[{loop_var}.name]", None if ok else name_arg)
    val = comp.value
    ok = isinstance(val, ast.IfExp) and unparse(val.test).replace(" ", "") == f"{loop_var}.nameinrenames" and unparse(val.orelse) == loop_var and unparse(comp.key) == loop_var
    ctx.verdict(ok, "R-SIMUL", f"{fn.qual}::identity-for-others", tree.loc(comp), "symbols whose name is not in the rename map are mapped to themselves (unrelated symbols untouched)",
                None if ok else unparse(comp)[:120])
    src = rd.closure(rd.uses(comp.generators[0].iter))
    ok = any(d.value is not None and "__collect_symbols" in unparse(d.value) for d in src) or "__collect_symbols" in unparse(comp.generators[0].iter)
    ctx.verdict(ok and not comp.generators[0].ifs, "R-UNIVERSE", f"{fn.qual}::mapping-over-universe", tree.loc(comp), "the symbol mapping ranges over the whole symbol universe of the model")

    # ---- R-UNIVERSE
    cs = cls.methods.get("__collect_symbols")
    if cs is None:
        raise AnalysisError("vanished anchor: HelicityModel.__collect_symbols")
    txt = unparse(cs.node).replace(" ", "")
    sources = {
        "expression free symbols": "self.expression.free_symbols" in txt,
        "kinematic-variable keys": "set(self.kinematic_variables)" in txt or "self.kinematic_variables.keys()" in txt or "symbols.update(self.kinematic_variables)" in txt,
        "kinematic-variable values' free symbols": "self.kinematic_variables.values()" in txt and txt.count("free_symbols") >= 2,
        # a parameter that does not occur in the expression (the mass of a stable final state, a scalar
        # initial-state mass) is still an attribute of the model: "every attribute equals the original with the map applied"
        "parameter keys": "set(self.parameter_defaults)" in txt or "self.parameter_defaults.keys()" in txt or "symbols.update(self.parameter_defaults)" in txt or "*self.parameter_defaults" in txt,
    }
    missing = [k for k, v in sources.items() if not v]
    ctx.verdict(not missing, "R-UNIVERSE", f"{cs.qual}::sources", tree.loc(cs.node),
                "__collect_symbols = expression.free_symbols | kinematic-variable keys | free symbols of their values | parameter keys", missing or None)

    # ---- R-PURE
    bad = []
    for node in walk_function(fn.node):
        if isinstance(node, (ast.Assign, ast.AugAssign)):
            tgts = node.targets if isinstance(node, ast.Assign) else [node.target]
            for t in tgts:
                if isinstance(t, (ast.Attribute, ast.Subscript)) and unparse(t).startswith("self"):
                    bad.append(node)
        if isinstance(node, ast.Call) and isinstance(node.func, ast.Attribute) and node.func.attr in MUTATORS and unparse(node.func.value).startswith("self"):
            bad.append(node)
    ctx.verdict(not bad, "R-PURE", f"{fn.qual}::no-self-mutation", tree.loc(fn.node), "rename_symbols never writes to self (the original model is unchanged)", [unparse(b)[:60] for b in bad] or None)
    copies = [d for d in rd.defs if d.name == "renames" and d.value is not None and unparse(d.value) == "dict(renames)"]
    mut_input = [n for n in walk_function(fn.node) if isinstance(n, ast.Call) and isinstance(n.func, ast.Attribute) and n.func.attr in MUTATORS and unparse(n.func.value) == "renames"]
    ctx.verdict(bool(copies) or not mut_input, "R-PURE", f"{fn.qual}::input-copied", tree.loc(fn.node), "the caller's rename map is copied (dict(renames)) / never mutated")
    # early exit returns self for the empty map
    empties = [n for n in walk_function(fn.node) if isinstance(n, ast.If) and unparse(n.test) == "not renames"]
    ok = len(empties) == 1 and isinstance(empties[0].body[0], ast.Return) and unparse(empties[0].body[0].value) == "self"
    ctx.verdict(ok, "R-PURE", f"{fn.qual}::empty-map", tree.loc(fn.node), "an empty rename map returns the (frozen, immutable) model itself")
    frozen = any(d[0] in {"attrs.frozen", "attr.frozen"} or "frozen" in unparse(d[1]) for d in cls.decorators)
    ctx.verdict(frozen, "R-PURE", f"{MODEL}::frozen", tree.loc(cls.node), "HelicityModel is an attrs-frozen class")
