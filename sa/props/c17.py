"""C17 - rename_symbols is a consistent renaming of the whole model.

R-FIELDS   every field of HelicityModel (minus the exempt table) is rebuilt from the symbol
           mapping in rename_symbols; keys and values are mapped where keys are symbols.
R-ASSUME   the replacement symbol carries the assumptions of the symbol it replaces.
R-SIMUL    the mapping is applied with a simultaneous primitive (xreplace), never sequential subs.
R-UNIVERSE the symbol universe covers expression, kinematic-variable keys and their values.
R-PURE     the original model and the caller's rename map are not mutated.

How the code is read.  The rules look at VALUES, not at spellings: every expression of
rename_symbols is first put into closed form with ``CallInliner`` (locals with one definition are
replaced by their definition; a call of a helper function / private method / nested closure is replaced
by the expression it returns, with the arguments substituted; the loader's normal form has already
turned accumulator loops into comprehensions).  ``{k: v.xreplace(m) for k, v in d.items()}`` is then the
same value whether it is written in place, built by a loop into a temporary, or returned by
``_rename_definitions(d, m)`` / produced through a closure ``rename(v)``.  The symbol universe is computed
by a small abstract interpreter (``Universe``) that executes ``__collect_symbols`` and the helpers it
calls on "which sources does this collection contain completely" - ``|=``, ``update``, ``add``, ``union``,
set displays and comprehensions, full loops over a mapping's keys / values / items.

A value that the closed form cannot express and whose shape is outside the grammar is an
ANALYSIS-ERROR (never a pass); a value that is understood and wrong is a violation.
"""

from __future__ import annotations

import ast

from ..canon import emptiness_fact, normal_test
from ..dataflow import MUTATORS, RD
from ..inline import CallInliner
from ..loader import AnalysisError, FuncInfo, Tree, ancestors, unparse, walk_function
from ..paths import PathWalker, atomic_tests
from ..report import Check

PID = "C17"
MODEL = "ampform.helicity::HelicityModel"
EXEMPT = {"reaction_info": "holds no SymPy symbols (qrules ReactionInfo, the immutable input)"}
SYMBOL_KEYED = {"parameter_defaults", "kinematic_variables"}
# values that are not expressions (numbers): passed on as they are
PLAIN_VALUES = {"parameter_defaults"}
REQUIRED_SOURCES = {
    "expression free symbols": "free:expression",
    "kinematic-variable keys": "keys:kinematic_variables",
    "kinematic-variable values' free symbols": "free:values:kinematic_variables",
    # a parameter that does not occur in the expression (the mass of a stable final state, a scalar
    # initial-state mass) is still an attribute of the model: "every attribute equals the original with the map applied"
    "parameter keys": "keys:parameter_defaults",
}
MAPPING_CONSTRUCTORS = {"dict", "OrderedDict", "collections.OrderedDict", "ParameterValues"}
SEQUENCE_WRAPPERS = {"list", "tuple"}


# --------------------------------------------------------------------------- small AST predicates
def strip(e: ast.AST) -> ast.AST:
    """The expression without wrappers that do not change its value (walrus, typing.cast)."""
    while True:
        if isinstance(e, ast.NamedExpr):
            e = e.value
        elif isinstance(e, ast.Call) and len(e.args) == 2 and not e.keywords and (call_name(e) or "").split(".")[-1] == "cast":
            e = e.args[1]
        else:
            return e


def same(a: ast.AST, b: ast.AST) -> bool:
    """Structural equality of two expressions (a comprehension target and its use compare equal)."""
    a, b = strip(a), strip(b)
    if isinstance(a, ast.Name) and isinstance(b, ast.Name):
        return a.id == b.id
    if type(a) is not type(b):
        return False
    for (fa, va), (_, vb) in zip(ast.iter_fields(a), ast.iter_fields(b)):
        if fa == "ctx":
            continue
        if isinstance(va, ast.AST) and isinstance(vb, ast.AST):
            if not same(va, vb):
                return False
        elif isinstance(va, list) and isinstance(vb, list):
            if len(va) != len(vb) or not all(same(x, y) if isinstance(x, ast.AST) else x == y for x, y in zip(va, vb)):
                return False
        elif va != vb:
            return False
    return True


def names_in(e: ast.AST) -> set[str]:
    return {n.id for n in ast.walk(e) if isinstance(n, ast.Name)}


def is_self_field(e: ast.AST, f: str | None = None) -> str | None:
    """``self.<f>`` -> f"""
    e = strip(e)
    if isinstance(e, ast.Attribute) and isinstance(e.value, ast.Name) and e.value.id == "self" and (f is None or e.attr == f):
        return e.attr
    return None


def call_name(e: ast.AST) -> str | None:
    if isinstance(e, ast.Call):
        try:
            return unparse(e.func)
        except Exception:  # noqa: BLE001
            return None
    return None


class Shapes:
    """Recognisers for "x with the mapping applied", relative to the name of the symbol mapping."""

    def __init__(self, mapping_name: str) -> None:
        self.m = mapping_name

    def is_mapping(self, e: ast.AST) -> bool:
        e = strip(e)
        while isinstance(e, ast.Call) and len(e.args) == 1 and not e.keywords and (call_name(e) or "").split(".")[-1] in {"dict", "OrderedDict"}:
            e = strip(e.args[0])  # a copy of the mapping maps the same
        return isinstance(e, ast.Name) and e.id == self.m

    def applied(self, e: ast.AST, is_operand) -> str | None:
        """'ren' if e is <operand> with the mapping applied simultaneously, 'seq' if applied with a
        sequential primitive, None otherwise."""
        e = strip(e)
        if not (isinstance(e, ast.Call) and isinstance(e.func, ast.Attribute) and e.func.attr in {"xreplace", "subs", "replace"}):
            return None
        if not is_operand(e.func.value) or not e.args or not self.is_mapping(e.args[0]):
            return None
        if e.func.attr == "xreplace":
            return "ren" if len(e.args) == 1 and not e.keywords else None
        simultaneous = any(k.arg == "simultaneous" and isinstance(k.value, ast.Constant) and k.value.value is True for k in e.keywords)
        return "ren" if simultaneous and e.func.attr == "subs" else "seq"

    def key_applied(self, e: ast.AST, is_operand) -> str | None:
        """A symbol (dictionary key) sent through the mapping: ``m.get(k, k)``, ``m[k] if k in m else k``,
        ``k.xreplace(m)``."""
        e = strip(e)
        if isinstance(e, ast.Call) and isinstance(e.func, ast.Attribute) and e.func.attr == "get" and self.is_mapping(e.func.value):
            args = [*e.args, *[k.value for k in e.keywords if k.arg == "default"]]
            if len(args) == 2 and is_operand(args[0]) and is_operand(args[1]):
                return "ren"
            return None
        if isinstance(e, ast.IfExp):
            test, positive = normal_test(e.test, True)
            hit, miss = (e.body, e.orelse) if positive else (e.orelse, e.body)
            if (isinstance(test, ast.Compare) and len(test.ops) == 1 and isinstance(test.ops[0], ast.In) and is_operand(test.left) and self.is_mapping(test.comparators[0])
                    and isinstance(strip(hit), ast.Subscript) and self.is_mapping(strip(hit).value) and is_operand(strip(hit).slice) and is_operand(miss)):
                return "ren"
            return None
        return self.applied(e, is_operand)


# --------------------------------------------------------------------------- R-FIELDS: one field value
def as_dict_comprehension(tree: Tree, e: ast.AST):
    """(key, value, generators) of a dictionary built element by element from an iteration."""
    e = strip(e)
    if isinstance(e, ast.DictComp):
        return e.key, e.value, e.generators
    if isinstance(e, ast.Call) and len(e.args) == 1 and not e.keywords and (call_name(e) or "").split(".")[-1] in {c.split(".")[-1] for c in MAPPING_CONSTRUCTORS}:
        inner = strip(e.args[0])
        if isinstance(inner, (ast.ListComp, ast.GeneratorExp)) and isinstance(inner.elt, ast.Tuple) and len(inner.elt.elts) == 2:
            return inner.elt.elts[0], inner.elt.elts[1], inner.generators
        return as_dict_comprehension(tree, inner)
    return None


def iteration_source(gen: ast.comprehension):
    """(field, key-recogniser, value-recogniser) of a generator that walks all entries of ``self.<field>``."""
    it = strip(gen.iter)
    while isinstance(it, ast.Call) and isinstance(it.func, ast.Name) and it.func.id in SEQUENCE_WRAPPERS and len(it.args) == 1 and not it.keywords:
        it = strip(it.args[0])
    tgt = gen.target
    if isinstance(it, ast.Call) and isinstance(it.func, ast.Attribute) and not it.args and not it.keywords:
        f = is_self_field(it.func.value)
        if f and it.func.attr == "items" and isinstance(tgt, ast.Tuple) and len(tgt.elts) == 2 and all(isinstance(t, ast.Name) for t in tgt.elts):
            k, v = tgt.elts
            return f, (lambda e: same(e, k)), (lambda e: same(e, v))
        if f and it.func.attr == "keys":
            it = it.func.value
    f = is_self_field(it)
    if f and isinstance(tgt, ast.Name):
        def is_value(e, f=f, tgt=tgt):
            e = strip(e)
            return isinstance(e, ast.Subscript) and is_self_field(e.value, f) is not None and same(e.slice, tgt)

        return f, (lambda e: same(e, tgt)), is_value
    return None


def foreign_entry_values(tree: Tree, val: ast.AST) -> list[str]:
    """The renamed mapping is built by a helper of the package in a loop ``for k, v in M.items()`` over the mapping it
    was given.  Whatever else that loop does, one thing is decidable: a value stored into the result that was READ FROM
    M UNDER ANOTHER KEY (``M[e]`` with e not the loop's own key, reaching the stored value through the definitions of
    the loop body) is the value of a different entry - values no longer travel with their symbols.  Returns the
    descriptions of such stores (positive evidence only; an empty list says nothing about the helper)."""
    if not (isinstance(val, ast.Call) and getattr(val, "_module", None) is not None):
        return []
    helper = tree.funcs.get(tree.callee(val, tree.func_of(val)) or "")
    if helper is None:
        return []
    rd = RD(helper.node)
    out: list[str] = []
    for loop in [n for n in walk_function(helper.node, nested=False) if isinstance(n, ast.For)]:
        it = strip(loop.iter)
        if not (isinstance(it, ast.Call) and isinstance(it.func, ast.Attribute) and it.func.attr == "items" and not it.args
                and isinstance(loop.target, ast.Tuple) and len(loop.target.elts) == 2 and all(isinstance(t, ast.Name) for t in loop.target.elts)):
            continue
        source = unparse(it.func.value)
        own_key = loop.target.elts[0].id
        if not (isinstance(it.func.value, ast.Name) and it.func.value.id in helper.params):
            continue  # only a mapping that was handed in (the model's field), read by its parameter name
        for st in [n for n in ast.walk(loop) if isinstance(n, ast.Assign) and len(n.targets) == 1 and isinstance(n.targets[0], ast.Subscript) and unparse(n.targets[0].value) != source]:
            origins = [st.value, *[d.value for d in rd.closure(rd.uses(st.value)) if isinstance(d.value, ast.AST) and any(d.node is x for x in ast.walk(loop))]]
            for e in origins:
                for sub in [x for x in ast.walk(e) if isinstance(x, ast.Subscript) and isinstance(x.ctx, ast.Load) and unparse(x.value) == source]:
                    if not (isinstance(sub.slice, ast.Name) and sub.slice.id == own_key):
                        out.append(f"{helper.qual}: the value stored by `{unparse(st)[:50]}` can be `{unparse(sub)[:40]}` - the entry of `{source}` under another key than the one being renamed (`{own_key}`): "
                                   "the value of a different parameter ends up under this symbol")
    return sorted(set(out))


def field_problems(tree: Tree, sh: Shapes, f: str, is_mapping_field: bool, val: ast.AST) -> tuple[list[str], list[str]]:
    """(what is wrong with the value rename_symbols gives to field f, what could not be interpreted)."""
    val = strip(val)
    if isinstance(val, ast.IfExp):
        cond = unparse(val.test)[:60]
        p1, u1 = field_problems(tree, sh, f, is_mapping_field, val.body)
        p2, u2 = field_problems(tree, sh, f, is_mapping_field, val.orelse)
        return [f"when `{cond}`: {p}" for p in p1] + [f"unless `{cond}`: {p}" for p in p2], u1 + u2
    if isinstance(val, ast.Name):
        return [], [f"HelicityModel.{f}: `{val.id}` has no single defining expression (filled by statements)"]
    depends = sh.m in names_in(val)
    if not is_mapping_field:
        how = sh.applied(val, lambda e: is_self_field(e, f) is not None)
        if how == "ren":
            return [], []
        if how == "seq":
            return [f"`{unparse(val)[:50]}` is a sequential substitution: a chain a->b, b->c renames a to c"], []
        if not depends:
            return ["value does not depend on the symbol mapping" + (f" (self.{f} is passed on unchanged)" if is_self_field(val, f) else "")], []
        other = sh.applied(val, lambda e: True)
        if other is not None:
            return [f"built from `{unparse(val.func.value)[:40]}`, not from self.{f}"], []
        return [], [f"HelicityModel.{f}: cannot interpret `{unparse(val)[:80]}`"]
    comp = as_dict_comprehension(tree, val)
    if comp is None:
        if not depends:
            return ["value does not depend on the symbol mapping" + (f" (self.{f} is passed on unchanged)" if is_self_field(val, f) else "")], []
        foreign = foreign_entry_values(tree, val)
        if foreign:
            return foreign, []
        return [], [f"HelicityModel.{f}: `{unparse(val)[:80]}` is not a dictionary built entry by entry"]
    key, value, gens = comp
    problems: list[str] = []
    unknown: list[str] = []
    if len(gens) != 1:
        return [], [f"HelicityModel.{f}: nested comprehension"]
    gen = gens[0]
    src = iteration_source(gen)
    if src is None:
        return [], [f"HelicityModel.{f}: cannot interpret the iteration `for {unparse(gen.target)} in {unparse(gen.iter)[:60]}`"]
    g, is_key, is_value = src
    if g != f:
        problems.append(f"built from `self.{g}`, not from self.{f}")
    if gen.ifs:
        problems.append(f"entries are filtered (`if {unparse(gen.ifs[0])[:50]}`): entries without that property are dropped from the renamed model")
    # keys
    if is_key(key):
        if f in SYMBOL_KEYED:
            problems.append("keys (symbols) are not mapped")
    else:
        how = sh.key_applied(key, is_key)
        if how == "seq":
            problems.append(f"keys: `{unparse(key)[:50]}` is a sequential substitution")
        elif how is None:
            if f in SYMBOL_KEYED and sh.m not in names_in(key):
                problems.append("keys (symbols) are not mapped")
            else:
                unknown.append(f"HelicityModel.{f}: cannot interpret the key `{unparse(key)[:60]}`")
    # values
    if is_value(value):
        if f not in PLAIN_VALUES:
            problems.append("values (expressions) are not mapped")
    else:
        how = sh.applied(value, is_value)
        if how == "seq":
            problems.append(f"`{unparse(value)[:50]}` is a sequential substitution: a chain a->b, b->c renames a to c")
        elif how is None:
            if f not in PLAIN_VALUES and sh.m not in names_in(value):
                problems.append("values (expressions) are not mapped")
            else:
                unknown.append(f"HelicityModel.{f}: cannot interpret the value `{unparse(value)[:60]}`")
    return problems, unknown


def residual_loop_problems(fn: FuncInfo, rd: RD, name: ast.Name) -> list[str]:
    """A field value that stays a name after inlining is a container filled by statements the normal form
    could not turn into a comprehension.  Decidable hazard: the filling loop skips entries."""
    origin = getattr(name, "_origin", name)
    out: set[str] = set()
    for d in rd.closure(rd.reaching(origin)):
        if d.name != name.id or d.kind not in {"store", "aug", "assign"}:
            continue
        loop = next((a for a in ancestors(d.node) if isinstance(a, (ast.For, ast.While))), None)
        if loop is None:
            continue
        inside = list(walk_function(loop, nested=False))
        skipping = [n for n in inside if isinstance(n, (ast.Continue, ast.Break))]
        guards = [a for a in ancestors(d.node) if isinstance(a, ast.If) and any(a is x for x in inside)]
        if skipping:
            guard = next((a for a in ancestors(skipping[0]) if isinstance(a, ast.If) and any(a is x for x in inside)), None)
            under = f" under `{unparse(guard.test)[:60]}`" if guard is not None else ""
            out.add(f"the loop that fills `{name.id}` skips entries (`{type(skipping[0]).__name__.lower()}`{under}): entries are treated conditionally")
        elif guards and not all(g.orelse for g in guards):
            out.add(f"the loop that fills `{name.id}` stores an entry only `if {unparse(guards[0].test)[:60]}`: entries are treated conditionally")
    return sorted(out)


# --------------------------------------------------------------------------- R-UNIVERSE: abstract collections
U = ("unknown",)
ELEMENT_KINDS = {"elem", "iterset", "pair"}
YIELDED = "<yielded>"  # hidden accumulator of a generator function (no program can spell the name)


class Universe:
    """Abstract interpreter: which SOURCES does a collection contain completely?

    Values: ("self",), ("field", f) = self.f, ("view", f, keys|values|items), ("set", {sources}) a collection
    that contains every element of each source, ("elem", {sources}) one element while ALL elements of the sources
    are being visited by full loops, ("iterset", {sources}) a set per iteration whose union over the full loops
    is the sources, ("listof", {sources}) a complete sequence of such sets, ("pair", f) one item of self.f.items().
    Sources are "keys:f", "values:f", "free:f" (= self.f.free_symbols), "free:values:f", "free:keys:f".
    A loop is full when its iterable is understood and its body has no break / continue / return; an update
    below an ``if`` is credited only if every branch makes it (branch environments are intersected).
    Operations that may remove elements and expressions outside the grammar are recorded in ``events``."""

    def __init__(self, tree: Tree, leaves: set[str] = frozenset()) -> None:
        self.tree = tree
        self.leaves = set(leaves) | {"expression"}  # attributes of self that are data, not computed collections
        self.events: list[str] = []
        self.depth = 0
        self.followed: list[str] = []

    # ---------------------------------------------------------------- helpers
    def property_of(self, e: ast.Attribute) -> FuncInfo | None:
        """``self.<attr>`` that is a property computing a collection (not one of the model's fields / `expression`)."""
        if e.attr in self.leaves or getattr(e, "_module", None) is None:
            return None
        scope = self.tree.func_of(e)
        cls = scope.cls if scope is not None else None
        while scope is not None and cls is None:
            scope = scope.outer
            cls = scope.cls if scope is not None else None
        m = self.tree.lookup_method(cls, e.attr) if cls is not None else None
        if m is not None and any(unparse(d).split(".")[-1] in {"property", "cached_property"} for d in m.node.decorator_list):
            return m
        return None

    def note(self, what: str, node: ast.AST | None = None) -> None:
        text = what + (f" `{unparse(node)[:70]}`" if node is not None else "")
        if text not in self.events:
            self.events.append(text)

    @staticmethod
    def sources(v) -> frozenset | None:
        """Sources credited when the value is united into an accumulator (None: not a collection we understand)."""
        if v[0] in {"set", "iterset", "listof"}:
            return v[1]
        if v[0] == "field":
            return frozenset({f"keys:{v[1]}"})
        if v[0] == "view" and v[2] in {"keys", "values"}:
            return frozenset({f"{v[2]}:{v[1]}"})
        return None

    def unite(self, parts: list, node: ast.AST) -> tuple:
        """Value of a union expression (not yet assigned to anything)."""
        got: set[str] = set()
        per_iteration = False
        for p in parts:
            s = self.sources(p)
            if s is None:
                self.note("cannot interpret an operand of the union", node)
                continue
            per_iteration |= p[0] == "iterset"
            got |= s
        return ("iterset" if per_iteration else "set", frozenset(got))

    @staticmethod
    def join(a, b):
        if a == b:
            return a
        if a[0] == "set" and b[0] == "set":
            return ("set", a[1] & b[1])
        return U

    def join_envs(self, envs: list[dict]) -> dict:
        if not envs:
            return {}
        out = {}
        for k in set().union(*envs):
            vals = [e.get(k, U) for e in envs]
            v = vals[0]
            for w in vals[1:]:
                v = self.join(v, w)
            out[k] = v
        return out

    # ---------------------------------------------------------------- expressions
    def bind(self, target: ast.AST, it, env: dict) -> None:
        names = [n.id for n in ast.walk(target) if isinstance(n, ast.Name)]
        for n in names:
            env[n] = U
        if it[0] == "view" and it[2] == "items":
            if isinstance(target, ast.Tuple) and len(target.elts) == 2 and all(isinstance(t, ast.Name) for t in target.elts):
                env[target.elts[0].id] = ("elem", frozenset({f"keys:{it[1]}"}))
                env[target.elts[1].id] = ("elem", frozenset({f"values:{it[1]}"}))
            elif isinstance(target, ast.Name):
                env[target.id] = ("pair", it[1])
            return
        if not isinstance(target, ast.Name):
            return
        if it[0] == "listof":
            env[target.id] = ("iterset", it[1])
            return
        s = self.sources(it)
        if s is not None:
            env[target.id] = ("elem", s)

    def iterable_understood(self, it) -> bool:
        return it[0] in {"view", "field", "set", "iterset", "listof"}

    def ev(self, e: ast.AST, env: dict):
        e = strip(e) if not isinstance(e, ast.NamedExpr) else e
        if isinstance(e, ast.NamedExpr):
            v = self.ev(e.value, env)
            if isinstance(e.target, ast.Name):
                env[e.target.id] = v
            return v
        if isinstance(e, ast.Name):
            return env.get(e.id, U)
        if isinstance(e, ast.Attribute):
            base = self.ev(e.value, env)
            if base[0] == "self":
                prop = self.property_of(e)
                if prop is not None and self.depth < 4:
                    return self.run_function(prop, {prop.params[0]: ("self",)} if prop.params else {})
                return ("field", e.attr)
            if e.attr == "free_symbols":
                if base[0] == "field":
                    return ("set", frozenset({f"free:{base[1]}"}))
                if base[0] == "elem":
                    return ("iterset", frozenset(f"free:{s}" for s in base[1]))
            return U
        if isinstance(e, ast.Subscript):
            base = self.ev(e.value, env)
            if base[0] == "pair" and isinstance(e.slice, ast.Constant) and e.slice.value in (0, 1):
                return ("elem", frozenset({f"{'keys' if e.slice.value == 0 else 'values'}:{base[1]}"}))
            if base[0] == "field":
                k = self.ev(e.slice, env)
                if k == ("elem", frozenset({f"keys:{base[1]}"})):
                    return ("elem", frozenset({f"values:{base[1]}"}))
            return U
        if isinstance(e, ast.BinOp) and isinstance(e.op, (ast.BitOr, ast.Add)):
            return self.unite([self.ev(e.left, env), self.ev(e.right, env)], e)
        if isinstance(e, ast.IfExp):
            return self.join(self.ev(e.body, dict(env)), self.ev(e.orelse, dict(env)))
        if isinstance(e, (ast.Set, ast.List, ast.Tuple)):
            got: set[str] = set()
            per_iteration = False
            for x in e.elts:
                if isinstance(x, ast.Starred):
                    v = self.ev(x.value, env)
                    s = self.sources(v)
                    if s is None:
                        self.note("cannot interpret a starred element", x)
                    else:
                        got |= s
                        per_iteration |= v[0] == "iterset"
                else:
                    v = self.ev(x, env)
                    if v[0] == "elem":
                        got |= v[1]
                        per_iteration = True
            return ("iterset" if per_iteration else "set", frozenset(got))
        if isinstance(e, (ast.SetComp, ast.ListComp, ast.GeneratorExp)):
            return self.comprehension(e, env)
        if isinstance(e, ast.Call):
            return self.call(e, env)
        return U

    def comprehension(self, e, env: dict):
        inner = dict(env)
        full = True
        for gen in e.generators:
            it = self.ev(gen.iter, inner)
            if not self.iterable_understood(it):
                full = False
                it = U
            self.bind(gen.target, it, inner)
            if gen.ifs:
                full = False
        v = self.ev(e.elt, inner)
        if not full:
            return ("set", frozenset())  # a filtered / partial collection: contains nothing completely
        if v[0] == "elem":
            return ("set", v[1])
        if v[0] == "iterset":
            return ("listof", v[1])
        return ("set", frozenset())

    def call(self, e: ast.Call, env: dict):
        f = e.func
        if isinstance(f, ast.Name) and f.id in {"set", "frozenset", "list", "tuple", "sorted", "reversed", "iter"} and f.id not in env:
            if not e.args:
                return ("set", frozenset())
            v = self.ev(e.args[0], env)
            if v[0] in {"set", "iterset", "listof"}:
                return v
            s = self.sources(v)
            return ("set", s) if s is not None else U
        if isinstance(f, ast.Attribute):
            if f.attr in {"keys", "values", "items"} and not e.args:
                base = self.ev(f.value, env)
                return ("view", base[1], f.attr) if base[0] == "field" else U
            if f.attr == "union":
                parts = []
                if not (isinstance(f.value, ast.Name) and f.value.id in {"set", "frozenset"} and f.value.id not in env):
                    parts.append(self.ev(f.value, env))
                for a in e.args:
                    parts.append(self.ev(a.value if isinstance(a, ast.Starred) else a, env))
                return self.unite(parts, e)
            if f.attr == "copy" and not e.args:
                return self.ev(f.value, env)
            if f.attr in {"difference", "intersection", "symmetric_difference"}:
                self.note("elements may be removed by", e)
                return U
        # a function of the package: execute it abstractly
        scope = self.tree.func_of(e)
        q = self.tree.callee(e, scope) if getattr(e, "_module", None) is not None else None
        h = self.tree.funcs.get(q) if q else None
        if h is not None and self.depth < 4:
            bound = self.bind_call(e, h, env)
            if bound is not None:
                return self.run_function(h, bound)
        return U

    def bind_call(self, e: ast.Call, h: FuncInfo, env: dict) -> dict | None:
        a = h.node.args
        if a.vararg or a.kwarg or any(isinstance(x, ast.Starred) for x in e.args) or any(k.arg is None for k in e.keywords):
            return None
        params = [x.arg for x in [*a.posonlyargs, *a.args]]
        static = any(unparse(d) == "staticmethod" for d in h.node.decorator_list)
        bound: dict = {}
        if h.cls is not None and h.outer is None and not static:
            if not params or not isinstance(e.func, ast.Attribute):
                return None
            bound[params[0]] = self.ev(e.func.value, env)
            params = params[1:]
        if len(e.args) > len(params):
            return None
        for p, x in zip(params, e.args):
            bound[p] = self.ev(x, env)
        for k in e.keywords:
            bound[k.arg] = self.ev(k.value, env)
        for p in [*params, *[x.arg for x in a.kwonlyargs]]:
            bound.setdefault(p, U)
        if h.outer is not None:  # a closure reads the variables of the enclosing function
            for k, v in env.items():
                bound.setdefault(k, v)
        return bound

    def run_function(self, h: FuncInfo, env: dict):
        self.depth += 1
        self.followed.append(h.qual)
        generator = any(isinstance(n, (ast.Yield, ast.YieldFrom)) for n in walk_function(h.node, nested=False))
        self.generators = [*getattr(self, "generators", []), generator]
        try:
            rets: list = []
            if generator:
                # a generator function: its value is the collection of everything it yields (hidden accumulator, read at
                # every exit; an early `return` is one more exit, so only what was yielded on EVERY path is credited)
                env = dict(env)
                env[YIELDED] = ("set", frozenset())
                if not self.block(h.node.body, env, rets):
                    rets.append(env[YIELDED])
            else:
                self.block(h.node.body, env, rets)
            if not rets:
                return U
            v = rets[0]
            for w in rets[1:]:
                v = self.join(v, w)
            return v
        finally:
            self.depth -= 1
            self.generators.pop()

    # ---------------------------------------------------------------- statements
    def block(self, stmts: list[ast.stmt], env: dict, rets: list) -> bool:
        """Execute; True if control cannot fall out of the end."""
        for st in stmts:
            if self.stmt(st, env, rets):
                return True
        return False

    def accumulate(self, name: str, parts: list, env: dict, node: ast.AST) -> None:
        old = env.get(name, U)
        if old[0] not in {"set", "iterset"}:
            s0 = self.sources(old)
            if s0 is None:
                self.note(f"`{name}` is not a collection the analysis understands in", node)
                env[name] = U
                return
            old = ("set", s0)
        got = set(old[1])
        for p in parts:
            s = self.sources(p)
            if s is None:
                self.note("cannot interpret what is added in", node)
            else:
                got |= s
        env[name] = (old[0], frozenset(got))

    def stmt(self, st: ast.stmt, env: dict, rets: list) -> bool:
        if isinstance(st, ast.Return):
            if getattr(self, "generators", None) and self.generators[-1]:
                rets.append(env.get(YIELDED, U))  # `return` in a generator ends the iteration
                return True
            rets.append(self.ev(st.value, env) if st.value is not None else U)
            return True
        if isinstance(st, ast.Expr) and isinstance(st.value, (ast.Yield, ast.YieldFrom)) and getattr(self, "generators", None) and self.generators[-1] and YIELDED in env:
            if st.value.value is None:
                return False
            v = self.ev(st.value.value, env)
            if isinstance(st.value, ast.YieldFrom):
                self.accumulate(YIELDED, [v], env, st)
            elif v[0] == "elem":
                self.accumulate(YIELDED, [("iterset", v[1])], env, st)
            return False
        if isinstance(st, ast.Raise):
            return True
        if isinstance(st, (ast.Assign, ast.AnnAssign)):
            if st.value is None:
                return False
            targets = st.targets if isinstance(st, ast.Assign) else [st.target]
            # `acc = acc | x` / `acc = acc.union(x)` accumulate; everything else rebinds
            t = targets[0]
            v = strip(st.value)
            if len(targets) == 1 and isinstance(t, ast.Name):
                if isinstance(v, ast.BinOp) and isinstance(v.op, (ast.BitOr, ast.Add)) and any(isinstance(x, ast.Name) and x.id == t.id for x in (v.left, v.right)):
                    other = v.right if isinstance(v.left, ast.Name) and v.left.id == t.id else v.left
                    self.accumulate(t.id, [self.ev(other, env)], env, st)
                    return False
                if (isinstance(v, ast.Call) and isinstance(v.func, ast.Attribute) and v.func.attr == "union" and isinstance(v.func.value, ast.Name) and v.func.value.id == t.id):
                    self.accumulate(t.id, [self.ev(a.value if isinstance(a, ast.Starred) else a, env) for a in v.args], env, st)
                    return False
            val = self.ev(st.value, env)
            for t in targets:
                if isinstance(t, ast.Name):
                    env[t.id] = val
                else:
                    for n in ast.walk(t):
                        if isinstance(n, ast.Name) and isinstance(n.ctx, ast.Store):
                            env[n.id] = U
            return False
        if isinstance(st, ast.AugAssign):
            if isinstance(st.target, ast.Name):
                if isinstance(st.op, (ast.BitOr, ast.Add)):
                    self.accumulate(st.target.id, [self.ev(st.value, env)], env, st)
                else:
                    if env.get(st.target.id, U)[0] in {"set", "iterset"}:
                        self.note("elements may be removed by", st)
                    env[st.target.id] = U
            return False
        if isinstance(st, ast.Expr):
            c = st.value
            if isinstance(c, ast.Call) and isinstance(c.func, ast.Attribute) and isinstance(c.func.value, ast.Name) and c.func.value.id in env:
                name, attr = c.func.value.id, c.func.attr
                if attr in {"update", "extend"}:
                    self.accumulate(name, [self.ev(a.value if isinstance(a, ast.Starred) else a, env) for a in c.args], env, st)
                elif attr in {"add", "append"} and len(c.args) == 1:
                    v = self.ev(c.args[0], env)
                    if v[0] == "elem":
                        self.accumulate(name, [("iterset", v[1])], env, st)
                elif attr in {"discard", "remove", "clear", "pop", "difference_update", "intersection_update", "symmetric_difference_update"}:
                    if env[name][0] in {"set", "iterset"}:
                        self.note("elements may be removed by", st)
                    env[name] = U
            else:
                self.ev(c, dict(env))
            return False
        if isinstance(st, ast.If):
            e1, e2 = dict(env), dict(env)
            t1 = self.block(st.body, e1, rets)
            t2 = self.block(st.orelse, e2, rets)
            if t1 and t2:
                return True
            new = e2 if t1 else e1 if t2 else self.join_envs([e1, e2])
            env.clear()
            env.update(new)
            return False
        if isinstance(st, (ast.For, ast.While)):
            before = dict(env)
            body_env = dict(env)
            exits = [n for n in walk_function(st, nested=False) if isinstance(n, (ast.Break, ast.Continue, ast.Return))]
            if isinstance(st, ast.For):
                it = self.ev(st.iter, env)
                full = self.iterable_understood(it) and not exits
                self.bind(st.target, it if full else U, body_env)
            self.block(st.body, body_env, rets)
            for k, after in body_env.items():
                old = before.get(k)
                if old is None:
                    env[k] = U if after[0] in ELEMENT_KINDS or after[0] == "iterset" else after
                elif after == old:
                    env[k] = old
                elif after[0] in ELEMENT_KINDS:
                    env[k] = U
                elif after[0] == "set" and old[0] == "set":
                    env[k] = after if after[1] >= old[1] else ("set", after[1] & old[1])
                else:
                    env[k] = U
            self.block(st.orelse, env, rets)
            return False
        if isinstance(st, ast.With):
            return self.block(st.body, env, rets)
        if isinstance(st, ast.Try):
            envs = []
            e0 = dict(env)
            if not self.block([*st.body, *st.orelse], e0, rets):
                envs.append(e0)
            for h in st.handlers:
                eh = dict(env)
                if not self.block(h.body, eh, rets):
                    envs.append(eh)
            if not envs:
                return True
            new = self.join_envs(envs)
            env.clear()
            env.update(new)
            return self.block(st.finalbody, env, rets)
        return False


# --------------------------------------------------------------------------- the mapping under construction
def check_sequential_mapping(ctx: Check, tree: Tree, fn, rd: RD) -> None:
    """The mapping is built by a loop over the rename pairs instead of one comprehension.  The
    grammar of the other rules does not cover that shape (the caller reports ANALYSIS-ERROR), but
    one hazard is decidable: if the symbols a pair applies to are selected by the name of their
    CURRENT TARGET (a value of the mapping under construction) instead of by their own name, the
    pairs are applied one after the other - {a: b, b: c} sends a to c, a swap collapses into a merge."""
    for st in walk_function(fn.node):
        if not (isinstance(st, ast.Assign) and isinstance(st.targets[0], ast.Subscript) and isinstance(st.targets[0].value, ast.Name)):
            continue
        if not any(isinstance(c, ast.Call) and tree.callee(c, fn) == "sympy.Symbol" for c in ast.walk(st.value)):
            continue
        m = st.targets[0].value.id
        key = st.targets[0].slice
        sel = [key] + [d.value for d in rd.closure(rd.uses(key)) if isinstance(d.value, ast.AST)]
        sel += [d.node.iter for d in rd.closure(rd.uses(key)) if d.kind == "for" and isinstance(d.node, ast.For)]
        for e in sel:
            for comp in [n for n in ast.walk(e) if isinstance(n, (ast.ListComp, ast.SetComp, ast.GeneratorExp, ast.DictComp))]:
                for gen in comp.generators:
                    it = gen.iter
                    over_items = isinstance(it, ast.Call) and isinstance(it.func, ast.Attribute) and it.func.attr == "items" and isinstance(it.func.value, ast.Name) and it.func.value.id == m
                    val_names = set()
                    if over_items and isinstance(gen.target, ast.Tuple) and len(gen.target.elts) == 2 and isinstance(gen.target.elts[1], ast.Name):
                        val_names.add(gen.target.elts[1].id)
                    for cond in gen.ifs:
                        reads_value = any(isinstance(n, ast.Name) and n.id in val_names for n in ast.walk(cond)) or any(
                            isinstance(n, ast.Subscript) and isinstance(n.value, ast.Name) and n.value.id == m for n in ast.walk(cond))
                        if reads_value:
                            ctx.violation("R-SIMUL", f"{fn.qual}::pairs-applied-sequentially", tree.loc(cond),
                                          f"rename_symbols: the symbols a rename pair applies to are selected with `{unparse(cond)}` - by the name of their current target in `{m}`, not by their own name",
                                          "{a: b, b: c} then renames a to c; a swap {a: b, b: a} merges the two symbols: the map is not applied simultaneously")


def is_mapping_annotation(ann: ast.AST | None) -> bool:
    text = unparse(ann) if ann is not None else ""
    return any(w in text for w in ("Dict", "dict", "Mapping", "ParameterValues"))


def helpers_of(tree: Tree, fn: FuncInfo) -> list[FuncInfo]:
    """rename_symbols plus what it calls inside the package module (nested closures, methods reached through
    self, module-level helpers), transitively - an extracted helper is part of the method."""
    graph = tree.call_graph()
    out = []
    for q in sorted(tree.reachable(fn.qual, graph)):
        g = tree.funcs.get(q)
        if g is None or g.module is not fn.module:
            continue
        root = g
        while root.outer is not None:
            root = root.outer
        if root.cls is not None and root.cls != fn.cls:
            continue  # `self` of another class (a constructor that is called) is not the model
        if g is fn or g.outer is not None or g.name.startswith("_"):
            out.append(g)
    return out


def run(ctx: Check, tree: Tree) -> None:
    ctx.decided += [
        "R-FIELDS: every HelicityModel field (exempt: reaction_info) is a keyword of the attrs.evolve call in rename_symbols and its value derives from the symbol mapping; symbol-keyed mappings map keys and values",
        "R-ASSUME: new symbols are built with **s.assumptions0 of the replaced symbol",
        "R-SIMUL: only xreplace (simultaneous) is used; unknown names map to themselves",
        "R-UNIVERSE: __collect_symbols unions expression.free_symbols, kinematic-variable keys and the free symbols of their values",
        "R-PURE: nothing in rename_symbols stores into self or mutates the caller's mapping",
    ]
    ctx.not_decided += ["numerical equivalence of the renamed model", "ParameterValues lookup semantics by name/index"]
    ctx.assumptions += ["sympy xreplace is a simultaneous structural replacement; attrs.evolve re-runs the field converters"]
    cls = tree.cls(MODEL)
    fn = cls.methods.get("rename_symbols")
    if fn is None:
        raise AnalysisError("vanished anchor: HelicityModel.rename_symbols")
    if len(fn.params) < 2:
        raise AnalysisError("rename_symbols: no parameter for the rename map")
    renames = fn.params[1]
    rd = RD(fn.node)
    inl = CallInliner(tree, fn, rd)
    fields = {st.target.id: st.annotation for st in cls.node.body if isinstance(st, ast.AnnAssign) and isinstance(st.target, ast.Name)}
    if len(fields) < 6:
        raise AnalysisError(f"HelicityModel has {len(fields)} fields (6 confirmed)")
    def rebuilds(c: ast.Call) -> str | None:
        q = tree.callee(c, fn)
        if q in {"attrs.evolve", "attr.evolve", "dataclasses.replace"}:
            return "evolve"
        f = c.func
        if isinstance(f, ast.Name):
            # a local that only ever holds the class (`model_type = type(self)`)
            defs = rd.reaching(f)
            if defs and all(d.kind == "assign" and d.index is None and d.value is not None for d in defs) and len({unparse(d.value) for d in defs}) == 1:
                f = next(iter(defs)).value
        if (q == MODEL or (isinstance(f, ast.Call) and isinstance(f.func, ast.Name) and f.func.id == "type" and len(f.args) == 1 and unparse(f.args[0]) == "self")
                or (isinstance(f, ast.Attribute) and f.attr == "__class__" and unparse(f.value) == "self")):
            return "constructor"  # HelicityModel(...) / type(self)(...): every field is spelled out
        return None

    # the mapping variable: the local whose value (helpers followed) is a dict comprehension that creates sp.Symbol objects
    def symbol_calls(e: ast.AST) -> list[ast.Call]:
        """sp.Symbol(...) calls of the expression itself (not those of a comprehension / dictionary nested in it)."""
        out, todo = [], [e]
        while todo:
            n = todo.pop(0)
            if isinstance(n, (ast.DictComp, ast.ListComp, ast.SetComp, ast.GeneratorExp, ast.Dict, ast.Lambda)):
                continue
            if isinstance(n, ast.Call) and getattr(n, "_module", None) is not None and tree.callee(n) == "sympy.Symbol":
                out.append(n)
            todo.extend(ast.iter_child_nodes(n))
        return out

    mapping_defs = []
    for d in rd.defs:
        if d.kind != "assign" or d.value is None or d.index is not None or not isinstance(d.node, (ast.Assign, ast.AnnAssign)):
            continue
        if isinstance(strip(d.value), ast.Name):
            continue  # an alias of another local: not a definition of its own
        closed = strip(inl.expr(d.value))
        if isinstance(closed, ast.DictComp) and symbol_calls(closed.value):
            mapping_defs.append((d, closed))
    if len(mapping_defs) != 1:
        check_sequential_mapping(ctx, tree, fn, rd)
        raise AnalysisError("rename_symbols: symbol mapping (dict comprehension of sp.Symbol) not found")
    mapping, comp = mapping_defs[0]
    evolves = [c for c in walk_function(fn.node) if isinstance(c, ast.Call) and rebuilds(c)]
    if not evolves:
        # the model is rebuilt by a helper that receives the mapping (`return self.__apply(symbol_mapping)`): the value the call returns
        for r in walk_function(fn.node, nested=False):
            if isinstance(r, ast.Return) and isinstance(strip(r.value), ast.Call) and tree.callee(strip(r.value), fn) in tree.funcs:
                closed = strip(inl.expr(r.value, stop={mapping.name}))
                evolves += [c for c in ast.walk(closed) if isinstance(c, ast.Call) and getattr(c, "_module", None) is not None and rebuilds(c)]
    if len(evolves) != 1:
        raise AnalysisError(f"rename_symbols: expected one attrs.evolve call (or one constructor call), found {len(evolves)}")
    ev = evolves[0]
    if any(isinstance(a, ast.Starred) for a in ev.args):
        raise AnalysisError("rename_symbols: attrs.evolve(*args) - the rebuilt fields are not spelled as keywords")
    kws = {k.arg: k.value for k in ev.keywords if k.arg}
    if rebuilds(ev) == "evolve":
        if not (ev.args and unparse(inl.expr(ev.args[0])) == "self"):
            ctx.violation("R-FIELDS", f"{fn.qual}::evolve-base", tree.loc(ev), "attrs.evolve is not applied to self")
    else:
        kws.update(dict(zip(fields, ev.args)))

    for k in [k for k in ev.keywords if k.arg is None]:
        # **{"intensity": ..., ...} / **dict(intensity=..., ...) / a local (or helper) with such a value
        packed = strip(inl.expr(k.value, stop={mapping.name}))
        if isinstance(packed, ast.Dict) and all(isinstance(x, ast.Constant) and isinstance(x.value, str) for x in packed.keys):
            kws.update({x.value: v for x, v in zip(packed.keys, packed.values)})
        elif isinstance(packed, ast.Call) and isinstance(packed.func, ast.Name) and packed.func.id == "dict" and not packed.args and all(x.arg for x in packed.keywords):
            kws.update({x.arg: x.value for x in packed.keywords})
        else:
            raise AnalysisError(f"rename_symbols: attrs.evolve(**{unparse(k.value)[:40]}) - the rebuilt fields are not spelled as keywords")
    sh = Shapes(mapping.name)
    undecided: list[str] = []
    for f, ann in fields.items():
        key = f"{fn.qual}::field {f}"
        if f in EXEMPT:
            ctx.ok("R-FIELDS", tree.loc(ev), f"HelicityModel.{f}: exempt - {EXEMPT[f]}")
            continue
        if f not in kws:
            ctx.violation("R-FIELDS", key, tree.loc(ev), f"rename_symbols does not rebuild HelicityModel.{f}: the renamed model keeps the old symbols there",
                          "intensity/amplitudes/components/parameters/kinematic variables must stay mutually consistent (C01) after renaming")
            continue
        val = inl.expr(kws[f], stop={mapping.name})
        problems, unknown = field_problems(tree, sh, f, is_mapping_annotation(ann), val)
        if unknown and not problems and isinstance(strip(val), ast.Name):
            uses_mapping = mapping in rd.closure(rd.uses(kws[f]))
            problems = residual_loop_problems(fn, rd, strip(val))
            if not uses_mapping:
                problems.append("value does not depend on the symbol mapping")
        if unknown and not problems:
            undecided += unknown
            continue
        ctx.verdict(not problems, "R-FIELDS", key, tree.loc(kws[f]), f"HelicityModel.{f} := {unparse(val)[:70]}", problems or None)
    extra = set(kws) - set(fields)
    if extra:
        ctx.violation("R-FIELDS", f"{fn.qual}::unknown-fields", tree.loc(ev), f"attrs.evolve receives unknown fields {sorted(extra)}")

    # ---- R-ASSUME / untouched symbols: the mapping {s: Symbol(renames[s.name], **s.assumptions0) if s.name in renames else s for s in universe}
    def is_renames(e: ast.AST) -> bool:
        e = strip(e)
        while isinstance(e, ast.Call) and isinstance(e.func, ast.Name) and e.func.id == "dict" and len(e.args) == 1 and not e.keywords:
            e = strip(e.args[0])
        return isinstance(e, ast.Name) and e.id == renames

    if len(comp.generators) != 1 or not isinstance(comp.generators[0].target, ast.Name):
        raise AnalysisError(f"rename_symbols: cannot interpret the iteration of the symbol mapping `{unparse(comp)[:80]}`")
    gen = comp.generators[0]
    s = gen.target

    def is_s(e: ast.AST) -> bool:
        return same(e, s)

    def is_name_of_s(e: ast.AST) -> bool:
        e = strip(e)
        return isinstance(e, ast.Attribute) and e.attr == "name" and is_s(e.value)

    value = strip(comp.value)
    renamed_branch, identity_ok = value, False
    if isinstance(value, ast.IfExp):
        test, positive = normal_test(value.test, True)
        hit, miss = (value.body, value.orelse) if positive else (value.orelse, value.body)
        in_map = isinstance(test, ast.Compare) and len(test.ops) == 1 and isinstance(test.ops[0], ast.In) and is_name_of_s(test.left) and is_renames(test.comparators[0])
        identity_ok = in_map and is_s(miss) and is_s(comp.key)
        renamed_branch = strip(hit)
    sym_calls = symbol_calls(renamed_branch)
    if not sym_calls:
        raise AnalysisError("rename_symbols: the symbol mapping creates no sp.Symbol on the renamed branch")
    c0 = sym_calls[0]
    star = [k for k in c0.keywords if k.arg is None]
    ok = (len(star) == 1 and isinstance(strip(star[0].value), ast.Attribute) and strip(star[0].value).attr == "assumptions0" and is_s(strip(star[0].value).value)
          and not [k for k in c0.keywords if k.arg not in {None, "name"}])
    ctx.verdict(ok, "R-ASSUME", f"{fn.qual}::assumptions", tree.loc(c0), f"replacement symbol: `{unparse(c0)[:70]}` carries **{s.id}.assumptions0",
                None if ok else "assumptions of the renamed symbol are dropped or overridden: the new symbol is a different object than one a user would create with the original assumptions")
    a0 = strip(c0.args[0]) if c0.args else next((strip(k.value) for k in c0.keywords if k.arg == "name"), None)
    ok = a0 is not None and (
        (isinstance(a0, ast.Subscript) and is_renames(a0.value) and is_name_of_s(a0.slice))
        or (isinstance(a0, ast.Call) and isinstance(a0.func, ast.Attribute) and a0.func.attr == "get" and is_renames(a0.func.value) and len(a0.args) == 1 and not a0.keywords and is_name_of_s(a0.args[0])))
    ctx.verdict(ok, "R-ASSUME", f"{fn.qual}::new-name", tree.loc(c0), f"the new name is {renames}[{s.id}.name]", None if ok else (unparse(a0) if a0 is not None else "no name"))
    ctx.verdict(identity_ok, "R-SIMUL", f"{fn.qual}::identity-for-others", tree.loc(comp), "symbols whose name is not in the rename map are mapped to themselves (unrelated symbols untouched)",
                None if identity_ok else unparse(comp)[:120])

    # ---- R-UNIVERSE: what the mapping ranges over
    uni = Universe(tree, leaves=set(fields))
    domain = uni.ev(gen.iter, {"self": ("self",)})
    ranges_over_collection = domain[0] == "set"
    if not ranges_over_collection:
        undecided.append(f"symbol universe: cannot interpret `{unparse(gen.iter)[:80]}`" + (f" ({'; '.join(uni.events[:3])})" if uni.events else ""))
    ctx.verdict(not gen.ifs, "R-UNIVERSE", f"{fn.qual}::mapping-over-universe", tree.loc(comp), "the symbol mapping ranges over the whole symbol universe of the model",
                None if not gen.ifs else f"the universe is filtered: `if {unparse(gen.ifs[0])[:60]}`")
    if ranges_over_collection:
        missing = [k for k, src in REQUIRED_SOURCES.items() if src not in domain[1]]
        if missing and uni.events:
            undecided.append(f"symbol universe: {missing} not found, but the analysis could not interpret everything ({'; '.join(uni.events[:3])})")
        else:
            cs = cls.methods.get("__collect_symbols")
            ctx.verdict(not missing, "R-UNIVERSE", f"{MODEL}.__collect_symbols::sources", tree.loc(cs.node if cs is not None else comp),
                        "__collect_symbols = expression.free_symbols | kinematic-variable keys | free symbols of their values | parameter keys", missing or None)

    # ---- R-PURE
    bad = []
    family = helpers_of(tree, fn)
    for g in family:
        for node in walk_function(g.node, nested=False):
            if isinstance(node, (ast.Assign, ast.AugAssign, ast.AnnAssign)):
                tgts = node.targets if isinstance(node, ast.Assign) else [node.target]
                for t in tgts:
                    if isinstance(t, (ast.Attribute, ast.Subscript)) and unparse(t).startswith("self"):
                        bad.append(node)
            if isinstance(node, ast.Call) and isinstance(node.func, ast.Attribute) and node.func.attr in MUTATORS and unparse(node.func.value).startswith("self"):
                bad.append(node)
    ctx.verdict(not bad, "R-PURE", f"{fn.qual}::no-self-mutation", tree.loc(fn.node), "rename_symbols never writes to self (the original model is unchanged)", [unparse(b)[:60] for b in bad] or None)
    copies = [d for d in rd.defs if d.name == renames and d.value is not None and isinstance(d.value, ast.Call) and isinstance(d.value.func, ast.Name) and d.value.func.id in {"dict", "OrderedDict"}
              and len(d.value.args) == 1 and isinstance(d.value.args[0], ast.Name) and d.value.args[0].id == renames]
    mut_input = [n for n in walk_function(fn.node) if isinstance(n, ast.Call) and isinstance(n.func, ast.Attribute) and n.func.attr in MUTATORS and unparse(n.func.value) == renames]
    mut_input += [n for n in walk_function(fn.node) if isinstance(n, (ast.Assign, ast.AugAssign, ast.Delete)) and any(
        isinstance(t, ast.Subscript) and isinstance(t.value, ast.Name) and t.value.id == renames for t in (n.targets if not isinstance(n, ast.AugAssign) else [n.target]))]
    ctx.verdict(bool(copies) or not mut_input, "R-PURE", f"{fn.qual}::input-copied", tree.loc(fn.node), "the caller's rename map is copied (dict(renames)) / never mutated")
    # early exit returns self for the empty map: every path that returns the model itself has established that the map is empty
    self_returns = 0
    unguarded = []
    for p in PathWalker(tree).paths(fn):
        if p.exit != "return" or p.exit_node is None or p.exit_node.value is None:
            continue
        if unparse(strip(inl.expr(p.exit_node.value))) != "self":
            continue
        for alt in atomic_tests(p.events):
            facts = {emptiness_fact(inl.expr(e[1]), e[2], is_renames) for e in alt if e[0] == "test"}
            if "empty" in facts and "nonempty" not in facts:
                self_returns += 1
            else:
                unguarded.append(" and ".join(f"{'' if e[2] else 'not '}({unparse(e[1])[:40]})" for e in alt if e[0] == "test") or "always")
    ok = self_returns >= 1 and not unguarded
    ctx.verdict(ok, "R-PURE", f"{fn.qual}::empty-map", tree.loc(fn.node), "an empty rename map returns the (frozen, immutable) model itself",
                None if ok else (f"`return self` also when {unguarded[:2]}" if unguarded else "no early return of the model itself for the empty map"))
    frozen = any(d[0] in {"attrs.frozen", "attr.frozen"} or "frozen" in unparse(d[1]) for d in cls.decorators)
    ctx.verdict(frozen, "R-PURE", f"{MODEL}::frozen", tree.loc(cls.node), "HelicityModel is an attrs-frozen class")
    if undecided:
        raise AnalysisError("; ".join(undecided))
