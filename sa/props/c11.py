"""C11 - all phase-space-factor variants agree where they must.

All R-TERM: polynomial facts about q^2 (incl. agreement with the Kallen function defined
in another module), the common skeleton of the three plain variants, the two-branch
definition of ComplexSqrt and its printers, the wiring of the two Chew-Mandelstam based
variants and the three-row case table of the analytic continuation.
"""

from __future__ import annotations

import ast
import re

from ..dataflow import RD
from ..loader import AnalysisError, Tree, unparse, walk_function
from ..poly import RF, D, equal, sqrt, sym
from ..report import Check
from ..terms import PW, Opaque, Rel, TermEval, Tup

PID = "C11"
PH = "ampform.dynamics.phasespace"
I = RF.atom("I")
PI = RF.atom("pi")


def run(ctx: Check, tree: Tree) -> None:
    ctx.decided += [
        "R-ARGORDER (shared with C14): the positional unpacking `s, m1, m2 = self.args` of every phase-space class sees the fields in declaration order however the caller spells keyword arguments",
        "q^2: 4s*q^2 is symmetric in m1<->m2, vanishes at s=(m1+-m2)^2 and equals kinematics.phasespace.Kallen(s, m1^2, m2^2) (cross-module sibling)",
        "PhaseSpaceFactor / ...Abs / ...Complex are 2*R(q^2)/sqrt(s) with R = sqrt, sqrt(Abs), ComplexSqrt and fields in order",
        "ComplexSqrt.get_definition = Piecewise((I*sqrt(-x), x<0), (sqrt(x), True)); _numpycode prints that definition; _pythoncode is the same two-branch function",
        "PhaseSpaceFactorSWave = -i*chew_mandelstam_s_wave(s,m1,m2); Chew-Mandelstam formula; EqualMassPhaseSpaceFactor = analytic continuation of PhaseSpaceFactorAbs at threshold (m1+m2)^2 with the 3-row case table s<0 / s>thr / else",
    ]
    ctx.not_decided += [
        "Re rho = 2q/sqrt(s) above threshold for the two Chew-Mandelstam based variants and their equality for equal masses (transcendental identities between log and atan forms - outside the term domain)",
        "continuity at threshold",
    ]
    ctx.assumptions += ["sqrt / Abs / log / atan semantics of SymPy and NumPy; formal algebra at a generic positive point"]
    D.reset()
    te = TermEval(tree)
    s, m1, m2 = sym("s"), sym("m1"), sym("m2")

    def C(name, *args, mod=PH):
        return te.construct(f"{mod}::{name}", list(args), {})

    def unfold1(v: RF):
        return te._rf(te.unfold_atom(te.single_atom(v)))

    # ---- (a) q^2
    q2cls = tree.cls(f"{PH}::BreakupMomentumSquared")
    where = tree.loc(q2cls.methods["evaluate"].node)
    q2 = unfold1(C("BreakupMomentumSquared", s, m1, m2))
    q2_swapped = unfold1(C("BreakupMomentumSquared", s, m2, m1))
    key = f"{q2cls.qual}.evaluate"
    ctx.verdict(equal(q2, q2_swapped), "R-TERM", key + "::symmetric", where, "q^2(s, m1, m2) == q^2(s, m2, m1)")
    for sign, label in ((1, "threshold (m1+m2)^2"), (-1, "pseudo-threshold (m1-m2)^2")):
        at = q2.substitute("s", (m1 + sign * m2) ** 2)
        ctx.verdict(at.is_zero(), "R-TERM", key + f"::zero-at-{'plus' if sign > 0 else 'minus'}", where, f"q^2 vanishes at s = {label}", None if at.is_zero() else repr(at)[:120])
    kallen = te.unfold(C("Kallen", s, m1**2, m2**2, mod="ampform.kinematics.phasespace"))
    ok = equal(q2 * 4 * s, kallen)
    ctx.verdict(ok, "R-TERM", key + "::kallen", where, "4*s*q^2 == Kallen(s, m1^2, m2^2) (definition in ampform.kinematics.phasespace)", None if ok else {"4s q2": repr(q2 * 4 * s)[:150], "kallen": repr(kallen)[:150]})
    posdef = equal(q2 * 4 * s, (s - (m1 + m2) ** 2) * (s - (m1 - m2) ** 2))
    ctx.verdict(posdef, "R-TERM", key + "::factorised", where, "4*s*q^2 == (s-(m1+m2)^2)(s-(m1-m2)^2): positive above threshold, negative between the thresholds")

    # ---- (b)/(c) the three plain variants
    Q = C("BreakupMomentumSquared", s, m1, m2)
    variants = {
        "PhaseSpaceFactor": sqrt(Q),
        "PhaseSpaceFactorAbs": sqrt(te.app("Abs", [Q])),
        "PhaseSpaceFactorComplex": te.app("ComplexSqrt", [Q]),
    }
    for name, root in variants.items():
        cls = tree.cls(f"{PH}::{name}")
        got = unfold1(C(name, s, m1, m2))
        want = 2 * root / sqrt(s)
        ok = equal(got, want)
        ctx.verdict(ok, "R-TERM", f"{cls.qual}.evaluate::skeleton", tree.loc(cls.methods["evaluate"].node),
                    f"{name}(s, m1, m2) == 2*{ {'PhaseSpaceFactor': 'sqrt', 'PhaseSpaceFactorAbs': 'sqrt(Abs(.))', 'PhaseSpaceFactorComplex': 'ComplexSqrt'}[name] }(q^2(s, m1, m2))/sqrt(s)",
                    None if ok else repr(got)[:200])

    # ---- ComplexSqrt
    ctx.section(check_complex_sqrt, ctx, tree, te)

    # ---- (d) Chew-Mandelstam based variants
    cm = tree.func(f"{PH}::chew_mandelstam_s_wave")
    got_cm = te._rf(te.eval_function(cm, [s, m1, m2]))
    q = te.app("ComplexSqrt", [Q])
    left = 2 * q / sqrt(s) * te.app("log", [(m1**2 + m2**2 - s + 2 * sqrt(s) * q) / (2 * m1 * m2)])
    right = (m1**2 - m2**2) * (RF.const(1) / s - RF.const(1) / (m1 + m2) ** 2) * te.app("log", [m1 / m2])
    want_cm = (left - right) / PI
    ok = equal(got_cm, want_cm)
    ctx.verdict(ok, "R-TERM", f"{cm.qual}::formula", tree.loc(cm.node),
                "chew_mandelstam_s_wave == (1/pi)[(2q/sqrt s) log((m1^2+m2^2-s+2 sqrt(s) q)/(2 m1 m2)) - (m1^2-m2^2)(1/s - 1/(m1+m2)^2) log(m1/m2)], q = ComplexSqrt(q^2)",
                None if ok else repr(got_cm)[:300])
    sw = tree.cls(f"{PH}::PhaseSpaceFactorSWave")
    got = unfold1(C("PhaseSpaceFactorSWave", s, m1, m2))
    ok = equal(got, -I * got_cm)
    ctx.verdict(ok, "R-TERM", f"{sw.qual}.evaluate", tree.loc(sw.methods["evaluate"].node), "PhaseSpaceFactorSWave(s, m1, m2) == -i * chew_mandelstam_s_wave(s, m1, m2)", None if ok else repr(got)[:200])

    eq = tree.cls(f"{PH}::EqualMassPhaseSpaceFactor")
    got = te.unfold_atom(te.single_atom(C("EqualMassPhaseSpaceFactor", s, m1, m2)))
    rho = C("PhaseSpaceFactorAbs", s, m1, m2)
    problems = []
    if not (isinstance(got, PW) and len(got.branches) == 3):
        problems.append("not a three-branch Piecewise")
    else:
        lg = te.app("log", [te.app("Abs", [(1 + rho) / (1 - rho)])])
        want_vals = [I * rho / PI * lg, rho + I * rho / PI * lg, 2 * I * rho / PI * te.app("atan", [1 / rho])]
        want_conds = [("<", s, RF.const(0)), (">", s, (m1 + m2) ** 2), None]
        for i, ((val, cond), wv, wc) in enumerate(zip(got.branches, want_vals, want_conds)):
            if not (isinstance(val, RF) and equal(val, wv)):
                problems.append(f"row {i}: value {val!r:.120} differs from the PDG form")
            if wc is None:
                if not (isinstance(cond, Opaque) and cond.key is True):
                    problems.append(f"row {i}: condition is not `True`")
            else:
                op, lhs, rhs = wc
                ok_c = isinstance(cond, Rel) and (
                    (cond.op == op and equal(te._rf(cond.lhs), lhs) and equal(te._rf(cond.rhs), rhs))
                    or (cond.op == {"<": ">", ">": "<"}[op] and equal(te._rf(cond.lhs), rhs) and equal(te._rf(cond.rhs), lhs))
                )
                if not ok_c:
                    problems.append(f"row {i}: condition is not `s {op} {'0' if i == 0 else '(m1+m2)^2'}`")
    ctx.verdict(not problems, "R-TABLE", f"{eq.qual}.evaluate::case-table", tree.loc(eq.methods["evaluate"].node),
                "EqualMassPhaseSpaceFactor: rows (s<0: i rho^/pi log|..|), (s>(m1+m2)^2: rho^ + i rho^/pi log|..|), (else: 2i rho^/pi atan(1/rho^)) with rho^ = PhaseSpaceFactorAbs(s, m1, m2)",
                problems or None)
    from .c14 import check_arg_order

    ctx.section(check_arg_order, ctx, tree)


def check_complex_sqrt(ctx: Check, tree: Tree, te: TermEval) -> None:
    cls = tree.cls("ampform.sympy.math::ComplexSqrt")
    gd = cls.methods.get("get_definition")
    if gd is None:
        raise AnalysisError("vanished anchor: ComplexSqrt.get_definition")
    x = sym("x")
    pw = te.eval_body(gd.node.body, {"self": {"args": Tup([x])}}, gd)
    problems = []
    if not (isinstance(pw, PW) and len(pw.branches) == 2):
        problems.append("not a two-branch Piecewise")
    else:
        (v1, c1), (v2, c2) = pw.branches
        if not (isinstance(v1, RF) and equal(v1, I * sqrt(-x))):
            problems.append(f"negative branch is {v1!r}, not I*sqrt(-x)")
        if not (isinstance(c1, Rel) and ((c1.op == "<" and equal(te._rf(c1.lhs), x) and te._rf(c1.rhs).is_zero()) or (c1.op == ">" and equal(te._rf(c1.rhs), x) and te._rf(c1.lhs).is_zero()))):
            problems.append("first condition is not the strict `x < 0`")
        if not (isinstance(v2, RF) and equal(v2, sqrt(x))):
            problems.append(f"other branch is {v2!r}, not sqrt(x)")
        if not (isinstance(c2, Opaque) and c2.key is True):
            problems.append("second condition is not `True`")
    ctx.verdict(not problems, "R-TERM", f"{cls.qual}.get_definition", tree.loc(gd.node), "ComplexSqrt(x) := Piecewise((I*sqrt(-x), x < 0), (sqrt(x), True))", problems or None)
    # _numpycode prints exactly that definition
    npc = cls.methods.get("_numpycode")
    helper_calls = [c for c in walk_function(npc.node) if isinstance(c, ast.Call) and isinstance(c.func, ast.Attribute) and isinstance(c.func.value, ast.Name) and c.func.value.id == "self"]
    ok = False
    for c in helper_calls:
        h = tree.lookup_method(cls, c.func.attr)
        if h is None:
            continue
        rd = RD(h.node)
        for ret, _ in rd.returns:
            if isinstance(ret.value, ast.Call) and isinstance(ret.value.func, ast.Attribute) and ret.value.func.attr == "_print":
                arg = ret.value.args[0]
                txt = unparse(arg) + "".join(unparse(d.value) for d in rd.closure(rd.uses(arg)) if d.value is not None)
                ok = "self.get_definition()" in txt
    direct = any("self.get_definition()" in unparse(n) for n in walk_function(npc.node))
    # ... on EVERY path: a branch that prints something else for one printer (e.g. numpy.lib.scimath.sqrt, whose
    # result dtype depends on the data: float64 if no input is negative) is a second definition
    other = []
    for r in [r for r in walk_function(npc.node, nested=False) if isinstance(r, ast.Return) and r.value is not None]:
        v = r.value
        via_helper = isinstance(v, ast.Call) and isinstance(v.func, ast.Attribute) and isinstance(v.func.value, ast.Name) and v.func.value.id == "self"
        via_print = isinstance(v, ast.Call) and isinstance(v.func, ast.Attribute) and v.func.attr == "_print" and "get_definition()" in unparse(v)
        if not (via_helper or via_print):
            other.append(unparse(r)[:70])
    if other:
        ctx.violation("R-ONEDEF", f"{cls.qual}._numpycode::second-definition", tree.loc(npc.node),
                      f"ComplexSqrt._numpycode has a path that does not print get_definition(): {other}",
                      "e.g. numpy.lib.scimath.sqrt returns float64 unless some input is negative; code that relies on the complex result (log of a negative number in chew_mandelstam_s_wave) then yields NaN above threshold")
    ctx.verdict(ok or direct, "R-ONEDEF", f"{cls.qual}._numpycode::prints-definition", tree.loc(npc.node), "ComplexSqrt._numpycode prints self.get_definition() (one definition for symbolic and numerical form)")
    # _pythoncode: the same two-branch function
    pyc = cls.methods.get("_pythoncode")
    ret = next((r for r in walk_function(pyc.node) if isinstance(r, ast.Return)), None)
    parts = []
    if ret is not None and isinstance(ret.value, ast.JoinedStr):
        for v in ret.value.values:
            parts.append(str(v.value) if isinstance(v, ast.Constant) else "X")
    text = "".join(parts).replace(" ", "")
    m = re.fullmatch(r"\(*1j\*sqrt\(-\(?X\)?\)+ifisinstance\(X,\((?:float,int|int,float)\)\)and\(X<0\)else\(*csqrt\(X\)\)*", text)
    imports = [unparse(n) for n in walk_function(pyc.node) if isinstance(n, ast.Call) and "module_imports" in unparse(n)]
    ok = bool(m) and any("sqrt as csqrt" in i and "cmath" in i for i in imports)
    ctx.verdict(ok, "R-TERM", f"{cls.qual}._pythoncode::two-branch", tree.loc(pyc.node),
                "ComplexSqrt._pythoncode: (1j*sqrt(-x)) if real and x < 0 else cmath.sqrt(x) - the same two rows as get_definition", None if ok else text[:160])
    lam = [st for st in tree.module("ampform.sympy.math").tree.body if isinstance(st, ast.Assign) and "builtin_functions_different" in unparse(st)]
    ctx.info("R-TERM", tree.loc(lam[0]) if lam else "src/ampform/sympy/math.py", "experimental Lambdifier maps ComplexSqrt -> sqrt (plotting backend only)")
