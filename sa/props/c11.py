"""C11 - all phase-space-factor variants agree where they must.

All R-TERM: polynomial facts about q^2 (incl. agreement with the Kallen function defined
in another module), the common skeleton of the three plain variants, the two-branch
definition of ComplexSqrt and its printers, the wiring of the two Chew-Mandelstam based
variants and the three-row case table of the analytic continuation.

Formulas are compared in a normal form in which every application of a repo expression class is
replaced by what its evaluate() builds (`_normal`), so it does not matter in which class / helper /
inline a formula is written.  The printers of ComplexSqrt are RUN on an abstract printer (c08.CodeEval)
and the generated code is parsed.  Verdicts are three-valued: a term with a sub-term outside the term
domain (an opaque call, an attribute of an unknown object), a Piecewise of another shape, a printer the
evaluator cannot run are ANALYSIS-ERRORs with the reason - never violations.
"""

from __future__ import annotations

import ast
import re

from ..dataflow import RD
from ..loader import AnalysisError, Tree, unparse, walk_function
from ..poly import RF, D, equal, sqrt, sym
from ..report import Check
from ..terms import PW, Opaque, Rel, TermEval, Tup

PID = "C11"
PH = "ampform.dynamics.phasespace"
I = RF.atom("I")
PI = RF.atom("pi")


def run(ctx: Check, tree: Tree) -> None:
    ctx.decided += [
        "R-ARGORDER (shared with C14): the positional unpacking `s, m1, m2 = self.args` of every phase-space class sees the fields in declaration order however the caller spells keyword arguments",
        "q^2: 4s*q^2 is symmetric in m1<->m2, vanishes at s=(m1+-m2)^2 and equals kinematics.phasespace.Kallen(s, m1^2, m2^2) (cross-module sibling)",
        "PhaseSpaceFactor / ...Abs / ...Complex are 2*R(q^2)/sqrt(s) with R = sqrt, sqrt(Abs), ComplexSqrt and fields in order",
        "ComplexSqrt.get_definition = Piecewise((I*sqrt(-x), x<0), (sqrt(x), True)); _numpycode prints that definition; _pythoncode is the same two-branch function",
        "PhaseSpaceFactorSWave = -i*chew_mandelstam_s_wave(s,m1,m2); Chew-Mandelstam formula; EqualMassPhaseSpaceFactor = analytic continuation of PhaseSpaceFactorAbs at threshold (m1+m2)^2 with the 3-row case table s<0 / s>thr / else",
    ]
    ctx.not_decided += [
        "Re rho = 2q/sqrt(s) above threshold for the two Chew-Mandelstam based variants and their equality for equal masses (transcendental identities between log and atan forms - outside the term domain)",
        "continuity at threshold",
    ]
    ctx.assumptions += ["sqrt / Abs / log / atan semantics of SymPy and NumPy; formal algebra at a generic positive point"]
    D.reset()
    te = TermEval(tree)
    ctx.section(check_breakup_momentum, ctx, tree, te)
    ctx.section(check_plain_variants, ctx, tree, te)
    ctx.section(check_complex_sqrt, ctx, tree, te)
    ctx.section(check_chew_mandelstam, ctx, tree, te)
    ctx.section(check_equal_mass, ctx, tree, te)
    from .c14 import check_arg_order

    ctx.section(check_arg_order, ctx, tree)


S, M1, M2 = sym("s"), sym("m1"), sym("m2")


def _construct(te: TermEval, name: str, *args, mod: str = PH) -> RF:
    q = f"{mod}::{name}"
    if q not in te.classes:
        raise AnalysisError(f"vanished anchor: expression class {q}")
    return te.construct(q, list(args), {})


def _evaluate_of(tree: Tree, cls):
    """The evaluate() an instance of the class runs (its own or inherited from a repo base class)."""
    m = tree.lookup_method(cls, "evaluate")
    if m is None:
        raise AnalysisError(f"vanished anchor: {cls.qual}.evaluate")
    return m


def _unfold1(te: TermEval, v: RF):
    return te._rf(te.unfold_atom(te.single_atom(v)))


def _normal(te: TermEval, v: RF, depth: int = 0) -> RF:
    """The term with every application of a repo expression class replaced by what its ``evaluate()`` builds -
    also inside square roots and inside the arguments of elementary functions (``sqrt(Abs(q2(s, m1, m2)))``).
    Two spellings that differ only in WHERE a formula is written (its own class, a helper, inline) get the same
    normal form; a different formula does not."""
    from ..terms import vkey

    if depth > 12:
        raise AnalysisError("unfolding of nested expression classes does not terminate")
    for _ in range(12):
        changed = False
        for a in list(v.atoms()):
            if isinstance(a, tuple) and a and a[0] == "sqrt":
                rad = RF(D.radicands[a])
                new = _normal(te, rad, depth + 1)
                if vkey(new) != vkey(rad):
                    v = v.substitute(a, sqrt(new))
                    changed = True
            elif te.is_app(a) and a in te.apps:
                info = te.apps[a]
                if info.cls in te.classes:
                    if te.classes[info.cls].method("evaluate") is None:
                        continue
                    v = v.substitute(a, _normal(te, te._rf(te.unfold_atom(a)), depth + 1))
                    changed = True
                else:
                    args = [_normal(te, x, depth + 1) if isinstance(x, RF) else x for x in info.args]
                    new_atom = _canonical_app(te, info.cls, args, info.kwargs)
                    if te.single_atom(new_atom) != a:
                        v = v.substitute(a, new_atom)
                        changed = True
        if not changed:
            return v
    raise AnalysisError("unfolding of nested expression classes does not reach a fixed point")


def _canonical_app(te: TermEval, cls: str, args: list, kwargs: dict) -> RF:
    """The application ``cls(*args)`` - THE SAME atom for arguments that are equal as rational functions even if
    they were built differently (an unreduced fraction after a substitution vs the directly computed one)."""
    from ..terms import vkey

    registry = te.__dict__.setdefault("_canonical_apps", {})
    for known_args, atom in registry.get(cls, []):
        if len(known_args) == len(args) and all(
            (isinstance(x, RF) and isinstance(y, RF) and equal(x, y)) or (not isinstance(x, RF) and not isinstance(y, RF) and vkey(x) == vkey(y))
            for x, y in zip(known_args, args)
        ):
            return atom
    atom = te.app(cls, args, kwargs)
    registry.setdefault(cls, []).append((args, atom))
    return atom


def _same(te: TermEval, a: RF, b: RF) -> bool:
    return equal(a, b) or equal(_normal(te, a), _normal(te, b))


def _foreign_atoms(te: TermEval, v, allowed_apps: set[str] = frozenset()) -> list[str]:
    """Sub-terms that are not part of the term domain the comparisons below are decided in: symbols, square
    roots, applications of repo expression classes / of the named elementary functions.  An opaque call
    (a callable the evaluator could not follow), an attribute or an item of an unknown object is foreign: a
    comparison that involves one proves nothing, neither equality nor difference."""
    from ..terms import deep_atoms

    out = []
    for a in deep_atoms(te, v):
        if isinstance(a, str):
            continue
        if isinstance(a, tuple) and a and a[0] == "sqrt":
            continue
        if te.is_app(a) and a in te.apps:
            cls = te.apps[a].cls
            if cls in te.classes or cls in allowed_apps:
                continue
        out.append(repr(a)[:70])
    return out


def _require_understood(te: TermEval, v, what: str, allowed_apps: set[str] = frozenset()) -> None:
    foreign = _foreign_atoms(te, v, allowed_apps)
    if foreign:
        raise AnalysisError(f"{what}: the extracted term contains a sub-term outside the term domain ({foreign[0]}): cannot decide")


def check_breakup_momentum(ctx: Check, tree: Tree, te: TermEval) -> None:
    s, m1, m2 = S, M1, M2
    # ---- (a) q^2
    q2cls = tree.cls(f"{PH}::BreakupMomentumSquared")
    where = tree.loc(_evaluate_of(tree, q2cls).node)
    q2 = _normal(te, _unfold1(te, _construct(te, "BreakupMomentumSquared", s, m1, m2)))
    q2_swapped = _normal(te, _unfold1(te, _construct(te, "BreakupMomentumSquared", s, m2, m1)))
    if q2.atoms() - {"s", "m1", "m2"}:
        raise AnalysisError(f"BreakupMomentumSquared.evaluate is not a rational function of s, m1, m2 (contains {sorted(map(repr, q2.atoms() - {'s', 'm1', 'm2'}))[0][:60]}): cannot decide the polynomial facts about q^2")
    key = f"{q2cls.qual}.evaluate"
    ctx.verdict(equal(q2, q2_swapped), "R-TERM", key + "::symmetric", where, "q^2(s, m1, m2) == q^2(s, m2, m1)")
    for sign, label in ((1, "threshold (m1+m2)^2"), (-1, "pseudo-threshold (m1-m2)^2")):
        at = q2.substitute("s", (m1 + sign * m2) ** 2)
        ctx.verdict(at.is_zero(), "R-TERM", key + f"::zero-at-{'plus' if sign > 0 else 'minus'}", where, f"q^2 vanishes at s = {label}", None if at.is_zero() else repr(at)[:120])
    kallen = te.unfold(_construct(te, "Kallen", s, m1**2, m2**2, mod="ampform.kinematics.phasespace"))
    if kallen.atoms() - {"s", "m1", "m2"}:
        raise AnalysisError("kinematics.phasespace.Kallen.evaluate is not a polynomial in its arguments: cannot decide the cross-module comparison")
    ok = equal(q2 * 4 * s, kallen)
    ctx.verdict(ok, "R-TERM", key + "::kallen", where, "4*s*q^2 == Kallen(s, m1^2, m2^2) (definition in ampform.kinematics.phasespace)", None if ok else {"4s q2": repr(q2 * 4 * s)[:150], "kallen": repr(kallen)[:150]})
    posdef = equal(q2 * 4 * s, (s - (m1 + m2) ** 2) * (s - (m1 - m2) ** 2))
    ctx.verdict(posdef, "R-TERM", key + "::factorised", where, "4*s*q^2 == (s-(m1+m2)^2)(s-(m1-m2)^2): positive above threshold, negative between the thresholds")


def check_plain_variants(ctx: Check, tree: Tree, te: TermEval) -> None:
    s, m1, m2 = S, M1, M2
    # ---- (b)/(c) the three plain variants
    Q = _construct(te, "BreakupMomentumSquared", s, m1, m2)
    variants = {
        "PhaseSpaceFactor": sqrt(Q),
        "PhaseSpaceFactorAbs": sqrt(te.app("Abs", [Q])),
        "PhaseSpaceFactorComplex": te.app("ComplexSqrt", [Q]),
    }
    for name, root in variants.items():
        cls = tree.cls(f"{PH}::{name}")
        where = tree.loc(_evaluate_of(tree, cls).node)
        got = _unfold1(te, _construct(te, name, s, m1, m2))
        _require_understood(te, got, f"{name}.evaluate", {"Abs", "ComplexSqrt"})
        want = 2 * root / sqrt(s)
        ok = _same(te, got, want)
        ctx.verdict(ok, "R-TERM", f"{cls.qual}.evaluate::skeleton", where,
                    f"{name}(s, m1, m2) == 2*{ {'PhaseSpaceFactor': 'sqrt', 'PhaseSpaceFactorAbs': 'sqrt(Abs(.))', 'PhaseSpaceFactorComplex': 'ComplexSqrt'}[name] }(q^2(s, m1, m2))/sqrt(s)",
                    None if ok else repr(got)[:200])


def _chew_mandelstam_term(te: TermEval, tree: Tree):
    s, m1, m2 = S, M1, M2
    cm = tree.func(f"{PH}::chew_mandelstam_s_wave")
    got_cm = te._rf(te.eval_function(cm, [s, m1, m2]))
    return cm, got_cm


def check_chew_mandelstam(ctx: Check, tree: Tree, te: TermEval) -> None:
    s, m1, m2 = S, M1, M2
    # ---- (d) Chew-Mandelstam based variants
    Q = _construct(te, "BreakupMomentumSquared", s, m1, m2)
    cm, got_cm = _chew_mandelstam_term(te, tree)
    _require_understood(te, got_cm, "chew_mandelstam_s_wave", {"log", "ComplexSqrt"})
    q = te.app("ComplexSqrt", [Q])
    left = 2 * q / sqrt(s) * te.app("log", [(m1**2 + m2**2 - s + 2 * sqrt(s) * q) / (2 * m1 * m2)])
    right = (m1**2 - m2**2) * (RF.const(1) / s - RF.const(1) / (m1 + m2) ** 2) * te.app("log", [m1 / m2])
    want_cm = (left - right) / PI
    ok = _same(te, got_cm, want_cm)
    ctx.verdict(ok, "R-TERM", f"{cm.qual}::formula", tree.loc(cm.node),
                "chew_mandelstam_s_wave == (1/pi)[(2q/sqrt s) log((m1^2+m2^2-s+2 sqrt(s) q)/(2 m1 m2)) - (m1^2-m2^2)(1/s - 1/(m1+m2)^2) log(m1/m2)], q = ComplexSqrt(q^2)",
                None if ok else repr(got_cm)[:300])
    sw = tree.cls(f"{PH}::PhaseSpaceFactorSWave")
    sw_where = tree.loc(_evaluate_of(tree, sw).node)
    got = _unfold1(te, _construct(te, "PhaseSpaceFactorSWave", s, m1, m2))
    _require_understood(te, got, "PhaseSpaceFactorSWave.evaluate", {"log", "ComplexSqrt"})
    ok = _same(te, got, -I * got_cm)
    ctx.verdict(ok, "R-TERM", f"{sw.qual}.evaluate", sw_where, "PhaseSpaceFactorSWave(s, m1, m2) == -i * chew_mandelstam_s_wave(s, m1, m2)", None if ok else repr(got)[:200])


def check_equal_mass(ctx: Check, tree: Tree, te: TermEval) -> None:
    s, m1, m2 = S, M1, M2
    eq = tree.cls(f"{PH}::EqualMassPhaseSpaceFactor")
    eq_where = tree.loc(_evaluate_of(tree, eq).node)
    got = te.unfold_atom(te.single_atom(_construct(te, "EqualMassPhaseSpaceFactor", s, m1, m2)))
    rho = _construct(te, "PhaseSpaceFactorAbs", s, m1, m2)
    if not isinstance(got, PW):
        raise AnalysisError("EqualMassPhaseSpaceFactor.evaluate does not evaluate to a Piecewise (shape outside the rule's grammar)")
    if len(got.branches) != 3:
        raise AnalysisError(f"EqualMassPhaseSpaceFactor.evaluate is a Piecewise with {len(got.branches)} rows: the rule only compares the three-row case table (cannot decide)")
    problems = []
    lg = te.app("log", [te.app("Abs", [(1 + rho) / (1 - rho)])])
    want_vals = [I * rho / PI * lg, rho + I * rho / PI * lg, 2 * I * rho / PI * te.app("atan", [1 / rho])]
    want_conds = [("<", s, RF.const(0)), (">", s, (m1 + m2) ** 2), None]
    labels = ["s < 0", "s > (m1+m2)^2", "True"]

    def cond_is(cond, wc) -> bool:
        if wc is None:
            return isinstance(cond, Opaque) and cond.key is True
        op, lhs, rhs = wc
        return isinstance(cond, Rel) and (
            (cond.op == op and equal(te._rf(cond.lhs), lhs) and equal(te._rf(cond.rhs), rhs))
            or (cond.op == {"<": ">", ">": "<"}[op] and equal(te._rf(cond.lhs), rhs) and equal(te._rf(cond.rhs), lhs))
        )

    for val, cond in got.branches:
        if not isinstance(val, RF):
            raise AnalysisError("EqualMassPhaseSpaceFactor.evaluate: a row value is not a scalar term")
        _require_understood(te, val, "EqualMassPhaseSpaceFactor.evaluate", {"log", "atan", "Abs"})
        if not ((isinstance(cond, Opaque) and cond.key is True) or (isinstance(cond, Rel) and cond.op in {"<", "<=", ">", ">=", "==", "!="})):
            raise AnalysisError(f"EqualMassPhaseSpaceFactor.evaluate: row condition {cond!r:.60} is not a relation (shape outside the rule's grammar)")
        if isinstance(cond, Rel):
            _require_understood(te, te._rf(cond.lhs) - te._rf(cond.rhs), "EqualMassPhaseSpaceFactor.evaluate (row condition)")
    if not (isinstance(got.branches[-1][1], Opaque) and got.branches[-1][1].key is True):
        problems.append("row 2: condition is not `True`")
    # the first two rows are disjoint regions: their order in the table does not matter
    rows = list(got.branches)
    order = [0, 1, 2]
    if cond_is(rows[0][1], want_conds[1]) and cond_is(rows[1][1], want_conds[0]):
        order = [1, 0, 2]
    for i, j in enumerate(order):
        val, cond = rows[j]
        if not _same(te, val, want_vals[i]):
            problems.append(f"row {j}: value {val!r:.120} differs from the PDG form for {labels[i]}")
        if i < 2 and not cond_is(cond, want_conds[i]):
            problems.append(f"row {j}: condition is not `s {want_conds[i][0]} {'0' if i == 0 else '(m1+m2)^2'}`")
    ctx.verdict(not problems, "R-TABLE", f"{eq.qual}.evaluate::case-table", eq_where,
                "EqualMassPhaseSpaceFactor: rows (s<0: i rho^/pi log|..|), (s>(m1+m2)^2: rho^ + i rho^/pi log|..|), (else: 2i rho^/pi atan(1/rho^)) with rho^ = PhaseSpaceFactorAbs(s, m1, m2)",
                problems or None)


def _definition_problems(te: TermEval, pw, x: RF) -> list[str]:
    """Compare a two-row Piecewise with ComplexSqrt's definition (either order of the rows)."""
    (v1, c1), (v2, c2) = pw.branches
    if not (isinstance(c2, Opaque) and c2.key is True):
        raise AnalysisError("ComplexSqrt.get_definition: the last row of the Piecewise is not the `True` row (shape outside the rule's grammar)")
    if not isinstance(c1, Rel) or c1.op not in {"<", "<=", ">", ">="}:
        raise AnalysisError("ComplexSqrt.get_definition: the first condition is not an order relation (shape outside the rule's grammar)")
    lhs, rhs = te._rf(c1.lhs), te._rf(c1.rhs)
    if equal(lhs, x) and rhs.is_zero():
        op = c1.op
    elif equal(rhs, x) and lhs.is_zero():
        op = {"<": ">", "<=": ">=", ">": "<", ">=": "<="}[c1.op]
    else:
        raise AnalysisError("ComplexSqrt.get_definition: the first condition does not compare the argument with 0 (shape outside the rule's grammar)")
    if not (isinstance(v1, RF) and isinstance(v2, RF)):
        raise AnalysisError("ComplexSqrt.get_definition: a row value is not a scalar term")
    problems = []
    # rows as (value on x < 0, value elsewhere); `x >= 0` first is the same table written the other way round
    if op in {"<", "<="}:
        negative, other = v1, v2
        if op == "<=":
            problems.append("first condition is not the strict `x < 0`")
    else:
        negative, other = v2, v1
        if op == ">":
            problems.append("first condition `x > 0` sends x == 0 to the imaginary row (the definition uses the strict `x < 0`)")
    if not equal(negative, I * sqrt(-x)):
        problems.append(f"negative branch is {negative!r}, not I*sqrt(-x)")
    if not equal(other, sqrt(x)):
        problems.append(f"other branch is {other!r}, not sqrt(x)")
    return problems


def _py_term(te, node: ast.AST, what: str) -> RF:
    """A scalar expression of generated Python code over printed values, ``1j``, ``sqrt`` and ``csqrt``."""
    from .c08 import _callee_name, _token_index

    k = _token_index(node)
    if k is not None:
        return te._rf(te.tokens[k])
    if isinstance(node, ast.Constant) and isinstance(node.value, complex) and node.value.real == 0 and node.value.imag == int(node.value.imag):
        return I * int(node.value.imag)
    if isinstance(node, ast.Constant) and isinstance(node.value, int) and not isinstance(node.value, bool):
        return RF.const(node.value)
    if isinstance(node, ast.UnaryOp) and isinstance(node.op, (ast.USub, ast.UAdd)):
        v = _py_term(te, node.operand, what)
        return -v if isinstance(node.op, ast.USub) else v
    if isinstance(node, ast.BinOp) and isinstance(node.op, (ast.Add, ast.Sub, ast.Mult, ast.Div)):
        a, b = _py_term(te, node.left, what), _py_term(te, node.right, what)
        return {ast.Add: lambda: a + b, ast.Sub: lambda: a - b, ast.Mult: lambda: a * b, ast.Div: lambda: a / b}[type(node.op)]()
    if isinstance(node, ast.Call) and len(node.args) == 1 and not node.keywords and _callee_name(node) == "sqrt" and isinstance(node.func, ast.Name):
        return sqrt(_py_term(te, node.args[0], what))
    raise AnalysisError(f"{what}: `{unparse(node)[:50]}` is outside the rule's grammar")


def check_complex_sqrt(ctx: Check, tree: Tree, te: TermEval) -> None:
    from .c08 import CodeEval, _token_index, parse_code
    from ..terms import ExtractionError, vkey

    cls = tree.cls("ampform.sympy.math::ComplexSqrt")
    gd = tree.lookup_method(cls, "get_definition")
    if gd is None:
        raise AnalysisError("vanished anchor: ComplexSqrt.get_definition")
    x = sym("x")
    struct = {"args": Tup([x])}
    pw = te.eval_body(gd.node.body, {"self": struct}, gd)
    if not isinstance(pw, PW):
        raise AnalysisError("ComplexSqrt.get_definition does not evaluate to a Piecewise (shape outside the rule's grammar)")
    if len(pw.branches) != 2:
        raise AnalysisError(f"ComplexSqrt.get_definition is a Piecewise with {len(pw.branches)} rows: the rule only compares two-row tables (cannot decide)")
    problems = _definition_problems(te, pw, x)
    ctx.verdict(not problems, "R-TERM", f"{cls.qual}.get_definition", tree.loc(gd.node), "ComplexSqrt(x) := Piecewise((I*sqrt(-x), x < 0), (sqrt(x), True))", problems or None)

    # _numpycode prints exactly that definition - on EVERY path: a branch that prints something else for one printer
    # (e.g. numpy.lib.scimath.sqrt, whose result dtype depends on the data: float64 if no input is negative) is a
    # second definition.  The method is RUN on the abstract printer (helpers, locals, early returns followed); each
    # path must return the code of ONE printed value, and that value must be get_definition().
    npc = tree.lookup_method(cls, "_numpycode")
    if npc is None:
        raise AnalysisError("vanished anchor: ComplexSqrt._numpycode")
    ce = CodeEval(tree)
    ce.fork = True
    out = ce.eval_body_of_printer(npc, {"args": Tup([x])})
    paths = [v for v, _ in out.branches] if isinstance(out, PW) else [out]
    want_key = vkey(pw)
    prints, other = 0, []
    for val in paths:
        if not (isinstance(val, Opaque) and isinstance(val.key, str)):
            raise AnalysisError("ComplexSqrt._numpycode: a path does not return a string built from literals and printed values")
        expr = parse_code(val.key, npc.qual)
        k = _token_index(expr)
        try:
            same = k is not None and vkey(ce.tokens[k]) == want_key
        except ExtractionError:
            same = False
        if same:
            prints += 1
        else:
            shown = re.sub("\x00\\d+\x00", "{..}", val.key)[:70]
            other.append(shown if k is None else f"prints {ce.tokens[k]!r:.70}")
    if prints and other:
        ctx.violation("R-ONEDEF", f"{cls.qual}._numpycode::second-definition", tree.loc(npc.node),
                      f"ComplexSqrt._numpycode has a path that does not print get_definition(): {other}",
                      "e.g. numpy.lib.scimath.sqrt returns float64 unless some input is negative; code that relies on the complex result (log of a negative number in chew_mandelstam_s_wave) then yields NaN above threshold")
    ctx.verdict(prints > 0, "R-ONEDEF", f"{cls.qual}._numpycode::prints-definition", tree.loc(npc.node),
                "ComplexSqrt._numpycode prints self.get_definition() (one definition for symbolic and numerical form)", other or None)

    # _pythoncode: the same two-row function, read from the code it generates
    pyc = tree.lookup_method(cls, "_pythoncode")
    if pyc is None:
        raise AnalysisError("vanished anchor: ComplexSqrt._pythoncode")
    ce = CodeEval(tree)
    text = ce.run_printer(pyc, {"args": Tup([x])})
    expr = parse_code(text, pyc.qual)
    what = "ComplexSqrt._pythoncode"
    if not isinstance(expr, ast.IfExp):
        raise AnalysisError(f"{what}: the generated code is not a conditional expression (shape outside the rule's grammar)")
    test, on_true, on_false = expr.test, expr.body, expr.orelse
    if isinstance(test, ast.UnaryOp) and isinstance(test.op, ast.Not):
        test, on_true, on_false = test.operand, on_false, on_true
    problems = []
    # the test: real number AND negative, in this order (a complex x cannot be compared with 0)
    if not (isinstance(test, ast.BoolOp) and isinstance(test.op, ast.And) and len(test.values) == 2):
        raise AnalysisError(f"{what}: the test `{unparse(test)[:60]}` is not `isinstance(x, (float, int)) and x < 0` (shape outside the rule's grammar)")
    is_real, is_negative = test.values
    if not (isinstance(is_real, ast.Call) and isinstance(is_real.func, ast.Name) and is_real.func.id == "isinstance" and len(is_real.args) == 2
            and _token_index(is_real.args[0]) is not None and isinstance(is_real.args[1], (ast.Tuple, ast.Name))):
        raise AnalysisError(f"{what}: the first conjunct `{unparse(is_real)[:50]}` is not an isinstance test of the printed argument")
    kinds = {e.id for e in (is_real.args[1].elts if isinstance(is_real.args[1], ast.Tuple) else [is_real.args[1]]) if isinstance(e, ast.Name)}
    if kinds != {"float", "int"}:
        problems.append(f"the imaginary row is taken for instances of {sorted(kinds)}, not exactly (float, int)")
    if not (isinstance(is_negative, ast.Compare) and len(is_negative.ops) == 1):
        raise AnalysisError(f"{what}: the second conjunct `{unparse(is_negative)[:50]}` is not a comparison")
    lhs, op, rhs = is_negative.left, type(is_negative.ops[0]), is_negative.comparators[0]
    if _token_index(rhs) is not None and isinstance(lhs, ast.Constant):
        lhs, rhs, op = rhs, lhs, {ast.Lt: ast.Gt, ast.Gt: ast.Lt, ast.LtE: ast.GtE, ast.GtE: ast.LtE}.get(op, op)
    if not (_token_index(lhs) is not None and isinstance(rhs, ast.Constant) and rhs.value == 0 and op in {ast.Lt, ast.LtE, ast.Gt, ast.GtE}):
        raise AnalysisError(f"{what}: the second conjunct `{unparse(is_negative)[:50]}` does not compare the printed argument with 0")
    if op is not ast.Lt:
        problems.append("the imaginary row is not taken for exactly `x < 0`")
    xs = {vkey(ce.tokens[_token_index(n)]) for n in ast.walk(expr) if _token_index(n) is not None}
    if xs != {vkey(x)}:
        problems.append("a printed value other than the argument occurs in the code")
    if not equal(_py_term(ce, on_true, what), I * sqrt(-x)):
        problems.append("the row for negative real x is not 1j*sqrt(-x)")
    from .c08 import _callee_name

    if not (isinstance(on_false, ast.Call) and len(on_false.args) == 1 and not on_false.keywords and _token_index(on_false.args[0]) is not None and isinstance(on_false.func, ast.Name)):
        raise AnalysisError(f"{what}: the other row `{unparse(on_false)[:50]}` is not one function of the printed argument (shape outside the rule's grammar)")
    root = on_false.func.id
    registrations = [c for c in ast.walk(pyc.node) if isinstance(c, ast.Call) and any(isinstance(n, ast.Attribute) and n.attr == "module_imports" for n in ast.walk(c.func))]
    for call, callee in tree.calls_in(pyc):
        if callee in tree.funcs:
            registrations += [c for c in ast.walk(tree.funcs[callee].node) if isinstance(c, ast.Call) and any(isinstance(n, ast.Attribute) and n.attr == "module_imports" for n in ast.walk(c.func))]
    if not registrations:
        raise AnalysisError(f"{what}: no registration in printer.module_imports found (cannot tell where `{root}` comes from)")

    def strings(c):
        return {n.value for n in ast.walk(c) if isinstance(n, ast.Constant) and isinstance(n.value, str)}

    if not any("cmath" in strings(c) and (f"sqrt as {root}" in strings(c) or (root == "sqrt" and "sqrt" in strings(c))) for c in registrations):
        problems.append(f"`{root}` is not registered as cmath.sqrt in printer.module_imports")
    ok = not problems
    ctx.verdict(ok, "R-TERM", f"{cls.qual}._pythoncode::two-branch", tree.loc(pyc.node),
                "ComplexSqrt._pythoncode: (1j*sqrt(-x)) if real and x < 0 else cmath.sqrt(x) - the same two rows as get_definition", None if ok else {"problems": problems, "code": re.sub("\x00\\d+\x00", "X", text)[:160]})
    lam = [st for st in tree.module("ampform.sympy.math").tree.body if isinstance(st, ast.Assign) and "builtin_functions_different" in unparse(st)]
    ctx.info("R-TERM", tree.loc(lam[0]) if lam else "src/ampform/sympy/math.py", "experimental Lambdifier maps ComplexSqrt -> sqrt (plotting backend only)")
