"""Per-property manifest texts (what is claimed, trusted base, technique)."""

COMMON_NOTE = (
    " Trusted base: CPython's ast module, the rule tables frozen in the checker (each entry with its reason),"
    " semantics of the external APIs named in the assumptions of the evidence file (sympy, dataclasses, pickle, os)."
    " Numerical behaviour is NOT decided."
)

META: dict[str, dict[str, str]] = {}

NOT_APPLICABLE: dict[str, str] = {}
