"""Per-property manifest texts (what is claimed, trusted base, technique)."""

COMMON_NOTE = (
    " Trusted base: CPython's ast module, the rule tables frozen in the checker (each entry with its reason),"
    " semantics of the external APIs named in the assumptions of the evidence file (sympy, dataclasses, pickle, os)."
    " Numerical behaviour is NOT decided."
)

META: dict[str, dict[str, str]] = {
    "C01": {
        "level": "Decides the structural clauses: (a) the amplitude table handed to HelicityModel receives keys derived from the intensity's summation domain (inter-procedural def-use with parameter-bound summaries, depth 3) - a table keyed by transitions alone cannot cover the product of per-state pools; (b) every symbol family constructed at several sites of helicity/kinematics (47 sites measured) agrees in kind and assumptions, single producers stay single; (c) on every path of formulate (paths enumerated) a mass stored as parameter is deleted from / cannot be in the kinematic variables; builder-created parameters are registered at creation. Which symbols custom builders introduce, and clause (d), are not decided. Also: ids combined with a topology were computed from that same topology (R-SAMETOPOLOGY, 63 call sites), the builder and the adapter use one helicity-state convention (R-NORMALISED), symmetrised topologies are registered in the adapter (R-KINDOMAIN).",
        "note": "SymPy symbol identity = name + assumptions; create_expressions defines all invariant-mass symbols." + COMMON_NOTE,
        "technique": "static analysis: inter-procedural provenance of dictionary keys, symbol-construction family comparison, path enumeration with paired store/delete typestate",
    },
    "C02": {
        "level": "Decides (a) the argument roles of the Wigner-D and both Clebsch-Gordan factors against the formula in the property statement (term extraction with attribute paths as atoms, linear forms normalised) and (b) a must-use rule over the fold chain: every transition / symmetrisation graph / node reaches its accumulator unconditionally and accumulators are folded whole (sum over transitions, product over nodes, |coherent sum|^2, coefficient and prefactor multiply the product). Numerical equality, components and symmetrisation multiplicity are not decided. Also: the group key of the incoherent sum is lossless (R-GROUPKEY); the two Clebsch-Gordan factors are required on EVERY path of formulate_isobar_cg_coefficients (path-sensitive term extraction).",
        "note": "Argument order of sympy's Rotation.D and CG; an edit that skips provably vanishing terms would be reported by R-FOLD (none exists)." + COMMON_NOTE,
        "technique": "static analysis: term extraction with role comparison against the stated formula; must-use dataflow over loops and comprehensions of the fold chain",
    },
    "C03": {
        "level": "Decides that the prefactor attached to a chain is built from the parity factors of exactly the nodes whose coefficient was mapped to a partner: every returned value depends on the node loop variable, every in-loop contribution is control-dependent on the per-node test `mapped suffix != raw suffix` and takes interactions[node].parity_prefactor of that node; plus the construction of the partner suffix (both daughters negated, parent helicity suppressed). Equivalence with the canonical formalism for all LS values is not decided. Also: when the node loop only collects the flipped nodes, the collection is guarded by the flip test and the helper multiplies over exactly its selection (no falsy-empty fallback); the canonical CG expansion of the equivalence clause is the two-factor product on every path.",
        "note": "qrules' parity_prefactor is the eta of that node." + COMMON_NOTE,
        "technique": "static analysis: data dependence (reaching definitions) and control dependence of returns/accumulator updates on the node loop",
    },
    "C04": {
        "level": "Decides the structural necessary conditions of rotation invariance: key/value provenance of every angle store in compute_helicity_angles (R-PROV; the sibling-named, child-filled store is recorded known finding K1), the frame chain B_z(|P|/E) R_y(-theta) R_z(-phi) of one summed momentum with recursion into the boosted pool, identical resolution of the opposite-helicity state at every consumer of the angle names, and the (-phi, theta, 0) convention of the Wigner-D. Numerical invariance is not decided. Also: reads of the momentum pool see only the handed-in pool (R-POOL), lossless group key (R-GROUPKEY), axis-angle rotation chain walked upwards from the rotated state (R-CHAINORDER).",
        "note": "qrules Topology API; is_opposite_helicity_state is a total order on siblings." + COMMON_NOTE,
        "technique": "static analysis: reaching-definition provenance of key vs value, AST role matching after local inlining, sibling agreement over call sites",
    },
    "C06": {
        "level": "Decides the structural causes of history / hash-seed dependence on the formulate path (call graph with class-hierarchy approximation, 115 functions measured): (a) no alias of the mutable part of a memoised result is mutated or handed out uncopied (alias flow to a fixed point through wrappers and polymorphic calls, tuple components distinguished); (b) formulate resets its scratch state first, reset re-creates every field, and every other write targets locals / objects under construction; (c) no unordered container with hash-seed-sensitive elements reaches an order-preserving sink (taint with sanitisers sorted/min/max/len, inter-procedural sink-parameter summaries), int-id sets and insertion-history-only sets are classified separately; (d) model mapping fields are converted into new (sorted) mappings. Fresh-process equality beyond these causes and thread interleavings are not decided. Also: no class-level mutable state shared between builders (R-SHARED), nothing on the formulate path creates a process-unique value such as sp.Dummy / uuid / clock / random / id() (R-FRESH).",
        "note": "functools.cache semantics; CPython hashing of small ints vs str/SymPy objects; qrules id sets are ints." + COMMON_NOTE,
        "technique": "static analysis: alias/escape analysis of memoised results, write-effect classification over the call graph, unordered-to-ordered taint analysis with sink-parameter summaries",
    },
    "C07": {
        "level": "Decides: for every producer merged into HelicityAdapter.create_expressions (found from the call graph) each named store's value derives from the same state id as its name (so equal names carry equal quantities across registered topologies; K1 recorded as known finding), and the definitions of InvariantMass, Phi, Theta, component slices, norms, mass naming and the mass store equal the documented formulas. Agreement with an independent numerical computation is not decided. Also: helicity frame chain and pool discipline (R-FRAME, R-POOL), the Dalitz closed form formulate_scattering_angle for all six ordered pairs against the (ij)-frame geometry, no id compared with an integer literal on the naming path (R-LITERALID), memo invalidation in HelicityAdapter (R-MEMO).",
        "note": "qrules get_originating_final_state_edge_ids semantics." + COMMON_NOTE,
        "technique": "static analysis: reaching-definition provenance over call-graph-discovered producers; term extraction of expression-class definitions",
    },
    "C05": {
        "level": "Decides the structural necessary conditions: every list/set .remove() in the package is guarded or covered by a recorded invariant (so formulating an aligned model cannot raise for any spin), the alignment PoolSums range over create_spin_range(s) of the rotated state's own spin with the matching Wigner-D j and index, create_spin_range runs -s..s in unit steps, and the DPD Wigner-d factors are wired to consistent outer states. Does not decide aligned == unaligned intensity. Also: every term reaching the DPD PoolSum summand carries all summation indices and one rotation per outer state (R-SUMMAND), no memoised mutable container of helicity.align is written (R-CACHE), axis-angle chain order (R-CHAINORDER).",
        "note": "Invariant table for two remove() sites (reason recorded per entry)." + COMMON_NOTE,
        "technique": "static analysis: dominating-guard check on remove() call sites, def-use wiring of PoolSum pools vs Wigner-D arguments, loop-shape roles",
    },
    "C08": {
        "level": "Decides: printer discipline of all NumPy/Python printer methods (so cse on/off and non-symbol arguments print valid code), agreement of the explicit matrix with the matrix laid out by the generated-code template for the arguments evaluate() passes (4 classes x 16 entries, commutative normal form), and the Lorentz condition M^T eta M = eta, handedness, L00 = gamma, B(p)p = (m,0,0,0) and symmetry for the explicit matrices as rational-function identities over sqrt atoms. Does not decide einsum strings, batch sizes or floating-point accuracy. Also: precedence hazards of code templates (R-PREC), single ordered einsum shape (R-EINSUM; other printer shapes are outside the grammar and give exit 2), Piecewise entries inside the boost matrix are compared as opaque terms.",
        "note": "ComplexSqrt == sqrt for beta <= 1; formal radical algebra at a generic positive point." + COMMON_NOTE,
        "technique": "static analysis: taint of f-string placeholders in printer methods; term extraction of matrix literals and code templates with rational-function normal form",
    },
    "C09": {
        "level": "Decides what unitarity and symmetry need from the code: K parametrisations symmetric under i<->j and free of the imaginary unit, T = K(1-iK)^-1 and the relativistic T^/T formulas in a non-commutative normal form (push-through equivalents accepted, wrong sign/side/missing rho rejected), rho symbol identity between producer and both consumers, duplicated symbol constructions agreeing in kind and assumptions, K[i,j] substituted by the own parametrisation. Numerical unitarity is not decided. Also: rho placeholders carry no assumptions (R-PLACEHOLDER), forwarding of phsp_factor/L/radius as necessary condition of a real width (R-FORWARD), memoised matrices never written (R-CACHE), helper functions and element-wise matrix definitions over diagonal matrices are evaluated in the matrix normal form.",
        "note": "Matrix identities (push-through) and S = 1+2iT are trusted mathematics." + COMMON_NOTE,
        "technique": "static analysis: term extraction with closure inlining, swap-invariance of the normal form, non-commutative matrix normal form, symbol-construction pairing",
    },
    "C10": {
        "level": "Decides (b) completely at the code level: every (caller, callee, parameter) triple over {phsp_factor, angular_momentum, meson_radius} in ampform.dynamics (measured on each run) forwards the caller's own value, for any value a caller may pass; and (a) structurally: F = (1-iK)^-1 P and the relativistic analogue in non-commutative normal form, K/P substituted by the library's own parametrisations with matching indices and shared pole symbols. Residuals and the 1-channel/1-pole reduction are not decided. Also: the one-channel/one-pole reductions K/(1-iK), P/(1-iK) == the library's relativistic_breit_wigner[_with_ff] as rational-function identities and the pole sums (R-TERM), no args-reconstructing SymPy operation on expressions that may carry a non-sympified phsp_factor (R-REBUILD), placeholder and hash-key injectivity rules shared with C09/C14.",
        "note": "Python call semantics (an omitted keyword takes the callee's default)." + COMMON_NOTE,
        "technique": "static analysis: call-graph triple enumeration with def-use check of forwarded arguments; non-commutative matrix normal form",
    },
    "C16": {
        "level": "Decides the cache protocol on every syntactic path through perform_cached_doit and its helpers (paths enumerated, helpers spliced in): a loaded value is returned only after an equality test against the query (all directory histories, colliding keys), load/open failures cannot propagate and lead to recomputation (all crash points that leave a partial file), the final name is published only by rename from a closed process-unique temporary (concurrent writers/readers). Does not decide SymPy's == or POSIX rename atomicity. Also: only the call's own mkstemp temporary is ever deleted (R-OWNFILES).",
        "note": "Exception set of pickle.load per the Python documentation; os.replace atomic within a directory; mkstemp unique." + COMMON_NOTE,
        "technique": "static analysis: structured path enumeration with inter-procedural splicing and a taint/typestate interpretation (load, key, verified, final, tmp)",
    },
    "C17": {
        "level": "Decides that rename_symbols rebuilds every field of the attrs class HelicityModel (fields read from the class body, exempt table: reaction_info) from one symbol mapping - keys and values where keys are symbols - with the simultaneous primitive xreplace, that new symbols carry **assumptions0, that other symbols map to themselves, that the mapping ranges over expression/kinematic-variable keys/values, and that neither the (frozen) original nor the caller's map is mutated. A field added later without a rename handler is reported by name. Numerical equivalence is not decided. Also: a loop-built mapping must select symbols by their own name (sequential application of the pairs is reported).",
        "note": "xreplace is simultaneous; attrs.evolve re-runs converters." + COMMON_NOTE,
        "technique": "static analysis: field-exhaustiveness of the attrs.evolve call with def-use dependence on the symbol mapping; role checks of the mapping comprehension",
    },
    "C18": {
        "level": "Decides the structural clauses: binder discipline (a class that removes bound symbols from free_symbols guards their substitution), the shape of evaluate (Add over itertools.product of all pools, zip(symbols, combination) into the summand), the subtrahend of free_symbols, and on every path of cleanup whether an index is kept, substituted or compensated. The dropped-unused-index path of cleanup is a recorded known finding (K2). Evaluation for arbitrary summands is not decided. Also: own indices are substituted with the binding-aware subs (R-BINDSUBST); the substitution guard is not wider than the instance's own indices.",
        "note": "SymPy's subs protocol (_eval_subs consulted first) and ExprWithLimits' own guards are trusted." + COMMON_NOTE,
        "technique": "static analysis: binder sibling rule, role check of the evaluate comprehension after local inlining, path enumeration of the cleanup loop",
    },
    "C11": {
        "level": "Decides the algebraic clauses as term identities: 4s*q^2 symmetric, zero at both thresholds, equal to the Kallen function of the kinematics module; the three plain variants are 2*R(q^2)/sqrt(s) with R = sqrt / sqrt(Abs) / ComplexSqrt; ComplexSqrt's two-branch definition, its NumPy printer printing that very definition and the Python printer's two rows; the Chew-Mandelstam formula, the -i factor of the S-wave variant and the three-row case table of the equal-mass continuation against the PDG forms. The transcendental identities (Re rho for the Chew-Mandelstam variants, equal-mass equivalence, continuity) are declined, not approximated. Also: .args are in field-declaration order however keyword arguments are spelled (R-ARGORDER, shared with C14).",
        "note": "sqrt/Abs/log/atan semantics; formal algebra at a generic positive point." + COMMON_NOTE,
        "technique": "static analysis: term extraction with inlining of helper functions, rational-function normal form with sqrt/app atoms, case-table comparison",
    },
    "C12": {
        "level": "Decides by substitution in the extracted terms: Gamma(m0^2) = Gamma0 for every phase-space factor and L (the factor is an opaque callable, L symbolic), B_L^2(1) = 1, FormFactor = sqrt(B_L^2(q^2 d^2)); by call graph that the fast polynomial path is derived from the Hankel definition in the same variable; and term equality of the builder classes' expressions with the public lineshape functions under the stated correspondence, plus the flags of the convenience builders. Threshold behaviour / boundedness are not decided. Also: the four flag combinations of the builder against the function API; the variable set handed to the builders carries the L of the node (shared with C13).",
        "note": "SymPy's doit().simplify()/lambdify are value preserving." + COMMON_NOTE,
        "technique": "static analysis: term extraction of methods with struct-valued parameters, substitution and rational-function equality, call-graph single-source rule",
    },
    "C13": {
        "level": "Decides the wiring: the variable set of a node (parent mass, daughter masses, angles of children[0], L with None-guarded fallbacks), the arguments the lineshape builders pass into FormFactor / EnergyDependentWidth, the parameter-default dictionaries (mass/width/radius), agreement of duplicated symbol constructions, the singledispatch registry of DynamicsSelector.assign with every implementation reaching the single store and selection by parent name over all decays, and that lookup / resonance / variables / Wigner-D refer to the same (transition, node). Re-assignment histories and custom builders are not decided. Also: the selector's keys cover the decays of the identical-particle permutations that the builder formulates (R-DYNDOMAIN), one store behind assign/__getitem__/views (R-ONESTORE), TwoBodyDecay equality over all fields (R-KEYIDENTITY), must-pass-through of the builder call.",
        "note": "singledispatchmethod semantics; qrules TwoBodyDecay fields." + COMMON_NOTE,
        "technique": "static analysis: AST role matching after local inlining, term extraction of builder return tuples (expression, defaults dict), registry enumeration",
    },
    "C14": {
        "level": "Decides the structural necessary conditions of the substitution/equality/folding laws for every @unevaluated class (enumerated from the AST): reconstruction hooks read arguments shallowly and completely, self.args unpackings match the field lists, the hash hook covers non-SymPy fields, folded classes print through their unfolding. Universal over argument shapes because it speaks about the hook code, not about sampled instances. Does not decide the laws for arbitrary values. Also: hashable content determines class/function-valued attributes (R-INJECTIVE), .args in field order (R-ARGORDER), decorator hooks rebuild from the complete field values (R-REBUILD), hooks descend into every argument (R-DESCEND), template precedence (R-PREC), re-entrant __new__ of the array helper classes (R-REENTRANT).",
        "note": "External-API table: dataclasses.astuple/asdict/copy.deepcopy are deep; Basic.subs/xreplace dispatch to _eval_subs/_xreplace." + COMMON_NOTE,
        "technique": "static analysis: AST model of decorator-installed hooks, call-graph reachability to deep-copy sources, arity/position check of self.args unpackings",
    },
    "C15": {
        "level": "Decides that what is handed to pickle reconstructs the object: __getnewargs__ of every decorated class is shallow and complete, hand-written classes' __new__ accepts their own args, deprecated base returns matching (args, kwargs), model classes have no custom pickle hooks. Does not decide equality after an actual round trip. Also: state hooks / attribute identity (R-STATE, R-ATTRIDENTITY), expression classes are module-level (R-TOPLEVEL), no evaluate=False node stored as it is in the model (R-CANONICAL), re-entrant __new__ (R-REENTRANT).",
        "note": "Pickle protocol semantics (cls.__new__(cls, *__getnewargs__())) and Basic.__getnewargs__ = args are trusted." + COMMON_NOTE,
        "technique": "static analysis: hook resolution through import aliases, arity comparison of Expr.__new__ calls against __new__ signatures",
    },
    "C19": {
        "level": "Decides: the literal case table of formulate_zeta_angle partitions {1,2,3}^3 (with the diagonal rule) and every call shape of the DPD generator evaluates; the identities zeta^i_{k(k)}=0, zeta^i_{k(0)}=zeta^i_{k(i)}, antisymmetry, zeta^0 = theta-hat hold by construction; and all 18 cos zeta, 6 cos theta-hat and 6 cos theta_ij formulas equal their geometric definition derived in the checker from Lorentz-invariant products (rational functions over lambda^(1/2) atoms modulo the Mandelstam relation), cos theta_ij + cos theta_ji = 0; thorough tier: cyclic covariance incl. signs. arccos range, the cyclic sum rule as an arccosine identity and numerical agreement with four-vector angles are not decided. Also: orientation table of theta-hat (cyclic +acos / anti-cyclic -acos), every path of Kallen.evaluate returns the Kallen polynomial (equal-mass special cases).",
        "note": "Rows are instantiated over the finite index domain by constant propagation (no execution); textbook two-body kinematics in the specification." + COMMON_NOTE,
        "technique": "static analysis: case-table partition check, constant propagation over the index domain, term extraction and rational-function equality against an invariant-product specification",
    },
    "C20": {
        "level": "The decided clauses are polynomial identities, so the static verdict is complete for them: Kallen symmetric and factorised, third Mandelstam sum rule, Kibble = lambda(lambda,lambda,lambda) with the right sigma/mass pairing (fully unfolded, 100+ monomials), and the Piecewise wiring of is_within_phasespace (non-strict <=, value 1, caller's outside_value). That Kibble<=0 characterises the Dalitz region is textbook mathematics and trusted. Also: every path of Kallen.evaluate; both equivalent layouts of the indicator; NaN never classified inside (R-NAN); .args in field order (R-ARGORDER).",
        "note": "Term extraction covers straight-line evaluate() bodies; formal polynomial algebra over Fraction coefficients." + COMMON_NOTE,
        "technique": "static analysis: term extraction (forward substitution of the AST) + polynomial normal form comparison against the property's own formulas",
    },
}


# Third round (DESIGN.md 9.9): clauses added after the third set of independently seeded changes and the
# clean-tree reports that came with them.  Appended to the level texts.
ROUND3: dict[str, str] = {
    "C01": "Third round: a family of mass symbols removed from the kinematic variables is not put back by a later store (the store is guarded by the family's domain or by membership of the symbol itself); lookups into the symbol-keyed mappings never use a str (R-KEYTYPE).",
    "C02": "Third round: itertools.groupby only over input sorted by the same key; the group key keeps which state carries which projection (recorded known finding K4: it does not, identical spinful particles are summed coherently across exchanged projections); the A_{...} component of a chain accumulates over its identical-particle permutations (F19, repaired).",
    "C03": "Third round: daughter order in coefficient names never depends on helicities; the strings that decide coefficient sharing and the parity flip do not depend on display flags (recorded known finding K8: insert_child_helicities / insert_ls_combinations).",
    "C04": "Third round: the pool handed to the recursion is the one boosted in the same activation on every path (no memo across parent chains); the axis-angle wiring of C05 (every D bound to the outer helicity symbol and its own summation index) is shared. Two reproduced deviations outside the decided clauses are listed under not_decided (half-integer double cover, DPD with two topologies).",
    "C05": "Third round: no helicity-suffixed symbol through sp.symbols (F17, repaired); the outer helicity symbol handed to both rotation kinds is never None; Wigner angle table read through local helpers; recorded known findings K6 (rest-frame boost of massless states, R-RESTFRAME) and K7 (restricted summation range for massless states, R-FULLRANGE).",
    "C06": "Third round: no memoised function keyed by transitions / states / particles (equality ignores name, pid, latex) returns an object carrying those labels (R-CACHEKEY).",
    "C07": "Third round: own-pool clause of R-FRAME (see C04); producers are found through named intermediates of update().",
    "C09": "Third round: closed forms for a concrete number of channels are decided entry by entry on explicit symbol matrices (rational-function normal form, determinant / adjugate) against T(1-iK)=K; the pole normalisation of the energy-dependent width is sign-insensitive (recorded known finding K5: it is not for FormFactor and the default PhaseSpaceFactor - sub-threshold poles give complex K); PhaseSpaceFactorAbs itself is.",
    "C10": "Third round: helpers that return several matrices are followed (F = T K^-1 P is rejected: K^-1 does not exist for fewer poles than channels); every barrier factor inside EnergyDependentWidth depends on the caller's radius and L (term level).",
    "C11": "Third round: every return path of ComplexSqrt._numpycode prints the one definition.",
    "C12": "Third round: no lineshape is evaluated at a point by structural substitution of a parameter that callers bind to compound expressions (R-STRUCTSUBS).",
    "C13": "Third round: assign(TwoBodyDecay) writes exactly the given key.",
    "C14": "Third round: the field getter of the hooks yields a tuple for every arity (operator.attrgetter with one name does not); PoolSum._eval_subs returns (shared with C18).",
    "C15": "Third round: same getter-arity clause for __getnewargs__; UnevaluatedExpression.__getnewargs_ex__ forwards name.",
    "C16": "Third round: no unbounded wait on the state of a file on the cache path (R-NOWAIT); keys assembled from parts are injective only if every part is.",
    "C17": "Third round: helpers of rename_symbols are inlined; the universe of renameable symbols includes the parameter keys (F18, repaired).",
    "C18": "Third round: binding-aware substitution also where code outside PoolSum expands a sum; _eval_subs answers self only for bound symbols and otherwise defers to SymPy (value pools are substituted too); free_symbols is not memoised on the instance.",
    "C19": "Third round: an angle documented as acos(c) is not computed with single-argument atan.",
    "C20": "Third round: no sequential multi-pair subs() with arbitrary replacement values in kinematics/phasespace.py; fallbacks guarded by `is None` on term values are decided.",
}
for _pid, _text in ROUND3.items():
    META[_pid]["level"] += " " + _text

# Robustness rounds (DESIGN.md 9.10-9.13): how the rules read the code, and where an engine enumerates instead of
# quantifying.  Appended to the level texts; the technique field names the deciding method.
ROUND4: dict[str, str] = {
    "C01": "How it reads the code: the anchored functions are analysed in their effective form (private helpers spliced in, aliases of self.<path> resolved); symbol names are read as skeletons (f-string / + / % / format / join); a name or mapping the rules cannot read gives exit 2.",
    "C02": "How it reads the code: the fold chain and the group key are evaluated into structural terms (one generic element per loop, helpers / generators / map / reduce followed) and the VALUES that reach amplitudes / components / intensity are judged; an incompletely followed value gives exit 2.",
    "C03": "How it reads the code: one generic iteration per loop, helper bodies substituted into branch conditions, sequences and products brought into one normal form each; path facts decide the control dependence.",
    "C04": "How it reads the code: term evaluation of the convention (a NamedTuple result is read positionally), abstract evaluation of the rotation chain (shared with C05), data flow of the adapter's producers.",
    "C05": "How it reads the code: abstract evaluation into structural terms (while / recursion / table-driven loops give one value); the boost and rotation chains are additionally unrolled for explicit chain lengths 1..3 - for those the verdict is per length, not for all lengths.",
    "C06": "How it reads the code: dataflow / alias / effect rules on the call graph; the scratch state may be re-initialised by reset() or by binding a fresh instance; a write to a parameter is judged at its call sites.",
    "C07": "How it reads the code: producers by data flow into the returned mapping; component indices through module constants (literals, tuples, range(n)).",
    "C08": "How it reads the code: printer methods are evaluated on an abstract printer and the produced TEXT is parsed (matrix layout, einsum contraction strings as a tensor network for 1..4 operands); what a constructed repository class prints as is taken from its own printer method.",
    "C09": "How it reads the code: the matrix builders and formulate() are evaluated into non-commutative matrix terms of symbolic dimension (entry pattern [i, j]); wiring rules use explicit 2x2 matrices (n = 2 only).",
    "C10": "How it reads the code: as C09; R-FORWARD reads keyword, positional, **mapping and starred arguments (tuple displays, the starred rest of an unpacking of self.args, constant slices).",
    "C11": "How it reads the code: formulas are compared after every application of a repository expression class is replaced by what its evaluate() builds; the printers of ComplexSqrt are evaluated on an abstract printer.",
    "C12": "How it reads the code: builders through their public __call__ under the four flag combinations (enumerated); parameter symbols are identified by name.",
    "C13": "How it reads the code: selector and __formulate_dynamics are evaluated abstractly and judged on their effects (which key/value pairs reach the store under which conditions).",
    "C14": "How it reads the code: the @unevaluated decorator is interpreted (abstract interpretation over model objects: kinds and known attributes, never SymPy objects; nothing is executed) on model classes with 0-3 fields in every SymPy / non-SymPy signature (plus single classes with 4 and 5 fields), then every installed hook on model instances for every combination of a finite domain of field kinds x rule kinds x hints. Exhaustive over that domain; the models of the SymPy / dataclasses / inspect / copy entry points are part of the trusted base.",
    "C15": "How it reads the code: the pickle hooks are interpreted on the same model objects as C14; arities of hand-written __new__ by sequence-length analysis (displays, sympify, starred unpacking).",
    "C16": "How it reads the code: path enumeration with typestate (load, key, verified, final, tmp); a deleted path is judged by its origin (own temporary vs directory listing), followed to callers.",
    "C17": "How it reads the code: field values and the mapping in closed form (helper calls replaced by the value they return; the rebuild may sit in a helper that receives the mapping; identity-then-overwrite is a normal form); the symbol universe by a small abstract interpreter (generator methods included).",
    "C18": "How it reads the code: cleanup on atomised guards with a three-valued pool-size domain; substitutions in closed form.",
    "C19": "How it reads the code: rows by constant propagation over all 125 index triples (enumerated); validating helpers are evaluated for those constants.",
    "C20": "How it reads the code: polynomial normal form; records (NamedTuple / dataclass) and their methods are evaluated.",
}
for _pid, _text in ROUND4.items():
    META[_pid]["level"] += " " + _text

# Fourth round of seeded changes (DESIGN.md 9.14)
ROUND5: dict[str, str] = {
    "C02": "Fourth round: no truth test of an optional quantum number (l/s magnitude and projection; L = 0 is a value) anywhere in ampform.helicity (R-FALSYZERO, shared with C12 and C13).",
    "C04": "Fourth round: an option of formulate_isobar_wigner_d that a caller binds to something else than its default is any value - the (-phi, theta, 0) convention is judged on every path.",
    "C06": "Fourth round: a mutable literal default of an attrs class is shared state (a dataclass refuses it, attrs does not).",
    "C09": "Fourth round: in-place operations of SymPy matrices (row_op, col_op, row_swap ...) count as writes into a memoised matrix.",
    "C12": "Fourth round: a per-instance memo `if K not in self.M: self.M[K] = V` has every public, re-assignable attribute that V reads in its key (R-MEMOKEY); R-FALSYZERO.",
    "C13": "Fourth round: R-FALSYZERO (see C02).",
    "C15": "Fourth round: every field of HelicityModel that takes part in the generated __eq__ is of a type whose instances compare by value (R-FIELDEQ).",
    "C16": "Fourth round: the taint of a helper call is the taint of what the helper returns (a helper that returns str / srepr / hash of the key returns a digest, not the key); nothing on the cache path raises inside a handler of a file-system error or under a test that observes the file system, and mkdir tolerates an existing directory and creates missing parents (R-NORAISE); the loaded object is unpacked only after a shape test on that path (R-SHAPE); the temporary is created next to the final file (R-SAMEDIR).",
    "C01": "After the last mutation sweep: a key removed from the kinematic variables becomes a parameter on the same path; every mass symbol that remains in an alignment angle gets a definition on every path of its loop.",
    "C05": "After the last mutation sweep: the single-rotation special case substitutes the dangling index by the helicity symbol (shared with C04).",
    "C17": "Fourth round: in a helper loop over the items of the source mapping, a stored value read from the source under another key than the item's own is reported (values travel with their symbols).",
    "C20": "Fourth round: threshold conjuncts of the indicator are read - a wrong mass pairing is a violation, a right one leaves the indicator undecided (crossed-channel regions are outside the sign table).",
}
for _pid, _text in ROUND5.items():
    META[_pid]["level"] += " " + _text

# Fifth round: a fourth unseen set of refactorings (DESIGN.md 9.16)
ROUND6: dict[str, str] = {
    "C01": "Fifth round: methods of an object the builder owns (`self.<attr>` only ever bound to instances of one class) are spliced into the analysed function; the clause on remaining mass symbols classifies the test that decided a skipped iteration (undecided unless it is read).",
    "C02": "Fifth round: folds over a factor list that differs per path are folded per alternative; properties of frozen record classes are evaluated; methods of the owned ingredients object are followed.",
    "C06": "Fifth round: a write to self.<field> in a method is a write to the receiver and is judged at the call sites on the formulate path; a fresh instance may come from a classmethod / staticmethod / function all of whose returns build one from fresh containers; reset() over attrs.fields(...) is read through the declared factories.",
    "C09": "Fifth round: matrix.applyfunc(<entry-wise xreplace>) records the substitutions Matrix.xreplace would.",
    "C16": "Fifth round: predicate helpers and module constants are followed by R-SHAPE; a value that came out of a call the rule cannot attribute makes R-VERIFY undecided.",
    "C20": "Fifth round: module-level integer / text constants, properties and slices of NamedTuple records are read as what they are.",
}
for _pid, _text in ROUND6.items():
    META[_pid]["level"] += " " + _text

# Fifth round of seeded changes (DESIGN.md 9.17)
ROUND7: dict[str, str] = {
    "C01": "Sixth seeded round: define_symbols of a spin alignment reads every configuration field that its formulate_amplitude reads - otherwise undecided, never a pass (R-ALIGNOPT). Fifth seeded round: the step that completes the amplitude table must run on every formulate(): a call site of it (or an earlier return) under a guard that does not derive from the projection pools is a violation, a guard computed from the pools leaves the clause undecided.",
    "C06": "Fifth seeded round: attrs `field(default=<mutable>)` is the same shared object as a mutable literal default.",
    "C16": "Sixth seeded round: loads are identified by their call string; the value that is returned must come out of the very load whose value was compared with the query expression (key and result in two separately renamed files: violation); the load anchor is counted over the transitive reach of perform_cached_doit.",
    "C08": "Fifth seeded round: along the einsum printers and the package functions that receive their operands, the operand sequence is never collapsed to the distinct operands and read back as a collection (R-OPERANDS; role flow shared with C18 R-MULTISET).",
    "C09": "Fifth seeded round: a memoised builder may write into the matrix it builds, not into the result of another memoised builder.",
    "C10": "Fifth seeded round: as C09 (a memoised builder that rescales the cached result of another memoised builder in place is reported).",
    "C14": "Sixth seeded round: evaluate() of an @unevaluated class (27 read) and the package helpers that receive its arguments never substitute FOR an own argument with xreplace / subs / replace (R-EVALSUBST); a `none` token stored for a None argument passes the guards of the same __new__ (R-REENTRANT, shared with C15). Fifth seeded round: the argument hook is interpreted on field layouts with optional fields too (instance holds the default object itself / another value, every combination for up to two optional trailing fields).",
    "C15": "Sixth seeded round: R-REENTRANT also for the `none`-token conversion. Fifth seeded round: as C14 - the pickle arguments may leave out only trailing fields that hold their default.",
    "C18": "Fifth seeded round: along __new__ / evaluate / cleanup / doit and the package functions they call (roles: pairs, pools, pool, value, symbols propagated through locals, comprehensions and call arguments), the values of a pool are never collapsed to the distinct ones (set, dict key, dict.fromkeys) and then iterated, counted or returned (R-MULTISET); a memo that is only looked up is accepted; collapsing plus counting is undecided.",
    "C20": "Sixth seeded round: a module-level memo of kinematics/phasespace.py has every parameter the stored value depends on in its key (R-MEMOKEY; reaching definitions). Fifth seeded round: Kibble compared with a non-zero number (also through a parameter's default) is a violation - the indicator's boundary is Kibble = 0.",
}
for _pid, _text in ROUND7.items():
    META[_pid]["level"] += " " + _text

TECHNIQUE_SUFFIX = {
    "C02": "; abstract evaluation of the fold chain into structural terms (sa/symex.py)",
    "C04": "; abstract evaluation of the rotation chain into structural terms",
    "C05": "; abstract evaluation into structural terms with bounded unrolling (chain lengths 1..3) for the chain rules",
    "C08": "; evaluation of printer methods on an abstract printer, parsing of the generated text",
    "C09": "; abstract interpretation of the matrix builders into non-commutative matrix terms (symbolic dimension; dense n = 2 for wiring)",
    "C10": "; abstract interpretation of the builders into non-commutative matrix terms",
    "C13": "; abstract evaluation of the selector judged on store effects",
    "C14": "; abstract interpretation of the decorator and its hooks over model objects (finite domain of field and rule kinds, exhaustively enumerated)",
    "C15": "; abstract interpretation of the pickle hooks over model objects; sequence-length analysis",
    "C17": "; closed forms by call inlining; abstract interpretation of the symbol universe",
    "C18": "; flow-insensitive role propagation (pairs / pools / values) with a who-reads-the-deduplicated-container rule",
    "C01": "; must-execute check of the completion step over guarded call sites",
}
for _pid, _text in TECHNIQUE_SUFFIX.items():
    META[_pid]["technique"] += _text

for _pid in META:
    META[_pid]["note"] += " Verdicts are three-valued: a violation is reported only with positive evidence; code in a shape a rule cannot read makes the check exit 2 (ANALYSIS-ERROR), never pass."

NOT_APPLICABLE: dict[str, str] = {}
