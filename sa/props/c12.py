"""C12 - lineshape normalisations hold and builder API equals function API.

R-TERM:  Gamma(m0^2) = Gamma0 by substitution; B_L^2(1) = 1; FormFactor = sqrt(B_L^2(q^2 d^2));
         builder expressions == the public lineshape functions under the stated correspondence.
R-SINGLE the fast polynomial path of BlattWeisskopfSquared is derived from the Hankel definition.

Every verdict is three-valued: a term that the evaluator produced and that differs from the reference is a
VIOLATION; a construct that the evaluator cannot turn into a term is an ANALYSIS-ERROR (never a violation).
The builder is read through its PUBLIC behaviour (``__call__`` under the four flag combinations, the module-level
convenience builders evaluated as the objects they are); the resonance parameter symbols are identified by
their NAMES in the produced terms (``m_{id}``, ``Gamma_{id}``, ``d_{id}``), not by the private helper that makes them.
"""

from __future__ import annotations

import ast

from ..loader import AnalysisError, FuncInfo, Tree, unparse
from ..poly import RF, D, equal, sqrt, sym
from ..report import Check
from ..terms import DictV, Opaque, PW, Partial, TermEval, Tup, deep_atoms, vkey

PID = "C12"
DYN = "ampform.dynamics"
FF = "ampform.dynamics.form_factor"
BLD = "ampform.dynamics.builder"
I = RF.atom("I")
BUILDER = f"{BLD}::RelativisticBreitWignerBuilder"
# the model parameters of a resonance are identified by their names (observable: they are the parameter names of the model)
SKELETONS = {"mass": "m_{", "width": "\\Gamma_{", "meson radius": "d_{"}


PHSP_PARAMS = ("s", "m_a", "m_b")  # PhaseSpaceFactorProtocol.__call__(self, s, m_a, m_b)


def abstract_phsp(te: TermEval) -> Opaque:
    """An abstract phase-space factor (any callable that obeys PhaseSpaceFactorProtocol): its application is an opaque
    term over the arguments bound by the protocol's parameter names, so positional and keyword calls are one term."""
    def call(te_, args, kwargs):
        if len(args) > len(PHSP_PARAMS) or set(kwargs) - set(PHSP_PARAMS) or set(PHSP_PARAMS[: len(args)]) & set(kwargs):
            raise AnalysisError(f"the phase-space factor is not called as phsp_factor(s, m_a, m_b): {len(args)} positional, keywords {sorted(kwargs)}")
        bound = {**dict(zip(PHSP_PARAMS, args)), **kwargs}
        if set(bound) != set(PHSP_PARAMS):
            raise AnalysisError(f"the phase-space factor is called without {sorted(set(PHSP_PARAMS) - set(bound))}")
        return te_.app("call:" + repr(("opaque", ("ref", "PHSP"))), [bound[p] for p in PHSP_PARAMS])

    te.overrides["PHSP"] = call
    return Opaque(("ref", "PHSP"))


def builder_env(te: TermEval, phsp=None):
    if phsp is None:
        phsp = abstract_phsp(te)
    pool = {
        "incoming_state_mass": sym("M"),
        "outgoing_state_mass1": sym("ma"),
        "outgoing_state_mass2": sym("mb"),
        "helicity_theta": sym("theta"),
        "helicity_phi": sym("phi"),
        "angular_momentum": sym("L"),
    }
    resonance = Opaque(("resonance",))
    self_struct = {"phsp_factor": phsp or Opaque(("ref", "PHSP")), "energy_dependent_width": Opaque(True), "form_factor": Opaque(True)}
    return pool, resonance, self_struct


def value_atoms(te: TermEval, v) -> set:
    """All atoms of a value, also below the keys and values of a dict value."""
    if isinstance(v, DictV):
        out: set = set()
        for k, x in v.items:
            out |= value_atoms(te, k) | value_atoms(te, x)
        return out
    if isinstance(v, (list, tuple)):
        out = set()
        for x in v:
            out |= value_atoms(te, x)
        return out
    return deep_atoms(te, v)


def resonance_symbols(te: TermEval, *values) -> dict[str, list]:
    """role -> the symbols with that role's name skeleton that occur in the values (sorted, as atoms)."""
    found: dict[str, set] = {role: set() for role in SKELETONS}
    for v in values:
        for a in value_atoms(te, v):
            if isinstance(a, str):
                for role, prefix in SKELETONS.items():
                    if a.startswith(prefix):
                        found[role].add(a)
    return {role: sorted(atoms) for role, atoms in found.items()}


def builder_pair(val, what: str):
    """(expression, parameter defaults) of a builder result; anything else is outside what the rules read."""
    if isinstance(val, Tup) and len(val.items) == 2 and isinstance(val.items[1], DictV):
        return val.items[0], val.items[1]
    raise AnalysisError(f"{what}: does not evaluate to (expression, {{parameter: default}}) but to {repr(val)[:120]}")


def builder_results(te: TermEval, tree: Tree, self_struct: dict, resonance, pool) -> dict:
    """(energy_dependent_width, form_factor) -> (expression, defaults) of ``RelativisticBreitWignerBuilder.__call__``."""
    cls = tree.cls(BUILDER)
    call_m = cls.methods.get("__call__")
    if call_m is None:
        raise AnalysisError("vanished anchor: RelativisticBreitWignerBuilder.__call__")
    out = {}
    for edw in (False, True):
        for ff in (False, True):
            struct = {**self_struct, "energy_dependent_width": Opaque(edw), "form_factor": Opaque(ff)}
            out[edw, ff] = builder_pair(te.eval_function(call_m, [struct, resonance, pool]), f"RelativisticBreitWignerBuilder(energy_dependent_width={edw}, form_factor={ff})")
    return out


def the_resonance_symbols(te: TermEval, results: dict) -> tuple:
    """(mass, width, meson radius) symbols of the full lineshape (energy dependent width x form factor)."""
    found = resonance_symbols(te, *results[True, True])
    bad = {role: atoms for role, atoms in found.items() if len(atoms) != 1}
    if bad:
        raise AnalysisError(f"cannot identify the parameter symbols of the resonance in the full lineshape: {bad} (expected one `m_{{id}}`, one `\\Gamma_{{id}}`, one `d_{{id}}`)")
    return tuple(RF.atom(found[role][0]) for role in SKELETONS)


def module_scope(mod) -> FuncInfo:
    """A pseudo function for evaluating module-level expressions (names resolve through the module's table)."""
    node = ast.FunctionDef(name="<module>", args=ast.arguments(posonlyargs=[], args=[], vararg=None, kwonlyargs=[], kw_defaults=[], kwarg=None, defaults=[]),
                           body=[], decorator_list=[], returns=None, type_comment=None)
    return FuncInfo(qual=f"{mod.name}::<module>", node=node, module=mod, cls=None, outer=None)


def module_value(te: TermEval, mod, name: str, _seen: tuple = ()):
    """The value of a module-level name: a function / class is a reference to it, ``name = <expr>`` is the value of
    the expression evaluated in module scope (other module-level values it mentions are evaluated first)."""
    st = mod.toplevel.get(name)
    if st is None:
        raise AnalysisError(f"vanished anchor: {mod.name}::{name}")
    if isinstance(st, (ast.FunctionDef, ast.ClassDef)):
        return Opaque(("ref", f"{mod.name}::{name}"))
    value = getattr(st, "value", None)
    if not isinstance(st, (ast.Assign, ast.AnnAssign)) or value is None:
        raise AnalysisError(f"{mod.name}::{name} is bound by a {type(st).__name__} (a function, a class or `name = <expression>` expected)")
    env: dict = {}
    for n in ast.walk(value):
        if isinstance(n, ast.Name) and n.id != name and n.id not in _seen and isinstance(mod.toplevel.get(n.id), (ast.Assign, ast.AnnAssign)):
            env[n.id] = module_value(te, mod, n.id, (*_seen, name))
    return te.ev(value, env, module_scope(mod))


def bind_module_objects(te: TermEval, tree: Tree, mod, cls_qual: str) -> None:
    """Module-level names that are bound once to an expression constructing ``cls_qual`` (a shared builder instance)
    become known values of the evaluator, so that functions of the module that use them can be evaluated."""
    for name, st in mod.toplevel.items():
        value = getattr(st, "value", None)
        if not isinstance(st, (ast.Assign, ast.AnnAssign)) or value is None:
            continue
        if not any(isinstance(c, ast.Call) and tree.resolve(mod, c.func) == cls_qual for c in ast.walk(value)):
            continue
        try:
            te.module_values[f"{mod.name}::{name}"] = module_value(te, mod, name)
        except AnalysisError:
            continue  # a use of it fails closed with "call of external ... outside grammar"


def decide(ctx: Check, got, want, rule: str, key: str, where: str, what: str) -> bool:
    """Three-valued: a term that equals / differs from the reference, or no term at all (ANALYSIS-ERROR)."""
    if isinstance(got, (int,)):
        got = RF.const(got)
    if not isinstance(got, RF):
        raise AnalysisError(f"{key}: evaluates to {type(got).__name__} `{repr(got)[:100]}`, not to a scalar term")
    ok = equal(got, want)
    ctx.verdict(ok, rule, key, where, what, None if ok else repr(got)[:300])
    return ok


def check_hankel_series(ctx: Check, tree: Tree) -> None:
    """R-TERM: SphericalHankel1(l, z).evaluate() is the closed series of the spherical Hankel function
    of the first kind,  h_l^(1)(z) = (-i)^(l+1) e^(iz)/z * sum_{k=0}^{l} (l+k)!/((l-k)! k!) (i/(2z))^k
    (Abramowitz-Stegun 10.1.16; the reference is written in the module's own namespace and
    evaluated by the same term extractor).  Both paths of BlattWeisskopfSquared are built from it.
    The summation variable is read off the TERM (the index of the one finite sum it contains), so how the
    method names its intermediate values does not matter."""
    D.reset()
    te = TermEval(tree)
    cls = tree.cls(f"{FF}::SphericalHankel1")
    ev = cls.methods.get("evaluate")
    if ev is None:
        raise AnalysisError("vanished anchor: SphericalHankel1.evaluate")
    l, z = sym("l"), sym("z")
    got = te.unfold_atom(te.single_atom(te.construct(cls.qual, [l, z], {})))
    if not isinstance(got, RF):
        raise AnalysisError(f"SphericalHankel1.evaluate evaluates to {type(got).__name__}, not to a scalar term")
    sums = sorted((a for a in deep_atoms(te, got) if te.is_app(a) and a in te.apps and te.apps[a].cls.split("::")[-1].split(".")[-1] in {"_SymbolicSum", "Sum"}), key=repr)
    if len(sums) != 1:
        raise AnalysisError(f"SphericalHankel1.evaluate: {len(sums)} finite sums in the term (one expected)")
    info = te.apps[sums[0]]
    if len(info.args) != 2 or not isinstance(info.args[1], Tup) or len(info.args[1].items) != 3 or not isinstance(info.args[1].items[0], RF):
        raise AnalysisError("SphericalHankel1.evaluate: the sum is not of the form Sum(summand, (index, lower, upper))")
    k = info.args[1].items[0]
    kname = te.single_atom(k)
    if not isinstance(kname, str):
        raise AnalysisError("SphericalHankel1.evaluate: the summation index is not a symbol")
    env = {"l": l, "z": z, "k": k}
    summand = te.ev(ast.parse("sp.factorial(l + k) / (sp.factorial(l - k) * sp.factorial(k)) * (sp.I / (2 * z)) ** k", mode="eval").body, env, ev)
    prefix = te.ev(ast.parse("(-sp.I) ** (1 + l) * (sp.exp(z * sp.I) / z)", mode="eval").body, env, ev)
    want = prefix * te.app(info.cls, [summand, Tup([k, RF.const(0), l])], info.kwargs)
    decide(ctx, got, want, "R-TERM", f"{cls.qual}.evaluate::series", tree.loc(ev.node),
           "SphericalHankel1(l, z) == (-i)^(l+1) e^(iz)/z * sum_{k=0..l} (l+k)!/((l-k)! k!) (i/(2z))^k")
    made = te.symbol_constructions.get(kname)
    if not made:
        raise AnalysisError(f"SphericalHankel1.evaluate: the construction of the summation variable `{kname}` was not seen")
    ok2 = all(a.get("integer") == "True" and a.get("nonnegative") == "True" for _, a in made)
    ctx.verdict(ok2, "R-TERM", f"{cls.qual}.evaluate::summation-variable", tree.loc(ev.node), "the summation variable is a non-negative integer Dummy (factorial(k) and the finite sum need it)",
                None if ok2 else [a for _, a in made])


def run(ctx: Check, tree: Tree) -> None:
    ctx.decided += [
        "R-STRUCTSUBS: no lineshape is evaluated 'at a point' by structural substitution of a parameter that callers bind to compound expressions",
        "R-TERM (shared with C13): the variable set handed to the builders carries the masses and the L of that decay node (fallbacks only where the transition specifies no L)",
        "EnergyDependentWidth.evaluate at s = mass0^2 normalises to gamma0 for every phase-space factor and L (ff/ff0 and rho/rho0 become identical applications)",
        "SphericalHankel1.evaluate is the closed Hankel series (the defining expression both Blatt-Weisskopf paths are built from)",
        "_formulate_blatt_weisskopf(L, z=1) normalises to 1; FormFactor = sqrt(BlattWeisskopfSquared(q^2(s,m1,m2) * d^2, L))",
        "every path of BlattWeisskopfSquared.evaluate yields the term of _formulate_blatt_weisskopf (the lambdified polynomial cache, applied to its own variable, is that term)",
        "RelativisticBreitWignerBuilder: the four flag combinations of __call__ equal the function API under (s, mass0, gamma0, m_a, m_b, L, d, phsp) <-> (M^2, res_mass, res_width, m1, m2, L, d, self.phsp_factor); the convenience builders, evaluated as the objects they are, give the documented lineshapes",
    ]
    ctx.not_decided += ["z^L threshold behaviour and boundedness (asymptotics)", "equality of values of the symbolic-L and integer-L paths (SymPy simplify/lambdify)"]
    ctx.assumptions += ["SymPy's doit().simplify() and lambdify preserve the value of the Hankel expression"]
    from ..rules import structural_subs_on_params

    hz = structural_subs_on_params(tree, ("ampform.dynamics",))
    for h in hz:
        ctx.violation("R-STRUCTSUBS", f"{h['fn'].qual}::subs::{h['key']}", tree.loc(h["node"]),
                      f"{h['fn'].qual}: `{unparse(h['node'])[:60]}` evaluates the expression 'at {h['key']} = value' by structural substitution, but `{h['key']}` is not always an atomic symbol",
                      {"non_symbol_arguments": h["callers"][:4], "why": "SymPy rewrites e.g. sqrt(q2*d**2) to d*sqrt(q2) for positive d: the pattern no longer occurs and only part of the expression is substituted"})
    if not hz:
        ctx.ok("R-STRUCTSUBS", "src/ampform/dynamics", "no lineshape is evaluated 'at a point' by substituting a parameter that callers may bind to a compound expression")
    D.reset()
    te = TermEval(tree)
    PH = abstract_phsp(te)

    # ---- Gamma(m0^2) = Gamma0
    edw = te.classes.get(f"{DYN}::EnergyDependentWidth")
    if edw is None or edw.method("evaluate") is None:
        raise AnalysisError("vanished anchor: EnergyDependentWidth.evaluate")
    m0, g0, ma, mb, L, d, s = (sym(n) for n in ("m0", "gamma0", "ma", "mb", "L", "d", "s"))
    at_pole = te.unfold_atom(te.single_atom(te.construct(edw.qual, [m0**2, m0, g0, ma, mb, L, d], {"phsp_factor": PH})))
    where = tree.loc(edw.method("evaluate").node)
    decide(ctx, at_pole, g0, "R-TERM", f"{edw.qual}.evaluate::pole-normalisation", where, "EnergyDependentWidth(s = mass0^2) == gamma0 (for any phase-space factor and any L)")
    generic = te.unfold_atom(te.single_atom(te.construct(edw.qual, [s, m0, g0, ma, mb, L, d], {"phsp_factor": PH})))
    ffq = f"{FF}::FormFactor"
    if ffq not in te.classes or te.classes[ffq].method("evaluate") is None:
        raise AnalysisError("vanished anchor: FormFactor.evaluate")
    ff = te.construct(ffq, [s, ma, mb, L, d], {})
    ff0 = te.construct(ffq, [m0**2, ma, mb, L, d], {})
    rho = te.app("call:" + repr(("opaque", ("ref", "PHSP"))), [s, ma, mb])
    rho0 = te.app("call:" + repr(("opaque", ("ref", "PHSP"))), [m0**2, ma, mb])
    want = g0 * (ff / ff0) ** 2 * (rho / rho0)
    decide(ctx, generic, want, "R-TERM", f"{edw.qual}.evaluate::definition", where, "EnergyDependentWidth == gamma0 * (F(s)/F(m0^2))^2 * rho(s)/rho(m0^2) with the caller's phsp_factor")

    # ---- Blatt-Weisskopf
    fbw = tree.func(f"{FF}::_formulate_blatt_weisskopf")
    at_one = te._rf(te.eval_function(fbw, [L, RF.const(1)]))
    decide(ctx, at_one, RF.const(1), "R-TERM", f"{fbw.qual}::unit-normalisation", tree.loc(fbw.node), "B_L^2(z = 1) == 1 for symbolic L")
    z = sym("z")
    gen = te._rf(te.eval_function(fbw, [L, z]))
    h = f"{FF}::SphericalHankel1"
    if h not in te.classes:
        raise AnalysisError("vanished anchor: SphericalHankel1")
    want = te.app("Abs", [te.construct(h, [L, RF.const(1)], {})]) ** 2 / te.app("Abs", [te.construct(h, [L, sqrt(z)], {})]) ** 2 / z
    decide(ctx, gen, want, "R-TERM", f"{fbw.qual}::definition", tree.loc(fbw.node), "B_L^2(z) == |h_L(1)|^2 / (|h_L(sqrt z)|^2 * z)")
    ffc = te.classes[ffq]
    got = te.unfold_atom(te.single_atom(te.construct(ffq, [s, ma, mb, L, d], {})))
    q2 = te.construct("ampform.dynamics.phasespace::BreakupMomentumSquared", [s, ma, mb], {})
    want = sqrt(te.construct(f"{FF}::BlattWeisskopfSquared", [q2 * d**2, L], {}))
    decide(ctx, got, want, "R-TERM", f"{ffq}.evaluate", tree.loc(ffc.method("evaluate").node), "FormFactor(s, m1, m2, L, d) == sqrt(BlattWeisskopfSquared(q^2(s, m1, m2) * d^2, L))")
    ctx.section(check_single_source, ctx, tree)

    # ---- builder API == function API
    ctx.section(check_memo_keys, ctx, tree)
    ctx.section(check_builder, ctx, tree, te)
    ctx.section(check_hankel_series, ctx, tree)
    from .c13 import check_same_decay, check_variable_set

    ctx.section(check_variable_set, ctx, tree)
    ctx.section(check_same_decay, ctx, tree)  # the builder is called for THIS node's variable set (no memo that ignores L)


def check_memo_keys(ctx: Check, tree: Tree) -> None:
    """R-MEMOKEY: "builder API == function API" holds for every STATE of a builder object, also after its public
    attributes were re-assigned.  A per-instance memo whose key leaves out such an attribute hands out the expression
    formulated for the old value."""
    from ..rules import memo_key_hazards

    hazards, judged = memo_key_hazards(tree, "ampform.dynamics")
    for m, store, memo, missing in hazards:
        ctx.violation("R-MEMOKEY", f"{m.qual}::memo {memo}::key-misses::{','.join(missing)}", tree.loc(store),
                      f"{m.qual}: what is stored in `{memo}` depends on the public attribute(s) {missing}, which are not part of the key",
                      "after `builder.<attribute> = ...` the builder returns the lineshape formulated for the previous value, while the function API uses the new one")
    if not hazards:
        ctx.ok("R-MEMOKEY", "src/ampform/dynamics", f"no per-instance memo in ampform.dynamics leaves a re-assignable attribute out of its key ({judged} memo(s) of the form `if K not in self.M: self.M[K] = V` judged)")


class _NeedsVariable(BaseException):
    """The lambdified function was applied to something other than its own variable (carries that variable)."""

    def __init__(self, var) -> None:
        super().__init__("lambdified function applied to another argument")
        self.var = var


def check_single_source(ctx: Check, tree: Tree) -> None:
    """R-SINGLE: whatever path ``BlattWeisskopfSquared(z, L).evaluate()`` takes, its value is the term of
    ``_formulate_blatt_weisskopf(L, z)``.  The fast path goes through ``sp.lambdify(v, e)(z)``: the rule evaluates
    the method with ``z`` := the very variable ``v`` the cached function lambdifies in, where the application is
    exactly ``e`` (``doit`` / ``simplify`` preserve the value - stated assumption).  A cached expression that is
    formulated in one variable and lambdified in another, or that is a formula of its own, gives a different term.
    How the cached function is split into helpers, and how the branch is selected, does not matter."""
    cls = tree.cls(f"{FF}::BlattWeisskopfSquared")
    ev = cls.methods.get("evaluate")
    if ev is None:
        raise AnalysisError("vanished anchor: BlattWeisskopfSquared.evaluate")
    fbw = tree.func(f"{FF}::_formulate_blatt_weisskopf")

    def evaluate_at(z):
        D.reset()
        te = TermEval(tree)
        te.fork = True  # every path of evaluate() is judged

        def lambdify(te_, args, kwargs):
            if len(args) < 2:
                raise AnalysisError("sp.lambdify: variable and expression are not passed positionally")
            return Partial(Opaque(("ref", "<lambdified>")), [args[0], args[1]], {})

        def applied(te_, args, kwargs):
            if len(args) != 3 or kwargs:
                raise AnalysisError("the lambdified Blatt-Weisskopf function is not applied to one argument")
            var, expr, actual = args
            if isinstance(var, (Tup, list)):
                raise AnalysisError("the Blatt-Weisskopf polynomial is lambdified in several variables")
            if vkey(actual) == vkey(var):
                return expr
            raise _NeedsVariable(var)

        te.overrides["sympy.lambdify"] = lambdify
        te.overrides["<lambdified>"] = applied
        L = sym("L")
        zval = z if z is not None else sym("z")
        info = te.apps[te.single_atom(te.construct(cls.qual, [zval, L], {}))]
        got = te.eval_body(ev.node.body, te.self_env(cls.qual, info), ev)
        want = te._rf(te.eval_function(fbw, [L, zval]))
        return te, got, want

    try:
        te, got, want = evaluate_at(None)
    except _NeedsVariable as need:
        if not isinstance(need.var, RF):
            raise AnalysisError("the variable of sp.lambdify is not a symbol") from None
        try:
            te, got, want = evaluate_at(need.var)
        except _NeedsVariable:
            raise AnalysisError("BlattWeisskopfSquared.evaluate: the lambdified polynomial is applied to an argument that is not z") from None
    paths = list(got.branches) if isinstance(got, PW) else [(got, None)]
    problems = []
    for val, cond in paths:
        if not isinstance(val, RF):
            raise AnalysisError(f"BlattWeisskopfSquared.evaluate: a path evaluates to {type(val).__name__}, not to a scalar term")
        if not equal(val, want):
            problems.append(f"a path of evaluate() yields {repr(val)[:160]}, which is not _formulate_blatt_weisskopf(L, z)")
    ctx.verdict(not problems, "R-SINGLE", f"{cls.qual}.evaluate::single-source", tree.loc(ev.node),
                f"all {len(paths)} path(s) of BlattWeisskopfSquared.evaluate are _formulate_blatt_weisskopf: symbolic L directly, numeric L through the lambdified simplification of the same expression in the same variable", problems or None)


def check_builder(ctx: Check, tree: Tree, te: TermEval) -> None:
    cls = tree.cls(BUILDER)
    pool, resonance, self_struct = builder_env(te)
    M = pool["incoming_state_mass"]
    m1, m2, L = pool["outgoing_state_mass1"], pool["outgoing_state_mass2"], pool["angular_momentum"]
    results = builder_results(te, tree, self_struct, resonance, pool)
    res_mass, res_width, radius = the_resonance_symbols(te, results)
    call_m = cls.methods["__call__"]

    def where_of(name):
        m = cls.methods.get(name)
        return tree.loc((m or call_m).node)

    # simple BW
    simple, simple_defaults = results[False, False]
    fn_bw = tree.func(f"{DYN}::relativistic_breit_wigner")
    plain = te._rf(te.eval_function(fn_bw, [M**2, res_mass, res_width]))
    equal_simple = decide(ctx, simple, plain, "R-TERM", f"{cls.qual}.__simple_breit_wigner::equals-function", where_of("__simple_breit_wigner"),
                          "builder simple BW == relativistic_breit_wigner(s = M^2, mass0 = m_res, gamma0 = Gamma_res)")
    # single definition: the public function is reached from the builder - or the builder's own formula is the same term
    delegated = fn_bw.qual in tree.reachable(call_m.qual)
    ctx.verdict(delegated or equal_simple, "R-TERM", f"{cls.qual}.__simple_breit_wigner::delegates", where_of("__simple_breit_wigner"),
                "the simple BW is produced by calling the public function (single definition)" if delegated else "the simple BW is the same term as the public function (it does not call it)")
    # symbols of the simple path == symbols of the full lineshape (equal-named parameters are one parameter)
    keys = {repr(te._rf(k).key()) for k, _ in simple_defaults.items}
    ok = keys == {repr(res_mass.key()), repr(res_width.key())}
    ctx.verdict(ok, "R-TERM", f"{cls.qual}.__simple_breit_wigner::symbols", where_of("__simple_breit_wigner"),
                "simple BW uses the same mass/width symbols as the energy-dependent lineshape (equal-named parameters are one parameter)", None if ok else sorted(keys))

    # energy dependent x form factor
    fn_ff = tree.func(f"{DYN}::relativistic_breit_wigner_with_ff")

    def with_ff(phsp):
        return te._rf(te.eval_function(fn_ff, [M**2, res_mass, res_width, m1, m2, L, radius, phsp]))

    want = with_ff(self_struct["phsp_factor"])
    decide(ctx, results[True, True][0], want, "R-TERM", f"{cls.qual}::ff-times-edbw-equals-function", where_of("__energy_dependent_breit_wigner"),
           "form factor x energy-dependent BW == relativistic_breit_wigner_with_ff(M^2, m_res, Gamma_res, m1, m2, L, d_res, self.phsp_factor)")
    # the four flag combinations of __call__ against the function API
    ff_app = te.construct(f"{FF}::FormFactor", [M**2, m1, m2, L, radius], {})
    width = te.construct(f"{DYN}::EnergyDependentWidth", [M**2, res_mass, res_width, m1, m2, L, radius], {"phsp_factor": self_struct["phsp_factor"]})
    ed = res_mass * res_width / (res_mass**2 - M**2 - width * res_mass * I)
    expected = {
        (False, False): plain,
        (False, True): ff_app * plain,
        (True, False): ed,
        (True, True): want,
    }
    for (edw_flag, ff_flag), want_expr in expected.items():
        decide(ctx, results[edw_flag, ff_flag][0], want_expr, "R-TERM", f"{cls.qual}.__call__::flags({edw_flag},{ff_flag})", tree.loc(call_m.node),
               f"builder(energy_dependent_width={edw_flag}, form_factor={ff_flag}) == " + {
                   (False, False): "relativistic_breit_wigner(M^2, m, Gamma)",
                   (False, True): "FormFactor x relativistic_breit_wigner",
                   (True, False): "m Gamma / (m^2 - M^2 - i m Gamma(M^2)) with the builder's phase-space factor",
                   (True, True): "relativistic_breit_wigner_with_ff(..., phsp_factor = the builder's)",
               }[(edw_flag, ff_flag)])
    # (the composition of __call__ is decided by the four flag combinations above - a textual rule on the
    #  spelling of its two `if`s was removed: it fired on `if not flag: ... else: ...`, see DESIGN.md 9.6)

    # convenience builders: evaluated as the objects they are (a builder instance constructed at module level -
    # with keywords, positionally, through a shared instance or a wrapper function) and called like a user calls them
    mod = tree.module(BLD)
    te.overrides[cls.qual] = lambda te_, args, kwargs: te_.new_object(cls.qual, args, kwargs)
    scope = module_scope(mod)
    phsp_q = "ampform.dynamics.phasespace::PhaseSpaceFactor"
    analytic_q = "ampform.dynamics.phasespace::EqualMassPhaseSpaceFactor"
    for q in (phsp_q, analytic_q):
        if q not in tree.classes:
            raise AnalysisError(f"vanished anchor: {q}")
    expect = {
        "create_relativistic_breit_wigner": (plain, "{'form_factor': 'False'}", "relativistic_breit_wigner(M^2, m, Gamma) (no form factor, constant width)"),
        "create_relativistic_breit_wigner_with_ff": (with_ff(Opaque(("ref", phsp_q))), "{'energy_dependent_width': 'True', 'form_factor': 'True'}, phsp_factor=PhaseSpaceFactor",
                                                     "relativistic_breit_wigner_with_ff(..., phsp_factor=PhaseSpaceFactor)"),
        "create_analytic_breit_wigner": (with_ff(Opaque(("ref", analytic_q))), "{'energy_dependent_width': 'True', 'form_factor': 'True'}, phsp_factor=EqualMassPhaseSpaceFactor",
                                         "relativistic_breit_wigner_with_ff(..., phsp_factor=EqualMassPhaseSpaceFactor)"),
    }
    try:
        bind_module_objects(te, tree, mod, cls.qual)
        for name, (want_expr, flags, text) in expect.items():
            st = mod.toplevel.get(name)
            callable_value = module_value(te, mod, name)
            got, _ = builder_pair(te.apply(callable_value, [resonance, pool], {}, {}, scope, 0), f"{BLD}::{name}(resonance, variable_pool)")
            decide(ctx, got, want_expr, "R-TERM", f"{BLD}::{name}::flags", tree.loc(st) if st is not None else BLD,
                   f"{name} = RelativisticBreitWignerBuilder({flags}).__call__: {name}(resonance, pool) == {text}")
        # default phase-space factor of the builder: PhaseSpaceFactor unless one is given, and the given one is used
        init = tree.lookup_method(cls, "__init__")
        default_obj = te.new_object(cls.qual, [], {})
        given_obj = te.new_object(cls.qual, [], {"phsp_factor": Opaque(("ref", "PHSP"))})
    finally:
        del te.overrides[cls.qual]
        te.module_values.clear()
    problems = []
    for obj, want_phsp, label in ((default_obj, Opaque(("ref", phsp_q)), "without phsp_factor"), (given_obj, Opaque(("ref", "PHSP")), "with a given phsp_factor")):
        if "phsp_factor" not in obj:
            raise AnalysisError("RelativisticBreitWignerBuilder.__init__ does not store `phsp_factor` on the instance (the attribute __call__ reads)")
        if vkey(obj["phsp_factor"]) != vkey(want_phsp):
            problems.append(f"constructed {label}: self.phsp_factor = {obj['phsp_factor']!r}")
    ctx.verdict(not problems, "R-TERM", f"{cls.qual}.__init__::default-phsp", tree.loc(init.node) if init is not None else tree.loc(cls.node),
                "builder default phase-space factor is PhaseSpaceFactor and the given one is stored", problems or None)
